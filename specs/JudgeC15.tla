------------------------------ MODULE JudgeC15 ------------------------------
(***************************************************************************)
(* C15: evaluation under partial assignments is sound and monotone.        *)
(* kind "partial": c.c circuit (n inputs); partial assignment number a in  *)
(* 0 .. 3^n-1 has base-3 digit j (most significant first, one per input    *)
(* position) 0 = False, 1 = True, 2 = Undefined.  c.res is a record        *)
(*   full, circ, outs : [label -> Seq over assignments of 0/1/2/3]         *)
(* (3 = key missing / not a GateState) for evaluate_full_circuit,          *)
(* evaluate_circuit and evaluate_circuit_outputs.                          *)
(***************************************************************************)
EXTENDS JudgeCore

Pow3(n) == 3 ^ n
Digit(a, n, j) == (a \div Pow3(n - j)) % 3
Compat(a, n) == {r \in AllRows(n) : \A j \in 1 .. n :
                    Digit(a, n, j) = 2 \/ (Digit(a, n, j) = 1) = ((r \div Pow2(n - j)) % 2 = 1)}
IsTotal(a, n) == \A j \in 1 .. n : Digit(a, n, j) # 2
(* all one-step extensions: one undefined input becomes defined *)
Extensions(a, n) == {a - (2 - v) * Pow3(n - j) : v \in {0, 1}, j \in {x \in 1 .. n : Digit(a, n, x) = 2}}

C15TableFails(name, tab, labels, must, tt, n) ==
  LET A == 0 .. (Pow3(n) - 1)
      val(l, a) == tab[l][a + 1]
  IN FailSet(<<
       <<name \o "-value-missing", \A l \in labels : l \in DOMAIN tab /\ \A a \in A : val(l, a) # 3>>,
       <<name \o "-unsound",
           \A l \in labels : l \in DOMAIN tab => \A a \in A :
              /\ val(l, a) = 1 => Compat(a, n) \subseteq tt[l]
              /\ val(l, a) = 0 => Compat(a, n) \cap tt[l] = {}>>,
       <<name \o "-not-monotone",
           \A l \in labels : l \in DOMAIN tab => \A a \in A :
              val(l, a) \in {0, 1} => \A b \in Extensions(a, n) : val(l, b) = val(l, a)>>,
       <<name \o "-undefined-under-total-assignment",
           \A l \in must : l \in DOMAIN tab => \A a \in A : IsTotal(a, n) => val(l, a) \in {0, 1}>>
     >>)

C15Fails(c) ==
  LET ck == c.c
      n == Len(ck.i)
      tt == GateTT(ck)
      labels == Labels(ck)
  IN C15TableFails("evaluate_full_circuit", c.res.full, labels, labels, tt, n) \cup
     C15TableFails("evaluate_circuit", c.res.circ, labels, Reach(ck, SeqSet(ck.o)), tt, n) \cup
     C15TableFails("evaluate_circuit_outputs", c.res.outs, SeqSet(ck.o), SeqSet(ck.o), tt, n) \cup
     \* the same entry points called with one assignment dictionary reused by the caller
     (IF "full_r" \in DOMAIN c.res
      THEN C15TableFails("evaluate_full_circuit(reused-dict)", c.res.full_r, labels, labels, tt, n) \cup
           C15TableFails("evaluate_circuit(reused-dict)", c.res.circ_r, labels, Reach(ck, SeqSet(ck.o)), tt, n) \cup
           C15TableFails("evaluate_circuit_outputs(reused-dict)", c.res.outs_r, SeqSet(ck.o), SeqSet(ck.o), tt, n)
      ELSE {}) \cup
     \* ... and with ONE dictionary handed to all three entry points in turn
     (IF "full_x" \in DOMAIN c.res
      THEN C15TableFails("evaluate_full_circuit(dict-shared-by-entry-points)", c.res.full_x, labels, labels, tt, n) \cup
           C15TableFails("evaluate_circuit(dict-shared-by-entry-points)", c.res.circ_x, labels, Reach(ck, SeqSet(ck.o)), tt, n) \cup
           C15TableFails("evaluate_circuit_outputs(dict-shared-by-entry-points)", c.res.outs_x, SeqSet(ck.o), SeqSet(ck.o), tt, n)
      ELSE {})
(* kind "partialdeep": the same clauses on a circuit with one path of more than a thousand gates; c.order witness order
   (checked on the way), c.sample the gates whose recorded values are judged.  Linear. *)
C15DeepFails(c) ==
  LET ck == c.c
      n == Len(ck.i)
      G == AsFcn(ck.g)
      ev == EvalChecked(G, c.order, InputCols(ck), AllRows(n))
      labels == SeqSet(c.sample)
  IN IF ~(ev.ok /\ labels \cup SeqSet(ck.o) \subseteq DOMAIN ev.v) THEN {}
     ELSE C15TableFails("evaluate_full_circuit", c.res.full, labels, labels, ev.v, n) \cup
          C15TableFails("evaluate_circuit", c.res.circ, labels, labels \cap ReachAlong(G, c.order, SeqSet(ck.o)), ev.v, n) \cup
          C15TableFails("evaluate_circuit_outputs", c.res.outs, SeqSet(ck.o), SeqSet(ck.o), ev.v, n)
=============================================================================
