SPECIFICATION Spec
INVARIANT BenchRoundTrip
INVARIANT CodecRoundTrip
CHECK_DEADLOCK FALSE
CONSTANTS
 NI = 2
 NG = 2
 AMAX = 2
 Types = {"NOT","AND","OR","NOR","NAND","XOR","NXOR","IFF","GEQ","GT","LEQ","LT","ALWAYS_TRUE","ALWAYS_FALSE","LIFF"}
