----------------------------- MODULE ArithLemmas -----------------------------
(* Role D: bit-sequence arithmetic of Arith.tla equals integer arithmetic (all a, b < 2^W). *)
EXTENDS Arith, TLC
CONSTANT W
VARIABLES a, b
Init == a \in 0 .. (2 ^ W - 1) /\ b \in 0 .. (2 ^ W - 1)
Next == UNCHANGED <<a, b>>
Spec == Init /\ [][Next]_<<a, b>>
A == BitsOfNat(a, W)
B == BitsOfNat(b, W)
AddOK == BVal(BAdd(A, B)) = a + b
ShiftOK == \A s \in 0 .. 3 : BVal(BShift(A, s)) = a * 2 ^ s
MulOK == BVal(BMul(A, B)) = a * b
SameOK == BSame(A, BitsOfNat(a, W + 2)) /\ (BSame(A, B) <=> a = b)
LessOK == BLess(A, B) <=> a < b
RoundTrip == BVal(A) = a
SqrtOK == LET s == ISqrt(a) IN s * s <= a /\ (s + 1) * (s + 1) > a
=============================================================================
