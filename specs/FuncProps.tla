------------------------------ MODULE FuncProps ------------------------------
(***************************************************************************)
(* Mathematical definitions of the function-protocol queries, on truth     *)
(* tables given as row sets:  tt[k] = rows on which output k is TRUE, for   *)
(* a function of n inputs (row r assigns input j, 1-based, the bit n-j).   *)
(***************************************************************************)
EXTENDS CircuitSem

FBit(n, r, j) == (r \div Pow2(n - j)) % 2 = 1
Ones(n, r) == Cardinality({j \in 1 .. n : FBit(n, r, j)})
Flip(n, r, j) == IF FBit(n, r, j) THEN r - Pow2(n - j) ELSE r + Pow2(n - j)
(* r XOR neg, neg : [1..n -> BOOLEAN] *)
RECURSIVE XorRow(_, _, _, _)
XorRow(n, r, neg, j) == IF j > n THEN r
                        ELSE XorRow(n, IF neg[j] THEN Flip(n, r, j) ELSE r, neg, j + 1)

FConstant(n, t) == t = {} \/ t = AllRows(n)
(* documented order definition: values never decrease along 00..0, 00..1, ..., 11..1 *)
FMonotone(n, t, inverse) ==
  \A r, s \in AllRows(n) : r < s => IF inverse THEN (s \in t => r \in t) ELSE (r \in t => s \in t)
FSymmetric(n, t) == \A r, s \in AllRows(n) : Ones(n, r) = Ones(n, s) => (r \in t <=> s \in t)
FDepends(n, t, j) == \E r \in AllRows(n) : (r \in t) # (Flip(n, r, j) \in t)
FEqualsInput(n, t, j) == t = ColOf(n, j)
FEqualsNegInput(n, t, j) == t = AllRows(n) \ ColOf(n, j)
FSignificant(n, t) == {j \in 1 .. n : FDepends(n, t, j)}
(* neg makes the outputs S jointly symmetric *)
FNegValid(n, tt, S, neg) ==
  \A r, s \in AllRows(n) : Ones(n, r) = Ones(n, s) =>
     \A k \in S : (XorRow(n, r, neg, 1) \in tt[k]) <=> (XorRow(n, s, neg, 1) \in tt[k])
FNegExists(n, tt, S) == \E neg \in [1 .. n -> BOOLEAN] : FNegValid(n, tt, S, neg)
=============================================================================
