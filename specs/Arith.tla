-------------------------------- MODULE Arith --------------------------------
(***************************************************************************)
(* Reference arithmetic for the generator properties C07-C09.              *)
(* Numbers are little-endian sequences of BOOLEAN (index 1 = bit 0).        *)
(* Narrow values (< 2^30) are also handled as native integers; wide ones   *)
(* (products of 18..54-bit operands) only as bit sequences, because TLC    *)
(* integers are 32-bit.  ArithLemmas.tla checks bit-sequence arithmetic    *)
(* against integer arithmetic exhaustively on small values.                *)
(***************************************************************************)
EXTENDS Naturals, Sequences, FiniteSets, SequencesExt

TwoTo(k) == 2 ^ k
BVal(bits) == FoldLeft(LAMBDA acc, j : acc + (IF bits[j] THEN TwoTo(j - 1) ELSE 0), 0, [j \in DOMAIN bits |-> j])
BitsOfNat(v, n) == [j \in 1 .. n |-> (v \div TwoTo(j - 1)) % 2 = 1]
BBit(a, j) == j <= Len(a) /\ j >= 1 /\ a[j]
MaxLen(a, b) == IF Len(a) >= Len(b) THEN Len(a) ELSE Len(b)

RECURSIVE BAddRec(_, _, _, _, _)
BAddRec(a, b, j, n, carry) ==
  IF j > n THEN <<carry>>
  ELSE LET x == BBit(a, j)  y == BBit(b, j)
           s == (x # y) # carry
           c == (x /\ y) \/ (carry /\ (x \/ y))
       IN <<s>> \o BAddRec(a, b, j + 1, n, c)
BAdd(a, b) == BAddRec(a, b, 1, MaxLen(a, b), FALSE)          \* length max + 1
BShift(a, s) == [j \in 1 .. s |-> FALSE] \o a
BMul(a, b) ==
  FoldLeft(LAMBDA acc, j : IF b[j] THEN BAdd(acc, BShift(a, j - 1)) ELSE acc,
           <<>>, [j \in DOMAIN b |-> j])
(* equality of the denoted numbers (ignores leading zeros) *)
BSame(x, y) == \A j \in 1 .. MaxLen(x, y) : BBit(x, j) = BBit(y, j)
BLess(x, y) ==   \* x < y
  \E j \in 1 .. MaxLen(x, y) : ~BBit(x, j) /\ BBit(y, j) /\ \A k \in (j + 1) .. MaxLen(x, y) : BBit(x, k) = BBit(y, k)

(* native integer square root *)
ISqrt(v) == CHOOSE s \in 0 .. 65535 : s * s <= v /\ (s + 1) * (s + 1) > v
CeilHalf(n) == (n + 1) \div 2
=============================================================================
