----------------------------- MODULE CircuitSem -----------------------------
(***************************************************************************)
(* Abstract circuits and their denotational semantics.                     *)
(*                                                                         *)
(* A circuit is a record                                                   *)
(*   g   : [label -> [t : GateTypes, o : Seq(label)]]    the gate map      *)
(*   ord : Seq(label)                                     storage order     *)
(*   i, o: Seq(label)                                     inputs / outputs  *)
(*   u   : [label -> Seq(label)]                          reported users    *)
(*   b   : [name -> [i, g, o : Seq(label)]]               blocks            *)
(* exactly what harness/vf/project.py reads through cirbo's public         *)
(* accessors.  Truth tables are sets of row numbers: row r of an n-input   *)
(* circuit assigns input number j (0-based, in the order of c.i) the bit   *)
(* (n-1-j) of r, i.e. the first input is the most significant bit - the    *)
(* order of itertools.product((False, True), repeat=n).                    *)
(***************************************************************************)
EXTENDS GateSemantics, TLC

Labels(c)      == DOMAIN c.g
InputSet(c)    == {l \in Labels(c) : c.g[l].t = "INPUT"}
NonInputSet(c) == Labels(c) \ InputSet(c)
Ops(c, l)      == c.g[l].o
OpSet(c, l)    == {c.g[l].o[j] : j \in DOMAIN c.g[l].o}
SeqSet(s)      == {s[j] : j \in DOMAIN s}
NoDup(s)       == \A x, y \in DOMAIN s : s[x] = s[y] => x = y
Occ(s, e)      == Cardinality({j \in DOMAIN s : s[j] = e})

(******************************  well-formedness  *************************)
WF1(c) == \A l \in Labels(c) : OpSet(c, l) \subseteq Labels(c)         \* operands exist
WF2(c) == SeqSet(c.o) \subseteq Labels(c)                               \* outputs exist
UsersOf(c, l) == IF l \in DOMAIN c.u THEN c.u[l] ELSE <<>>
WF3(c) == \A l \in Labels(c) : \A u \in Labels(c) \cup SeqSet(UsersOf(c, l)) :
             Occ(UsersOf(c, l), u) = (IF u \in Labels(c) THEN Occ(Ops(c, u), l) ELSE 0)
WF4(c) == NoDup(c.i) /\ SeqSet(c.i) = InputSet(c)                      \* inputs list exact
RECURSIVE Layering(_, _)
Layering(c, done) ==
  LET ready == {l \in Labels(c) \ done : OpSet(c, l) \subseteq done}
  IN  IF ready = {} THEN done ELSE Layering(c, done \cup ready)
WF5(c) == Layering(c, {}) = Labels(c)                                   \* acyclic
WF6(c) == \A n \in DOMAIN c.b : SeqSet(c.b[n].g) \cup SeqSet(c.b[n].i) \subseteq Labels(c)
ArityWF(c) == \A l \in Labels(c) : ArityOK(c.g[l].t, Len(Ops(c, l)))
WellFormed(c) == WF1(c) /\ WF2(c) /\ WF3(c) /\ WF4(c) /\ WF5(c) /\ WF6(c)

(* names of the failing well-formedness clauses (for verdict messages) *)
WFFails(c) ==
  (IF WF1(c) THEN {} ELSE {"WF1-operand-missing"}) \cup
  (IF WF2(c) THEN {} ELSE {"WF2-output-missing"}) \cup
  (IF WF3(c) THEN {} ELSE {"WF3-users-index"}) \cup
  (IF WF4(c) THEN {} ELSE {"WF4-inputs-list"}) \cup
  (IF WF1(c) /\ ~WF5(c) THEN {"WF5-cyclic"} ELSE {}) \cup
  (IF WF6(c) THEN {} ELSE {"WF6-block-labels"})

(******************************  orders  **********************************)
RECURSIVE TopoRec(_, _, _)
TopoRec(c, done, acc) ==
  LET ready == {l \in Labels(c) \ done : OpSet(c, l) \subseteq done}
  IN  IF ready = {} THEN acc ELSE TopoRec(c, done \cup ready, acc \o SetToSeq(ready))
TopoSeq(c) == TopoRec(c, {}, <<>>)          \* operands first; needs WF1 /\ WF5

Pos(s, e) == CHOOSE j \in DOMAIN s : s[j] = e
IsPerm(s, S) == NoDup(s) /\ SeqSet(s) = S
(* operands strictly before their users *)
OperandsFirst(c, s) ==
  IsPerm(s, Labels(c)) /\
  \A a, b \in DOMAIN s : s[a] \in OpSet(c, s[b]) => a < b
UsersFirst(c, s) ==
  IsPerm(s, Labels(c)) /\
  \A a, b \in DOMAIN s : s[a] \in OpSet(c, s[b]) => a > b

(******************************  reachability  ****************************)
RECURSIVE ReachRec(_, _, _)
ReachRec(c, front, seen) ==
  IF front = {} THEN seen
  ELSE LET nxt == (UNION {OpSet(c, l) : l \in front}) \ seen
       IN  ReachRec(c, nxt, seen \cup nxt)
Reach(c, S) == ReachRec(c, S, S)                  \* S and everything S depends on
UsersSet(c, l) == {u \in Labels(c) : l \in OpSet(c, u)}
RECURSIVE ReachUpRec(_, _, _)
ReachUpRec(c, front, seen) ==
  IF front = {} THEN seen
  ELSE LET nxt == (UNION {UsersSet(c, l) : l \in front}) \ seen
       IN  ReachUpRec(c, nxt, seen \cup nxt)
ReachUp(c, S) == ReachUpRec(c, S, S)              \* S and everything depending on S

(******************************  semantics  *******************************)
Pow2(n) == 2 ^ n
AllRows(n) == 0 .. (Pow2(n) - 1)
ColOf(n, j) == {r \in AllRows(n) : (r \div Pow2(n - j)) % 2 = 1}     \* j is 1-based
InputCols(c) == LET n == Len(c.i) IN [l \in SeqSet(c.i) |-> ColOf(n, Pos(c.i, l))]

(* row sets of every gate, given row sets for the inputs and an order *)
EvalAlong(c, order, cols, all) ==
  FoldLeft(LAMBDA v, l :
             IF l \in DOMAIN v THEN v
             ELSE v @@ (l :> GateSet(c.g[l].t, [j \in DOMAIN Ops(c, l) |-> v[Ops(c, l)[j]]], all)),
           cols, order)
GateTT(c) == EvalAlong(c, TopoSeq(c), InputCols(c), AllRows(Len(c.i)))
OutTT(c, tt) == [k \in DOMAIN c.o |-> tt[c.o[k]]]
TT(c) == OutTT(c, GateTT(c))

(* point evaluation (Boolean) of every gate under assignment a : [inputs -> BOOLEAN] *)
EvalPoint(c, a) ==
  FoldLeft(LAMBDA v, l :
             IF l \in DOMAIN v THEN v
             ELSE v @@ (l :> GateFn(c.g[l].t, [j \in DOMAIN Ops(c, l) |-> v[Ops(c, l)[j]]])),
           a, TopoSeq(c))
(* three-valued evaluation, a3 : [inputs -> States3] *)
EvalPoint3(c, a3) ==
  FoldLeft(LAMBDA v, l :
             IF l \in DOMAIN v THEN v
             ELSE v @@ (l :> GateFn3(c.g[l].t, [j \in DOMAIN Ops(c, l) |-> v[Ops(c, l)[j]]])),
           a3, TopoSeq(c))

(* row r as an assignment to the inputs *)
RowAsg(c, r) == LET cols == InputCols(c) IN [l \in SeqSet(c.i) |-> r \in cols[l]]

(* same function: same arity and positionally equal output row sets *)
SameFunction(c1, c2) ==
  /\ Len(c1.i) = Len(c2.i)
  /\ Len(c1.o) = Len(c2.o)
  /\ TT(c1) = TT(c2)

(* structural equality modulo storage order, users and blocks
   (what cirbo's Circuit.__eq__ compares) *)
SameNetlist(c1, c2) == c1.g = c2.g /\ c1.i = c2.i /\ c1.o = c2.o

(* conversion of a recorded truth table (sequence of row-number sequences) *)
RowSets(tts) == [k \in DOMAIN tts |-> SeqSet(tts[k])]
=============================================================================
