------------------------------ MODULE JudgeCodec ------------------------------
(* C16: the database codec never silently changes a circuit; C17: shipped databases. *)
EXTENDS JudgeCore, Codec, Normalization

C16CodecFails(c) ==
  LET ck == c.c IN
  IF c.enc_exc # ""
  THEN FailSet(<<
         <<"encode-raised-a-non-codec-error:" \o c.enc_exc, c.enc_dberr>>,
         <<"in-format-circuit-rejected-by-encoder:" \o c.enc_exc, ~InFormat(ck)>>
       >>)
  ELSE FailSet(<<
         <<"decode-of-encoded-bytes-raised:" \o c.dec_exc, c.dec_exc = "">>,
         <<"decoded-circuit-differs", c.dec_exc # "" \/ (WFFails(c.dec) = {} /\ SameUpToRenaming(ck, c.dec))>>,
         <<"bytes-do-not-follow-the-documented-format",
             ~InFormat(ck) \/ LET d == DecodeBytes(c.bytes)
                              IN d.ok /\ WF1(d.c) /\ WF5(d.c) /\ SameUpToRenaming(ck, d.c)>>,
         <<"database-save-open-get_by_label", ~Has(c, "db_back") \/
             (c.db_exc = "" /\ WFFails(c.db_back) = {} /\ SameUpToRenaming(ck, c.db_back))>>
       >>)

(* kind "codecdeep": a circuit with one path of more than a thousand gates (c.order / c.dec_order: witness
   orders, checked on the way).  The quadratic well-formedness clauses and the TLA+ decoder are left to the small
   cases; here: no error other than a codec error, same counts, same function at every output. *)
C16DeepFails(c) ==
  IF c.enc_exc # ""
  THEN FailSet(<< <<"encode-raised-a-non-codec-error:" \o c.enc_exc, c.enc_dberr>>,
                  <<"in-format-circuit-rejected-by-encoder:" \o c.enc_exc, FALSE>> >>)
  ELSE IF c.dec_exc # "" THEN {"decode-of-encoded-bytes-raised:" \o c.dec_exc}
  ELSE LET all == AllRows(Len(c.c.i))
           a == EvalChecked(AsFcn(c.c.g), c.order, InputCols(c.c), all)
           b == EvalChecked(AsFcn(c.dec.g), c.dec_order, InputCols(c.dec), all)
       IN FailSet(<<
            <<"decoded-circuit-differs",
                /\ Len(c.dec.i) = Len(c.c.i) /\ Len(c.dec.o) = Len(c.c.o)
                /\ Cardinality(DOMAIN c.dec.g) = Cardinality(DOMAIN c.c.g)
                /\ (~a.ok \/ (b.ok /\ \A k \in DOMAIN c.c.o : c.dec.o[k] \in DOMAIN b.v /\ b.v[c.dec.o[k]] = a.v[c.c.o[k]]))>>
          >>)

(* kind "bitio": c.items = Seq of [bits (LSB first), w]; c.back = Seq of bit lists read back *)
C16BitIOFails(c) ==
  FailSet(<<
    <<"bit-io-raised:" \o c.exc, c.exc = "">>,
    <<"reader-is-not-the-inverse-of-writer",
        c.exc # "" \/ (Len(c.back) = Len(c.items) /\ \A j \in DOMAIN c.items : c.back[j] = c.items[j].bits)>>,
    <<"oversized-number-accepted", c.oversize_rejected>>
  >>)

(* kind "dict": c.d / c.back = Seq of [k, v] (k code points, v bytes) *)
C16DictFails(c) ==
  FailSet(<<
    <<"dictionary-io-raised:" \o c.exc, c.exc = "">>,
    \* a dictionary is a key -> value map: the order in which the records come back is not part of its value
    <<"dictionary-reader-is-not-the-inverse-of-writer",
        c.exc # "" \/ (Len(c.back) = Len(c.d) /\ SeqSet(c.back) = SeqSet(c.d))>>,
    <<"truncated-data-accepted", c.exc # "" \/ \A j \in DOMAIN c.trunc : c.trunc[j] = "BinaryDictIOError">>,
    <<"trailing-data-accepted", c.exc # "" \/ \A j \in DOMAIN c.ext : c.ext[j] = "BinaryDictIOError">>
  >>)

(************************************  C17  ********************************)
AIGTypes == {"INPUT", "NOT", "IFF", "AND", "OR", "NAND", "NOR", "GT", "LT", "GEQ", "LEQ"}
XAIGTypes == AIGTypes \cup {"XOR", "NXOR"}
BasisOf(db) == IF db = "aig" THEN AIGTypes ELSE XAIGTypes
TypesIn(c, S) == \A l \in Labels(c) : c.g[l].t \in S

C17EntryFails(c) ==
  LET key == RowSets(c.key)
      d == DecodeBytes(c.bytes)
  IN FailSet(<<
    <<"stored-bytes-undecodable", d.ok>>,
    <<"stored-circuit-ill-formed", ~d.ok \/ (WF1(d.c) /\ WF2(d.c) /\ WF5(d.c) /\ ArityWF(d.c))>>,
    <<"stored-circuit-truth-table-differs-from-key",
        ~d.ok \/ ~(WF1(d.c) /\ WF5(d.c)) \/ (Len(d.c.i) = c.n /\ TT(d.c) = key)>>,
    <<"stored-circuit-outside-basis", ~d.ok \/ TypesIn(d.c, BasisOf(c.db))>>,
    <<"get_by_label-raised:" \o c.py_exc, c.py_exc = "">>,
    <<"get_by_label-circuit-differs-from-key",
        c.py_exc # "" \/ (WFFails(c.py) = {} /\ Len(c.py.i) = c.n /\ TT(c.py) = key /\ TypesIn(c.py, BasisOf(c.db)))>>
  >>)

C17LookupFails(c) ==
  IF c.exc # "" THEN {"lookup-raised:" \o c.exc}
  ELSE IF ~c.found
  THEN FailSet(<< <<"lookup-returned-nothing-although-the-normalised-table-is-stored", ~c.present>> >>)
  ELSE FailSet(<<
    <<"lookup-result-ill-formed", WFFails(c.res) = {}>>,
    <<"lookup-result-computes-another-table",
        WFFails(c.res) # {} \/ (Len(c.res.i) = c.n /\ TT(c.res) = RowSets(c.tt))>>,
    <<"lookup-result-outside-basis", TypesIn(c.res, BasisOf(c.db))>>
  >>)

(* DRIFT: the recorder's own normalisation (used to decide whether the key is stored) is not
   the normal form of Normalization.tla *)
C17LookupDrift(c) ==
  IF Has(c, "norm_key") /\ RowSets(c.norm_key) # NormRows(c.n, RowSets(c.tt))
  THEN {"recorder-normalisation-differs-from-Normalization.tla"} ELSE {}

TrivialTypes == {"INPUT", "NOT", "LNOT", "RNOT", "IFF", "LIFF", "RIFF", "ALWAYS_FALSE", "ALWAYS_TRUE"}
SizeOf(c) == Cardinality({l \in Labels(c) : c.g[l].t \notin TrivialTypes})
C17ModelLookupFails(c) ==
  IF c.exc # "" THEN {"model-lookup-raised:" \o c.exc}
  ELSE LET sizes == {c.comp_sizes[j] : j \in {x \in DOMAIN c.comp_sizes : c.comp_sizes[x] >= 0}}
  IN IF ~c.found
     THEN FailSet(<< <<"model-lookup-returned-nothing-although-a-completion-is-stored", sizes = {}>> >>)
     ELSE FailSet(<<
       <<"model-lookup-result-ill-formed", WFFails(c.res) = {}>>,
       <<"model-lookup-disagrees-with-a-defined-entry",
           WFFails(c.res) # {} \/ Len(c.res.i) # c.n \/ Len(c.res.o) # Len(c.mtt) \/
           LET tt == TT(c.res)
           IN \A o \in DOMAIN c.mtt : \A r \in AllRows(c.n) :
                 c.mtt[o][r + 1] = 2 \/ ((c.mtt[o][r + 1] = 1) <=> (r \in tt[o]))>>,
       \* the size measure is the caller's: gates whose type is not in the exclusion list (c.excl; absent = the documented default)
       <<"model-lookup-larger-than-another-completion",
           LET mine == IF Has(c, "excl") THEN Cardinality({l \in Labels(c.res) : c.res.g[l].t \notin SeqSet(c.excl)}) ELSE SizeOf(c.res)
           IN \A s \in sizes : mine <= s>>
     >>)
=============================================================================
