SPECIFICATION Spec
INVARIANT StackAgreesWithDenotation
INVARIANT FullPassSound
INVARIANT StackBounded
CHECK_DEADLOCK FALSE
CONSTANTS
 NI = 2
 NG = 2
 AMAX = 2
 Types = {"ALWAYS_FALSE","NOT","GT","RIFF","AND","XOR"}
