------------------------------ MODULE JudgePass ------------------------------
(***************************************************************************)
(* C03 / C18: simplification passes.                                       *)
(* kind "pass": c.pass in {"RRG","RRGI","MUO","MDG","MEG","cleanup",       *)
(*   "cleanup_heavy","pipeline"}; c.pre / c.arg_after projections of the   *)
(*   argument before / after the call; c.post projection of the result;    *)
(*   c.same_object, c.exc; for RRG/RRGI also c.post2 (pass applied twice); *)
(*   for pipelines c.seq = projection of applying the constituent passes   *)
(*   one after another with their own transform().                         *)
(***************************************************************************)
EXTENDS JudgeCore, CircuitOps, IOUtils

IsSubseq(a, b) ==     \* a is a subsequence of b (both without repetitions)
  /\ SeqSet(a) \subseteq SeqSet(b)
  /\ \A x, y \in DOMAIN a : x < y => Pos(b, a[x]) < Pos(b, a[y])

(* the argument's outputs as row sets over the row space of the result's inputs;
   dropped inputs are unreachable from the outputs, so their column is irrelevant *)
TTOverInputsWith(c, ins, droppedTrue) ==
  LET n == Len(ins)
      all == AllRows(n)
      cols == [x \in SeqSet(c.i) |-> IF x \in SeqSet(ins) THEN ColOf(n, Pos(ins, x))
                                     ELSE IF droppedTrue THEN all ELSE {}]
  IN OutTT(c, EvalAlong(c, TopoSeq(c), cols, all))
TTOverInputs(c, ins) == TTOverInputsWith(c, ins, FALSE)

C03Fails(c) ==
  LET pre == c.pre  post == c.post
      removal == c.removal        \* input removal was requested (RRGI itself or inside a pipeline)
      live == Reach(pre, SeqSet(pre.o))
  IN IF c.exc # "" THEN {"pass-raised:" \o c.exc}
     ELSE FailSet(<<
       <<"argument-modified", c.arg_after = pre>>,
       <<"result-is-not-a-new-circuit", ~c.same_object>>,
       <<"result-wellformed", WFFails(post) = {}>>,
       <<"output-count", Len(post.o) = Len(pre.o)>>,
       <<"inputs-kept-in-order",
           IF removal
           THEN /\ NoDup(post.i) /\ IsSubseq(post.i, pre.i)
                /\ IF c.pass = "RRGI"
                   THEN \A x \in SeqSet(pre.i) \ SeqSet(post.i) : x \notin live
                   ELSE \* inside a pipeline "unreachable" refers to the intermediate circuit;
                        \* by function preservation the outputs cannot depend on a dropped input
                        TTOverInputsWith(pre, post.i, FALSE) = TTOverInputsWith(pre, post.i, TRUE)
           ELSE post.i = pre.i>>,
       <<"truth-table-kept",
           WFFails(post) # {} \/ ~(SeqSet(post.i) \subseteq SeqSet(pre.i)) \/ ~NoDup(post.i) \/
           TT(post) = TTOverInputs(pre, post.i)>>,
       <<"more-gates-than-the-argument", Cardinality(DOMAIN post.g) <= Cardinality(DOMAIN pre.g)>>
     >>)

(*******************************  C18  **************************************)
Negations == {"NOT", "LNOT", "RNOT"}
Buffers == {"IFF", "LIFF", "RIFF"}
SigOperand(g) == IF g.t \in {"RNOT", "RIFF"} THEN g.o[2] ELSE g.o[1]
UnaryGates(c) == {l \in Labels(c) : c.g[l].t \in Negations \cup Buffers}
SameUpToOrder(c, a, b) ==
  /\ c.g[a].t = c.g[b].t
  /\ IF c.g[a].t \in SymmetricTypes THEN SameBag(c.g[a].o, c.g[b].o) ELSE c.g[a].o = c.g[b].o

C18Fails(c) ==
  LET pre == c.pre  post == c.post IN
  IF c.exc # "" THEN {"pass-raised:" \o c.exc}
  ELSE IF WFFails(post) # {} THEN {"result-wellformed"}
  ELSE
   CASE c.pass \in {"RRG", "RRGI"} ->
      LET live == Reach(pre, SeqSet(pre.o))
          keep == IF c.pass = "RRG" THEN live \cup InputSet(pre) ELSE live
      IN FailSet(<<
           <<"rrg-exactly-the-reachable-gates",
               DOMAIN post.g = keep /\ \A l \in keep : post.g[l] = pre.g[l]>>,
           <<"rrg-outputs-kept", post.o = pre.o>>,
           <<"rrg-twice-equals-once", SameNetlist(c.post2, post)>>
         >>)
     [] c.pass = "MDG" ->
      FailSet(<<
        <<"mdg-duplicate-gates-remain",
            \A a, b \in NonInputSet(post) : a # b => ~SameUpToOrder(post, a, b)>>
      >>)
     [] c.pass = "MEG" ->
      LET tt == GateTT(post) IN
      FailSet(<<
        <<"meg-equivalent-gates-remain",
            \A a, b \in NonInputSet(post) : a # b => tt[a] # tt[b]>>
      >>)
     [] c.pass = "MUO" ->
      LET U == UnaryGates(pre) IN
      FailSet(<<
        <<"muo-negation-of-a-negation-remains",
            ~(\A l \in U : pre.g[l].t \in Negations) \/
            \A l \in Labels(post) : post.g[l].t \in Negations =>
                post.g[SigOperand(post.g[l])].t \notin Negations>>,
        <<"muo-buffer-used-as-operand-or-output",
            ~(\A l \in U : pre.g[l].t \in Buffers) \/
            /\ \A l \in Labels(post) : \A x \in OpSet(post, l) : post.g[x].t \notin Buffers
            /\ \A x \in SeqSet(post.o) : post.g[x].t \notin Buffers>>
      >>)
     [] c.pass \in {"pipeline", "cleanup", "cleanup_heavy"} ->
      FailSet(<<
        <<"pipeline-differs-from-sequencing:" \o c.shape, c.seq_exc = "" /\ SameNetlist(post, c.seq)>>
      >>)
     [] OTHER -> {}
C04Trivial == {"INPUT", "NOT", "LNOT", "RNOT", "IFF", "LIFF", "RIFF", "ALWAYS_FALSE", "ALWAYS_TRUE"}

(*******************************  C04  **************************************)
(* kind "minimize": c.orig (deep copy taken before the call), c.res, c.exc, c.validation *)
NoEquivalentGates(c) == LET tt == GateTT(c) IN \A a, b \in Labels(c) : a # b => tt[a] # tt[b]
(* Named deviation Dev_TrivialNegationAsLeaf (known finding): in the branch taken when every
   output of a cut cone equals a cut leaf or its negation, an output h that is the NEGATION of
   a leaf lf is replaced by lf itself.  A wrong result is explained by this deviation iff it
   computes what the original computes after redirecting every use of some such gates h to
   their leaves. *)
DevP == IF "DEV" \in DOMAIN IOEnv THEN IOEnv.DEV ELSE ""
Redirect(c, m) ==
  [c EXCEPT !.g = [l \in DOMAIN c.g |-> [c.g[l] EXCEPT !.o = [j \in DOMAIN c.g[l].o |-> m[c.g[l].o[j]]]]],
            !.o = [j \in DOMAIN c.o |-> m[c.o[j]]]]
ExplainedByTrivialNegation(orig, res) ==
  LET tt == GateTT(orig)
      all == AllRows(Len(orig.i))
      leaves(h) == {lf \in Labels(orig) : lf # h /\ tt[lf] = all \ tt[h] /\ lf \notin ReachUp(orig, {h})}
      H == {h \in NonInputSet(orig) : leaves(h) # {}}
      choices == FoldLeft(LAMBDA acc, h : {(h :> x) @@ f : f \in acc, x \in {h} \cup leaves(h)},
                          {[l \in Labels(orig) \ H |-> l]}, SetToSeq(H))
      \* many candidate gates (circuits with constants and duplicated functions): at most three redirected gates
      few == UNION {{[l \in Labels(orig) |-> IF l \in S THEN f[l] ELSE l] :
                        f \in {g \in [S -> Labels(orig)] : \A h \in S : g[h] \in leaves(h)}} :
                    S \in {T \in SUBSET H : Cardinality(T) \in 1 .. 3}}
      cands == IF Cardinality(H) <= 7 THEN {m \in choices : \E h \in H : m[h] # h}
               ELSE IF Cardinality(H) <= 16 THEN few ELSE {}
  IN \E m \in cands : WF5(Redirect(orig, m)) /\ TT(Redirect(orig, m)) = TT(res)

(***************************************************************************)
(* kind "transformdeep": an operation that must preserve the function      *)
(* (a pass, a pipeline, bench conversion, a copy) applied to a circuit with *)
(* one path of more than a thousand gates.  c.orig / c.res projections,     *)
(* c.order / c.res_order witness orders (operands first, checked on the    *)
(* way), c.not_larger, c.types (allowed gate types of the result, <<>> =   *)
(* any), c.what, c.exc.  Linear clauses only; the pass-specific             *)
(* postconditions stay with the small cases.                               *)
(***************************************************************************)
DeepTransformFails(c) ==
  IF c.exc # "" THEN {c.what \o "-raised:" \o c.exc}
  ELSE LET all == AllRows(Len(c.orig.i))
           GA == AsFcn(c.orig.g)
           GB == AsFcn(c.res.g)
           a == EvalChecked(GA, c.order, InputCols(c.orig), all)
           b == EvalChecked(GB, c.res_order, IF c.res.i = c.orig.i THEN InputCols(c.orig) ELSE InputCols(c.res), all)
       IN IF ~a.ok \/ ~(SeqSet(c.orig.o) \subseteq DOMAIN a.v) THEN {}          \* not decided (DRIFT)
          ELSE FailSet(<<
            <<c.what \o "-result-ill-formed", b.ok /\ SeqSet(c.res.o) \subseteq DOMAIN b.v /\ SeqSet(c.res_order) = DOMAIN GB>>,
            <<c.what \o "-inputs-changed", c.res.i = c.orig.i>>,
            <<c.what \o "-output-count-changed", Len(c.res.o) = Len(c.orig.o)>>,
            <<c.what \o "-function-changed",
                ~b.ok \/ ~(SeqSet(c.res.o) \subseteq DOMAIN b.v) \/ c.res.i # c.orig.i \/ Len(c.res.o) # Len(c.orig.o) \/
                \A k \in DOMAIN c.orig.o : b.v[c.res.o[k]] = a.v[c.orig.o[k]]>>,
            <<c.what \o "-more-gates", ~c.not_larger \/ Cardinality(DOMAIN GB) <= Cardinality(DOMAIN GA)>>,
            <<c.what \o "-gate-type-outside-the-target-basis", c.types = <<>> \/ \A l \in DOMAIN GB : GB[l].t \in SeqSet(c.types)>>,
            \* bench conversion: a helper gate (a new gate read by a rewritten gate) joins every block that holds that gate
            <<c.what \o "-helper-gates-inside-the-blocks-of-the-rewritten-gate",
                ~Has(c, "check_helper_blocks") \/
                \A B \in DOMAIN c.orig.b :
                   /\ B \in DOMAIN c.res.b
                   /\ \A g \in SeqSet(c.orig.b[B].g) :
                        g \in DOMAIN GB =>
                          \A h \in SeqSet(GB[g].o) : h \in DOMAIN GA \/ h \in SeqSet(c.res.b[B].g)>>
          >>)
DeepTransformDrift(c) ==
  IF c.exc # "" THEN {}
  ELSE LET a == EvalChecked(AsFcn(c.orig.g), c.order, InputCols(c.orig), AllRows(Len(c.orig.i)))
       IN IF a.ok THEN {} ELSE {"deep-case-witness-order-not-operands-first(undecided)"}

(* Named deviation Dev_IncompleteCutFamily (known finding): the algorithm derives the member
   gates of a cut's cone from the cuts OTHER nodes were given.  If the supplied family is not
   closed - some gate w strictly inside the cone of a cut K of node v has no cut contained in
   K (the enumerator truncates each node's list at cut_limit) - w is missed, its pattern
   defaults to 0, and a wrong replacement follows.  c.cuts is the recorded family. *)
RECURSIVE ConeRec(_, _, _, _)
ConeRec(c, K, front, seen) ==
  IF front = {} THEN seen
  ELSE LET nxt == ((UNION {OpSet(c, l) : l \in front}) \ K) \ seen
       IN  ConeRec(c, K, nxt, seen \cup nxt)
FamilyIncomplete(c, cuts) ==
  \E v \in DOMAIN cuts : \E j \in DOMAIN cuts[v] :
     LET K == SeqSet(cuts[v][j]) IN
     /\ v \notin K /\ Cardinality(K) > 1
     /\ \E w \in ConeRec(c, K, {v}, {v}) \ {v} :
           w \notin DOMAIN cuts \/ ~(\E i \in DOMAIN cuts[w] : SeqSet(cuts[w][i]) \subseteq K)

C04Fails(c) ==
  LET orig == c.orig
      res == c.res
      hasRes == c.exc = "" \/ (c.exc = "FailedValidationError" /\ c.has_res)
      explained ==
        \/ DevP = "Dev_TrivialNegationAsLeaf" /\ hasRes /\ WFFails(res) = {} /\ res.i = orig.i
              /\ Len(res.o) = Len(orig.o) /\ ExplainedByTrivialNegation(orig, res)
        \/ DevP = "Dev_IncompleteCutFamily" /\ FamilyIncomplete(orig, c.cuts)
  IN
  IF c.exc = "FailedValidationError" THEN (IF explained THEN {} ELSE {"reported-a-failed-validation"})
  ELSE IF c.exc # "" THEN
       (IF NoEquivalentGates(orig) /\ ~(DevP = "Dev_IncompleteCutFamily" /\ FamilyIncomplete(orig, c.cuts))
        THEN {"internal-error-without-equivalent-gates:" \o c.exc} ELSE {})
  ELSE FailSet(<<
         <<"result-ill-formed", WFFails(res) = {}>>,
         <<"inputs-differ", res.i = orig.i>>,
         <<"output-count-differs", Len(res.o) = Len(orig.o)>>,
         <<"truth-table-differs", WFFails(res) # {} \/ res.i # orig.i \/ TT(res) = TT(orig) \/ explained>>,
         <<"more-non-trivial-gates-than-before",
             \/ Cardinality({l \in Labels(res) : res.g[l].t \notin C04Trivial})
                  <= Cardinality({l \in Labels(orig) : orig.g[l].t \notin C04Trivial})
             \* named deviation Dev_NegationsTradedForGates (known finding): a cone with NOT gates is
             \* replaced by as many gates of other types - not more gates in total, but more
             \* non-trivial ones
             \/ (DevP = "Dev_NegationsTradedForGates" /\
                 Cardinality(NonInputSet(res)) <= Cardinality(NonInputSet(orig)))>>
       >>)

(***************************************************************************)
(* Drift for C04: the truth tables with don't-cares that the function       *)
(* derives for its cones (observed from outside, with the working circuit   *)
(* they were derived from).  Entry k of a table is the cone output when     *)
(* cone input q (1-based) carries bit n-q of k; it must be a value, and the *)
(* right one, on every leaf pattern that some input assignment of the       *)
(* circuit produces - exactly what makes a replacement synthesised from     *)
(* the table function-preserving.  Unreachable patterns are free.           *)
(***************************************************************************)
ConeTableOK(e) ==
  LET ce == e.cur  n == Len(e.ins) IN
  IF ~(WF1(ce) /\ WF5(ce)) \/ ~(SeqSet(e.ins) \cup SeqSet(e.outs) \subseteq Labels(ce)) \/ n > 6 THEN TRUE
  ELSE LET tt == GateTT(ce)
           all == AllRows(Len(ce.i))
           val(k, q) == (k \div (2 ^ (n - q))) % 2 = 1
           R(k) == {r \in all : \A q \in 1 .. n : (r \in tt[e.ins[q]]) = val(k, q)}
       IN \A j \in DOMAIN e.outs : Len(e.table[j]) = 2 ^ n /\
            \A k \in 0 .. (2 ^ n - 1) :
               R(k) = {} \/ (e.table[j][k + 1] # 2 /\ \A r \in R(k) : (r \in tt[e.outs[j]]) = (e.table[j][k + 1] = 1))
C04ConeDrift(c) ==
  IF ~Has(c, "cones") THEN {}
  ELSE IF \A j \in DOMAIN c.cones : ConeTableOK(c.cones[j]) THEN {}
       \* under a family that is not closed (the precondition of the known finding incomplete-cut-family) a wrong
       \* table is that finding's mechanism seen from inside: an interior gate of the cone is missing, its pattern is 0
       ELSE IF Has(c, "cuts") /\ FamilyIncomplete(c.orig, c.cuts)
            THEN {"cone-table-wrong-under-an-incomplete-cut-family(known-finding-mechanism)"}
       ELSE {"cone-table-disagrees-with-the-circuit-on-a-reachable-leaf-pattern"}
=============================================================================
