------------------------------- MODULE JudgeFn -------------------------------
(***************************************************************************)
(* C12: all function representations answer every protocol query alike     *)
(* and correctly.  kind "fn": c.n, c.m, c.tt (Seq over outputs of row      *)
(* lists = the mathematical function), c.rep, c.ans = recorded answers.    *)
(* Index conventions of the recorder: outputs and inputs 0-based in the    *)
(* API, sequences here are positional (k-th entry = index k-1).            *)
(* kind "model": c.n, c.m, c.mtt (Seq over outputs of Seq over rows of     *)
(* 0/1/2), c.defs (Seq of [r, o, v]) given ONLY on don't-care entries,     *)
(* c.chk / c.chk_at / c.gmtt recorded model answers, c.res rows of the     *)
(* defined function.  kind "intfn": integer-function wrappers.             *)
(***************************************************************************)
EXTENDS JudgeCore, FuncProps, Arith

BoolSeqOK(s, P(_)) == \A j \in DOMAIN s : s[j] = P(j)

C12FnFails(c) ==
  LET n == c.n  m == c.m
      tt == RowSets(c.tt)
      a == c.ans
      O == 1 .. m  I == 1 .. n
  IN IF c.exc # "" THEN {"query-raised:" \o c.exc}
  ELSE FailSet(<<
    <<"evaluate", RowSets(a.evaluate) = tt>>,
    <<"evaluate_at", RowSets(a.evaluate_at) = tt>>,
    <<"get_truth_table", RowSets(a.tt) = tt>>,
    <<"is_constant", a.is_constant = (\A k \in O : FConstant(n, tt[k]))>>,
    <<"is_constant_at", BoolSeqOK(a.is_constant_at, LAMBDA k : FConstant(n, tt[k]))>>,
    <<"is_monotone", a.is_monotone = (\A k \in O : FMonotone(n, tt[k], FALSE))>>,
    <<"is_monotone-inverse", a.is_monotone_inv = (\A k \in O : FMonotone(n, tt[k], TRUE))>>,
    <<"is_monotone_at", BoolSeqOK(a.is_monotone_at, LAMBDA k : FMonotone(n, tt[k], FALSE))>>,
    <<"is_monotone_at-inverse", BoolSeqOK(a.is_monotone_at_inv, LAMBDA k : FMonotone(n, tt[k], TRUE))>>,
    <<"is_symmetric", a.is_symmetric = (\A k \in O : FSymmetric(n, tt[k]))>>,
    <<"is_symmetric_at", BoolSeqOK(a.is_symmetric_at, LAMBDA k : FSymmetric(n, tt[k]))>>,
    <<"is_dependent_on_input_at",
        \A k \in O : BoolSeqOK(a.depends[k], LAMBDA j : FDepends(n, tt[k], j))>>,
    <<"is_output_equal_to_input",
        \A k \in O : BoolSeqOK(a.eq_in[k], LAMBDA j : FEqualsInput(n, tt[k], j))>>,
    <<"is_output_equal_to_input_negation",
        \A k \in O : BoolSeqOK(a.eq_neg[k], LAMBDA j : FEqualsNegInput(n, tt[k], j))>>,
    <<"get_significant_inputs_of",
        \A k \in O : NoDup(a.signif[k]) /\ {x + 1 : x \in SeqSet(a.signif[k])} = FSignificant(n, tt[k])>>,
    \* "identical answers": the three representations are judged one at a time, so the one list every one of them has to
    \* give is fixed here - the significant input indices in increasing order
    <<"get_significant_inputs_of-identical-across-representations(increasing-indices)",
        \A k \in O : \A i, j \in DOMAIN a.signif[k] : i < j => a.signif[k][i] < a.signif[k][j]>>,
    <<"find_negations_to_make_symmetric",
        \A q \in DOMAIN a.negs :
          LET S == {x + 1 : x \in SeqSet(a.negs[q].outs)}
          IN IF a.negs[q].found
             THEN Len(a.negs[q].neg) = n /\ FNegValid(n, tt, S, a.negs[q].neg)
             ELSE ~FNegExists(n, tt, S)>>
  >>)

C12ModelFails(c) ==
  LET n == c.n  m == c.m
      R == AllRows(n)
      defOf(r, o) == CHOOSE j \in DOMAIN c.defs : c.defs[j].r = r /\ c.defs[j].o = o
      expected(o, r) == IF c.mtt[o][r + 1] = 2 THEN c.defs[defOf(r, o)].v = 1 ELSE c.mtt[o][r + 1] = 1
  IN IF c.exc # "" THEN {"model-raised:" \o c.exc}
  ELSE FailSet(<<
    <<"model-check", c.chk = c.mtt>>,
    <<"model-check_at", c.chk_at = c.mtt>>,
    <<"model-get_model_truth_table", c.gmtt = c.mtt>>,
    <<"define-agrees-with-model-and-definition",
        \A o \in 1 .. m : SeqSet(c.res[o]) = {r \in R : expected(o, r)}>>
  >>)

IntFn(f, x, y) ==
  CASE f = "inc" -> x + 1
    [] f = "mul3" -> 3 * x
    [] f = "sq" -> x * x
    [] f = "const5" -> 5
    [] f = "add" -> x + y
    [] f = "mul" -> x * y
    [] f = "first" -> x
(* value of bit positions lo..hi of row r (n bits) read in the stated order *)
FieldVal(n, r, lo, len, big) ==
  FoldLeft(LAMBDA acc, j : acc + (IF FBit(n, r, lo + j - 1)
                                  THEN Pow2(IF big THEN len - j ELSE j - 1) ELSE 0),
           0, [j \in 1 .. len |-> j])
C12IntFails(c) ==
  LET n == IF c.binary THEN 2 * c.inlen ELSE c.inlen
      ol == c.outlen
      rows == RowSets(c.rows)
      val(r) == IF c.binary
                THEN IntFn(c.f, FieldVal(n, r, 1, c.inlen, c.big), FieldVal(n, r, c.inlen + 1, c.inlen, c.big))
                ELSE IntFn(c.f, FieldVal(n, r, 1, c.inlen, c.big), 0)
      outbit(r, k) == LET v == val(r) % Pow2(ol)
                          e == IF c.big THEN ol - k ELSE k - 1
                      IN (v \div Pow2(e)) % 2 = 1
  IN IF c.exc # "" THEN {"int-wrapper-raised:" \o c.exc}
  ELSE FailSet(<<
    <<"int-wrapper-output-count", Len(c.rows) = ol>>,
    <<"int-wrapper-bit-order", Len(c.rows) # ol \/
        \A k \in 1 .. ol : rows[k] = {r \in AllRows(n) : outbit(r, k)}>>
  >>)
(***************************************************************************)
(* kind "intfnwide": integer wrappers wider than a machine word (65 ..      *)
(* 128 bits), sampled operand values.  c.samples = Seq of [x, y, out] with  *)
(* x, y, out bit sequences in the order the wrapper was told to use         *)
(* (c.big); the arithmetic is done on little-endian bit sequences           *)
(* (Arith.tla), so no integer ever leaves 32 bits.                          *)
(***************************************************************************)
LE(bits, big) == IF big THEN Reverse(bits) ELSE bits
WideFn(f, x, y) ==      \* little-endian bit sequences
  CASE f = "inc" -> BAdd(x, <<TRUE>>)
    [] f = "first" -> x
    [] f = "add" -> BAdd(x, y)
    [] f = "mul3" -> BAdd(x, BShift(x, 1))
    [] f = "shr1" -> IF Len(x) <= 1 THEN <<>> ELSE SubSeq(x, 2, Len(x))
C12IntWideFails(c) ==
  IF c.exc # "" THEN {"int-wrapper-raised:" \o c.exc}
  ELSE FailSet(<<
    <<"int-wrapper-output-count", \A j \in DOMAIN c.samples : Len(c.samples[j].out) = c.outlen>>,
    <<"int-wrapper-bit-order",
        \A j \in DOMAIN c.samples :
           LET sm == c.samples[j]
               want == WideFn(c.f, LE(sm.x, c.big), LE(sm.y, c.big))
               got == LE(sm.out, c.big)
           IN Len(sm.out) # c.outlen \/ \A k \in 1 .. c.outlen : BBit(got, k) = BBit(want, k)>>
  >>)
=============================================================================
