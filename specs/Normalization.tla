---------------------------- MODULE Normalization ----------------------------
(***************************************************************************)
(* Normal form of a multi-output truth table, as used for the keys of the  *)
(* circuit databases (C17): every output whose value on the all-zero input *)
(* is TRUE is negated, the outputs are sorted (rows compared as Boolean     *)
(* sequences, FALSE < TRUE, row 0 first) and equal neighbours are merged.   *)
(* Tables are sequences (one entry per output) of row sets over n inputs.   *)
(* Denorm rebuilds the requested table from the outputs of a circuit that   *)
(* computes the normal form; NormalizationLemmas.tla checks                *)
(* Denorm(Norm(t)) = t for ALL tables with 2 inputs and up to 3 outputs.    *)
(***************************************************************************)
EXTENDS Naturals, Sequences, FiniteSets, SequencesExt

NRows(n) == 0 .. (2 ^ n - 1)
NNeg(n, t) == IF 0 \in t THEN NRows(n) \ t ELSE t
LexLeq(n, a, b) ==     \* a <= b as Boolean sequences over rows 0, 1, 2, ...
  a = b \/ \E r \in NRows(n) : r \notin a /\ r \in b /\ \A q \in 0 .. (r - 1) : (q \in a) = (q \in b)
NormKey(n, tt) ==
  LET negd == [k \in DOMAIN tt |-> NNeg(n, tt[k])]
      sorted == SortSeq(negd, LAMBDA a, b : LexLeq(n, a, b) /\ a # b)
  IN  SelectSeq([k \in DOMAIN sorted |-> <<k, sorted[k]>>],
                LAMBDA p : p[1] = 1 \/ sorted[p[1] - 1] # p[2])
NormRows(n, tt) == LET nk == NormKey(n, tt) IN [k \in DOMAIN nk |-> nk[k][2]]
(* the table recovered from circuit outputs S that compute the normal form *)
Denorm(n, tt, S) ==
  LET key == NormRows(n, tt)
  IN [k \in DOMAIN tt |->
        LET j == CHOOSE j \in DOMAIN key : key[j] = NNeg(n, tt[k])
        IN IF 0 \in tt[k] THEN NRows(n) \ S[j] ELSE S[j]]
=============================================================================
