------------------------------ MODULE Karatsuba ------------------------------
(***************************************************************************)
(* Role D for C08: the Karatsuba multipliers (add_mul_karatsuba,           *)
(* add_mul_karatsuba_with_efficient_sum) at the NUMBER level - the split   *)
(* with padding of the shorter operand, the recursion rule (recurse from   *)
(* the threshold T on, and at T - 2: the code's `n < 20 and n != 18`),     *)
(* the widths of every intermediate result (the subtraction is modulo      *)
(* 2^width of the big product, the shifted additions grow by one bit, the  *)
(* result is truncated to the output size) are transcribed with the        *)
(* threshold as a parameter, so that the recursion is reached at widths    *)
(* TLC can enumerate completely.  A number is <<value, width>>.            *)
(* Checked: for every pair of widths <= W, every pair of operand values    *)
(* and every threshold in Ts the result is the product, and no             *)
(* intermediate value ever exceeds its width.                              *)
(***************************************************************************)
EXTENDS Naturals, Integers, TLC
CONSTANTS W, Ts

Max(a, b) == IF a >= b THEN a ELSE b
Fits(x) == x[1] < 2 ^ x[2]
Base(x, y) == <<x[1] * y[1], IF x[2] = 1 \/ y[2] = 1 THEN x[2] + y[2] - 1 ELSE x[2] + y[2]>>   \* add_mul_pow2_m1 / last_step_sum...
Add(x, y) == <<x[1] + y[1], Max(x[2], y[2]) + 1>>                                            \* add_sum_two_numbers
Sub(x, y) == <<(x[1] + 2 ^ x[2] * (y[1] \div 2 ^ x[2] + 1) - y[1]) % 2 ^ x[2], x[2]>>       \* add_sub_two_numbers: len(a) bits
AddShift(s, x, y) ==                                                                         \* add_sum_two_numbers_with_shift
  IF s >= x[2] THEN <<x[1] + y[1] * 2 ^ s, y[2] + s>>
  ELSE <<x[1] + y[1] * 2 ^ s, Max(x[2], y[2] + s) + 1>>
Trunc(x, w) == <<x[1] % 2 ^ w, IF x[2] < w THEN x[2] ELSE w>>
Recurses(n, T) == n >= T \/ (T >= 6 /\ n = T - 2)     \* the second disjunct needs n >= 4 to terminate (18 in the code)

RECURSIVE K(_, _, _)
K(x0, y0, T) ==
  LET out == x0[2] + y0[2] - (IF x0[2] = 1 \/ y0[2] = 1 THEN 1 ELSE 0)
      x == IF x0[2] < y0[2] THEN y0 ELSE x0
      ys == IF x0[2] < y0[2] THEN x0 ELSE y0
      n == x[2]
      y == <<ys[1], n>>                      \* padded with zero bits
  IN IF ~Recurses(n, T) THEN Trunc(Base(x, y), out)
     ELSE LET mid == n \div 2
              a == <<x[1] \div 2 ^ mid, n - mid>>   b == <<x[1] % 2 ^ mid, mid>>
              c == <<y[1] \div 2 ^ mid, n - mid>>   d == <<y[1] % 2 ^ mid, mid>>
              ac == IF Recurses(n - mid, T) THEN K(a, c, T) ELSE Base(a, c)
              bd == IF mid = 0 THEN <<0, 0>> ELSE IF Recurses(mid, T) THEN K(b, d, T) ELSE Base(b, d)
              asb == Add(a, b)   csd == Add(c, d)
              big == IF Recurses(asb[2], T) THEN K(asb, csd, T) ELSE Base(asb, csd)
              acbd == Add(ac, bd)
              resmid == Sub(big, acbd)
              res == AddShift(mid, bd, resmid)
              fin == AddShift(2 * mid, res, ac)
          IN Trunc(fin, out)

VARIABLES wa, wb, T
Init == wa \in 1 .. W /\ wb \in 1 .. W /\ T \in Ts
Next == UNCHANGED <<wa, wb, T>>
Spec == Init /\ [][Next]_<<wa, wb, T>>
(* the recursion with mid = 0 cannot occur: it needs n >= 2 *)
ProductExact ==
  \A va \in 0 .. (2 ^ wa - 1) : \A vb \in 0 .. (2 ^ wb - 1) :
     LET r == K(<<va, wa>>, <<vb, wb>>, T) IN r[1] = va * vb /\ Fits(r)
=============================================================================
