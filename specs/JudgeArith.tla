------------------------------ MODULE JudgeArith ------------------------------
(***************************************************************************)
(* C07 / C08 / C09: arithmetic generators.  kind "arith":                  *)
(*   c.pre / c.post  host circuit before / after the generator call        *)
(*   c.sampled, c.nrows, c.cols   row space: all 2^n rows, or nrows sampled *)
(*                   assignments (rows 1..nrows, per-input row sets)       *)
(*   c.order         optional witness topological order of c.post          *)
(*   c.checks        identities over LITTLE-ENDIAN label sequences         *)
(*   c.returned, c.outmode ("same"/"append"/"set"), c.outlabels            *)
(*   c.basis ("AIG" / "XAIG" / ""), c.bound (-1 = none)                    *)
(***************************************************************************)
EXTENDS JudgeCore, Arith

(* evaluation along a witness order that is checked on the way *)
EvalChecked(c, order, cols, all) ==
  FoldLeft(LAMBDA acc, l :
     IF ~acc.ok \/ l \notin DOMAIN c.g THEN [acc EXCEPT !.ok = FALSE]
     ELSE IF l \in DOMAIN acc.v THEN acc
     ELSE IF ~(OpSet(c, l) \subseteq DOMAIN acc.v) THEN [acc EXCEPT !.ok = FALSE]
     ELSE [acc EXCEPT !.v = (l :> GateSet(c.g[l].t, [j \in DOMAIN Ops(c, l) |-> acc.v[Ops(c, l)[j]]], all)) @@ acc.v],
   [ok |-> TRUE, v |-> cols], order)

ARows(c) == IF c.sampled THEN 1 .. c.nrows ELSE AllRows(Len(c.post.i))
AColsOf(c, circ) == IF c.sampled THEN [l \in SeqSet(circ.i) |-> SeqSet(c.cols[l])] ELSE InputCols(circ)
AOrder(c, circ) == IF Has(c, "order") /\ circ = c.post THEN c.order ELSE TopoSeq(circ)

Bits(tt, labs, r) == [j \in DOMAIN labs |-> r \in tt[labs[j]]]
NVal(tt, labs, r) == BVal(Bits(tt, labs, r))          \* native, Len(labs) <= 30

CheckOK(tt, rows, k) ==
  CASE k.op = "wsum" ->
         /\ NoDup([j \in DOMAIN k.outs |-> k.outs[j][1]])
         /\ \A r \in rows :
              FoldLeft(LAMBDA acc, j : acc + (IF r \in tt[k.outs[j][2]] THEN TwoTo(k.outs[j][1]) ELSE 0), 0, [j \in DOMAIN k.outs |-> j])
              = FoldLeft(LAMBDA acc, j : acc + (IF r \in tt[k.ins[j][2]] THEN TwoTo(k.ins[j][1]) ELSE 0), 0, [j \in DOMAIN k.ins |-> j])
    [] k.op = "wsum_multi" ->
         \A r \in rows :
              FoldLeft(LAMBDA acc, j : acc + (IF r \in tt[k.outs[j][2]] THEN TwoTo(k.outs[j][1]) ELSE 0), 0, [j \in DOMAIN k.outs |-> j])
              = FoldLeft(LAMBDA acc, j : acc + (IF r \in tt[k.ins[j][2]] THEN TwoTo(k.ins[j][1]) ELSE 0), 0, [j \in DOMAIN k.ins |-> j])
    [] k.op = "add" ->
         \A r \in rows : BSame(Bits(tt, k.out, r), BAdd(Bits(tt, k.a, r), BShift(Bits(tt, k.b, r), k.shift)))
    [] k.op = "mul" ->
         /\ Len(k.out) = k.outlen
         /\ \A r \in rows : BSame(Bits(tt, k.out, r), BMul(Bits(tt, k.a, r), Bits(tt, k.b, r)))
    [] k.op = "sub" ->
         /\ Len(k.out) = Len(k.a)
         /\ \A r \in rows :
              LET a == NVal(tt, k.a, r)  b == NVal(tt, k.b, r)  m == TwoTo(Len(k.a))
              IN /\ NVal(tt, k.out, r) = (a + m * (b \div m + 1) - b) % m
                 /\ k.borrow # "" => ((r \in tt[k.borrow]) <=> (a < b))
    [] k.op = "divmod" ->
         \A r \in rows :
              LET a == NVal(tt, k.a, r)  b == NVal(tt, k.b, r)
              IN IF b = 0 THEN NVal(tt, k.q, r) = 0 /\ NVal(tt, k.r, r) = 0
                 ELSE NVal(tt, k.q, r) = a \div b /\ NVal(tt, k.r, r) = a % b
    [] k.op = "sqrt" ->
         /\ Len(k.out) = CeilHalf(Len(k.a))
         /\ \A r \in rows : NVal(tt, k.out, r) = ISqrt(NVal(tt, k.a, r))
    [] k.op = "eq" ->        \* k.fits: the constant fits into Len(k.a) bits; k.cbits its LE bits
         \A r \in rows : (r \in tt[k.out]) <=> (k.fits /\ Bits(tt, k.a, r) = k.cbits)
    [] k.op = "inc" ->
         \A r \in rows : NVal(tt, k.out, r) = (NVal(tt, k.a, r) + 1) % TwoTo(Len(k.out))
    [] k.op = "ite" ->
         \A r \in rows : (r \in tt[k.out]) <=> (IF r \in tt[k.i] THEN r \in tt[k.t] ELSE r \in tt[k.e])
    [] k.op = "pxor" ->
         /\ Len(k.out) = Len(k.x)
         /\ \A j \in DOMAIN k.out : tt[k.out[j]] = SymDiff(tt[k.x[j]], tt[k.y[j]])
    [] k.op = "pite" ->
         /\ Len(k.out) = Len(k.i)
         /\ \A j \in DOMAIN k.out : \A r \in rows :
              (r \in tt[k.out[j]]) <=> (IF r \in tt[k.i[j]] THEN r \in tt[k.t[j]] ELSE r \in tt[k.e[j]])

ArithFails(c) ==
  IF c.exc # "" THEN {"generator-raised:" \o c.exc}
  ELSE
  LET pre == c.pre  post == c.post
      rows == ARows(c)
      new == DOMAIN post.g \ DOMAIN pre.g
      existOK == SeqSet(c.returned) \subseteq DOMAIN post.g
      wf == WF1(post) /\ WF3(post) /\ WF4(post)
      ev == IF wf /\ existOK THEN EvalChecked(post, AOrder(c, post), AColsOf(c, post), rows)
            ELSE [ok |-> FALSE, v |-> <<>>]
      good == ev.ok /\ DOMAIN ev.v = DOMAIN post.g
      evpre == IF good /\ pre.i = post.i /\ DOMAIN pre.g \subseteq DOMAIN post.g
               THEN EvalChecked(pre, TopoSeq(pre), AColsOf(c, pre), rows) ELSE [ok |-> FALSE, v |-> <<>>]
  IN FailSet(<<
       <<"returned-label-is-not-a-gate", existOK>>,
       <<"host-circuit-ill-formed-after-call", wf /\ (~existOK \/ good)>>,
       <<"identity:" \o c.name, ~good \/ \A j \in DOMAIN c.checks : CheckOK(ev.v, rows, c.checks[j])>>,
       <<"host-inputs-changed", post.i = pre.i>>,
       <<"pre-existing-gate-removed", DOMAIN pre.g \subseteq DOMAIN post.g>>,
       <<"pre-existing-gate-function-changed",
           ~good \/ ~evpre.ok \/ \A l \in DOMAIN pre.g : ev.v[l] = evpre.v[l]>>,
       <<"outputs-marked-differently-than-asked",
           CASE c.outmode = "same" -> post.o = pre.o
             [] c.outmode = "append" -> post.o = pre.o \o c.outlabels
             [] c.outmode = "set" -> post.o = c.outlabels
             [] OTHER -> TRUE>>,
       <<"gate-outside-requested-basis",
           c.basis # "AIG" \/ \A l \in new : post.g[l].t \notin {"XOR", "NXOR"}>>,
       <<"documented-gate-count-bound-exceeded",
           c.bound < 0 \/ Cardinality({l \in new : post.g[l].t \notin
               {"INPUT", "NOT", "LNOT", "RNOT", "IFF", "LIFF", "RIFF", "ALWAYS_TRUE", "ALWAYS_FALSE"}}) <= c.bound>>
     >>)
=============================================================================
