------------------------------ MODULE JudgeArith ------------------------------
(***************************************************************************)
(* C07 / C08 / C09: arithmetic generators.  kind "arith":                  *)
(*   c.pre / c.post  host circuit before / after the generator call        *)
(*   c.sampled, c.nrows, c.cols   row space: all 2^n rows, or nrows sampled *)
(*                   assignments (rows 1..nrows, per-input row sets)       *)
(*   c.order         optional witness topological order of c.post          *)
(*   c.checks        identities over LITTLE-ENDIAN label sequences         *)
(*   c.returned, c.outmode ("same"/"append"/"set"), c.outlabels            *)
(*   c.basis ("AIG" / "XAIG" / ""), c.bound (-1 = none)                    *)
(***************************************************************************)
EXTENDS JudgeCore, Arith

ARows(c) == IF c.sampled THEN 1 .. c.nrows ELSE AllRows(Len(c.post.i))
(* columns are attached to input LABELS of the circuit after the call, so that a host whose
   input order was changed by the generator is still compared gate by gate *)
AColsOf(c, circ) == IF c.sampled THEN [l \in SeqSet(circ.i) |-> SeqSet(c.cols[l])]
                    ELSE LET pc == InputCols(c.post) IN [l \in SeqSet(circ.i) |-> pc[l]]
AOrder(c, circ) == IF Has(c, "order") /\ circ = c.post THEN c.order ELSE TopoSeq(circ)

Bits(tt, labs, r) == [j \in DOMAIN labs |-> r \in tt[labs[j]]]
NVal(tt, labs, r) == BVal(Bits(tt, labs, r))          \* native, Len(labs) <= 30

CheckOK(tt, rows, k) ==
  CASE k.op = "wsum" ->
         /\ NoDup([j \in DOMAIN k.outs |-> k.outs[j][1]])
         /\ \A r \in rows :
              FoldLeft(LAMBDA acc, j : acc + (IF r \in tt[k.outs[j][2]] THEN TwoTo(k.outs[j][1]) ELSE 0), 0, [j \in DOMAIN k.outs |-> j])
              = FoldLeft(LAMBDA acc, j : acc + (IF r \in tt[k.ins[j][2]] THEN TwoTo(k.ins[j][1]) ELSE 0), 0, [j \in DOMAIN k.ins |-> j])
    [] k.op = "wsum_multi" ->
         \A r \in rows :
              FoldLeft(LAMBDA acc, j : acc + (IF r \in tt[k.outs[j][2]] THEN TwoTo(k.outs[j][1]) ELSE 0), 0, [j \in DOMAIN k.outs |-> j])
              = FoldLeft(LAMBDA acc, j : acc + (IF r \in tt[k.ins[j][2]] THEN TwoTo(k.ins[j][1]) ELSE 0), 0, [j \in DOMAIN k.ins |-> j])
    [] k.op = "add" ->
         \A r \in rows : BSame(Bits(tt, k.out, r), BAdd(Bits(tt, k.a, r), BShift(Bits(tt, k.b, r), k.shift)))
    [] k.op = "mul" ->
         /\ (k.outlen < 0 \/ Len(k.out) = k.outlen)      \* -1: the statement fixes no width for this entry point
         /\ \A r \in rows : BSame(Bits(tt, k.out, r), BMul(Bits(tt, k.a, r), Bits(tt, k.b, r)))
    \* operands wider than 30 bits: the same two identities on bit sequences ( out + b = a  modulo 2^n,  borrow <=> a < b )
    [] k.op = "sub" /\ (Len(k.a) > 30 \/ Len(k.b) > 30) ->
         /\ Len(k.out) = Len(k.a)
         /\ \A r \in rows :
              LET n == Len(k.a)
                  trunc(x) == [j \in 1 .. n |-> BBit(x, j)]
              IN /\ trunc(BAdd(Bits(tt, k.out, r), trunc(Bits(tt, k.b, r)))) = trunc(Bits(tt, k.a, r))
                 /\ k.borrow # "" => ((r \in tt[k.borrow]) <=> BLess(Bits(tt, k.a, r), Bits(tt, k.b, r)))
    [] k.op = "subc" /\ (Len(k.a) > 30 \/ Len(k.b) > 30) ->
         /\ Len(k.out) >= Len(k.a)
         /\ \A r \in rows :
              LET n == Len(k.out)
                  trunc(x) == [j \in 1 .. n |-> BBit(x, j)]
              IN /\ trunc(BAdd(Bits(tt, k.out, r), trunc(Bits(tt, k.b, r)))) = trunc(Bits(tt, k.a, r))
                 /\ (r \in tt[k.borrow]) <=> BLess(Bits(tt, k.a, r), Bits(tt, k.b, r))
    [] k.op = "sub" ->
         /\ Len(k.out) = Len(k.a)
         /\ \A r \in rows :
              LET a == NVal(tt, k.a, r)  b == NVal(tt, k.b, r)  m == TwoTo(Len(k.a))
              IN /\ NVal(tt, k.out, r) = (a + m * (b \div m + 1) - b) % m
                 /\ k.borrow # "" => ((r \in tt[k.borrow]) <=> (a < b))
    [] k.op = "subc" ->
         /\ Len(k.out) >= Len(k.a)
         /\ \A r \in rows :
              LET a == NVal(tt, k.a, r)  b == NVal(tt, k.b, r)  m == TwoTo(Len(k.out))
              IN /\ NVal(tt, k.out, r) = (a + m * (b \div m + 1) - b) % m
                 /\ (r \in tt[k.borrow]) <=> (a < b)
    [] k.op = "divmod" ->
         \A r \in rows :
              LET a == NVal(tt, k.a, r)  b == NVal(tt, k.b, r)
              IN IF b = 0 THEN NVal(tt, k.q, r) = 0 /\ NVal(tt, k.r, r) = 0
                 ELSE NVal(tt, k.q, r) = a \div b /\ NVal(tt, k.r, r) = a % b
    [] k.op = "sqrt" ->
         /\ Len(k.out) = CeilHalf(Len(k.a))
         /\ \A r \in rows : NVal(tt, k.out, r) = ISqrt(NVal(tt, k.a, r))
    [] k.op = "eq" ->        \* k.fits: the constant fits into Len(k.a) bits; k.cbits its LE bits
         \A r \in rows : (r \in tt[k.out]) <=> (k.fits /\ Bits(tt, k.a, r) = k.cbits)
    [] k.op = "inc" ->
         \A r \in rows : NVal(tt, k.out, r) = (NVal(tt, k.a, r) + 1) % TwoTo(Len(k.out))
    [] k.op = "ite" ->
         \A r \in rows : (r \in tt[k.out]) <=> (IF r \in tt[k.i] THEN r \in tt[k.t] ELSE r \in tt[k.e])
    [] k.op = "pxor" ->
         /\ Len(k.out) = Len(k.x)
         /\ \A j \in DOMAIN k.out : tt[k.out[j]] = SymDiff(tt[k.x[j]], tt[k.y[j]])
    [] k.op = "pite" ->
         /\ Len(k.out) = Len(k.i)
         /\ \A j \in DOMAIN k.out : \A r \in rows :
              (r \in tt[k.out[j]]) <=> (IF r \in tt[k.i[j]] THEN r \in tt[k.t[j]] ELSE r \in tt[k.e[j]])

ArithFails(c) ==
  IF c.exc # "" THEN {"generator-raised:" \o c.exc}
  ELSE
  LET pre == c.pre  post == c.post
      G == AsFcn(post.g)
      GP == AsFcn(pre.g)
      rows == ARows(c)
      new == DOMAIN G \ DOMAIN GP
      existOK == SeqSet(c.returned) \subseteq DOMAIN G
      small == Cardinality(DOMAIN G) <= 400
      \* operands exist, input list exact; the quadratic users-index check only for moderate sizes
      wf == /\ \A l \in DOMAIN G : \A j \in DOMAIN G[l].o : G[l].o[j] \in DOMAIN G
            /\ NoDup(post.i) /\ SeqSet(post.i) = {l \in DOMAIN G : G[l].t = "INPUT"}
            /\ (~small \/ WF3(post))
      ev == IF wf /\ existOK THEN EvalChecked(G, AOrder(c, post), AColsOf(c, post), rows)
            ELSE [ok |-> FALSE, v |-> <<>>]
      good == ev.ok /\ DOMAIN ev.v = DOMAIN G
      evpre == IF good /\ SeqSet(pre.i) = SeqSet(post.i) /\ DOMAIN GP \subseteq DOMAIN G
               THEN EvalChecked(GP, TopoSeq(pre), AColsOf(c, pre), rows) ELSE [ok |-> FALSE, v |-> <<>>]
  IN FailSet(<<
       <<"returned-label-is-not-a-gate", existOK>>,
       <<"host-circuit-ill-formed-after-call", wf /\ (~existOK \/ good)>>,
       <<"identity:" \o c.name, ~good \/ \A j \in DOMAIN c.checks : CheckOK(ev.v, rows, c.checks[j])>>,
       <<"host-input-set-changed", SeqSet(post.i) = SeqSet(pre.i) /\ Len(post.i) = Len(pre.i)>>,
       \* the summation and multiplication generators never reorder the inputs of their host (the plus-one gadget of C09
       \* does, on purpose): positional evaluation of what existed before must stay what it was
       <<"host-input-order-changed", c.prop \notin {"C07", "C08"} \/ c.outmode = "set" \/ post.i = pre.i>>,
       <<"pre-existing-gate-removed", DOMAIN GP \subseteq DOMAIN G>>,
       <<"pre-existing-gate-function-changed",
           ~good \/ ~evpre.ok \/ \A l \in DOMAIN GP : ev.v[l] = evpre.v[l]>>,
       <<"outputs-marked-differently-than-asked",
           CASE c.outmode = "same" -> post.o = pre.o
             [] c.outmode = "append" ->     \* the returned bits were added to the outputs, nothing else
                  /\ Len(post.o) = Len(pre.o) + Len(c.outlabels)
                  /\ SubSeq(post.o, 1, Len(pre.o)) = pre.o
                  /\ \A x \in SeqSet(post.o) \cup SeqSet(c.outlabels) :
                        Occ(post.o, x) = Occ(pre.o, x) + Occ(c.outlabels, x)
             [] c.outmode = "set" -> post.o = c.outlabels
             \* exactly the returned bits are added to the outputs (any order; the plus-one gadget
             \* documents no order), nothing else
             [] c.outmode = "appendset" ->
                  /\ Len(post.o) = Len(pre.o) + Len(c.outlabels)
                  /\ \A x \in SeqSet(post.o) \cup SeqSet(pre.o) \cup SeqSet(c.outlabels) :
                        Occ(post.o, x) = Occ(pre.o, x) + Occ(c.outlabels, x)
             [] OTHER -> TRUE>>,
       <<"gate-outside-requested-basis",
           c.basis # "AIG" \/ \A l \in new : G[l].t \notin {"XOR", "NXOR"}>>,
       <<"documented-gate-count-bound-exceeded",
           c.bound < 0 \/ Cardinality({l \in new : G[l].t \notin
               {"INPUT", "NOT", "LNOT", "RNOT", "IFF", "LIFF", "RIFF", "ALWAYS_TRUE", "ALWAYS_FALSE"}}) <= c.bound>>
     >>)

(***************************************************************************)
(* Drift (never a verdict): the netlist the generator emitted is compared,  *)
(* gate by gate in emission order, with the netlist the algorithm model of  *)
(* ArithAlgo.tla builds for the same operands.  Only cases the driver marks *)
(* with c.algo (one call, one check) are compared.                          *)
(***************************************************************************)
AA == INSTANCE ArithAlgo
AlgoModel(k) ==      \* [g, out, pool]: model gates, result references (little-endian), operand pool labels
  LET Refs(lo, n) == [j \in 1 .. n |-> lo + j] IN
  CASE k.op = "sub" -> LET r == AA!SubTwo(AA!Fresh(Len(k.a) + Len(k.b)), Refs(0, Len(k.a)), Refs(Len(k.a), Len(k.b)))
                       IN [g |-> r.b.g, out |-> r.out, pool |-> k.a \o k.b]
    [] k.op = "subc" -> LET r == AA!SubCmp(AA!Fresh(Len(k.a) + Len(k.b)), Refs(0, Len(k.a)), Refs(Len(k.a), Len(k.b)))
                        IN [g |-> r.b.g, out |-> Append(r.out, r.bal), pool |-> k.a \o k.b]
    [] k.op = "divmod" -> LET r == AA!DivMod(AA!Fresh(Len(k.a) + Len(k.b)), Refs(0, Len(k.a)), Refs(Len(k.a), Len(k.b)))
                          IN [g |-> r.b.g, out |-> r.q \o r.r, pool |-> k.a \o k.b]
    [] k.op = "sqrt" -> LET r == AA!Sqrt(AA!Fresh(Len(k.a)), Refs(0, Len(k.a))) IN [g |-> r.b.g, out |-> r.out, pool |-> k.a]
    [] k.op = "inc" -> LET r == AA!PlusOne(AA!Fresh(Len(k.a)), Refs(0, Len(k.a)), Len(k.out)) IN [g |-> r.b.g, out |-> r.out, pool |-> k.a]
    [] k.op = "eq" -> LET r == AA!Equal(AA!Fresh(Len(k.a)), Refs(0, Len(k.a)), k.fits, k.cbits) IN [g |-> r.b.g, out |-> r.out, pool |-> k.a]
    [] k.op = "add" -> LET r == AA!SumTwoShift(AA!Fresh(Len(k.a) + Len(k.b)), k.shift, Refs(0, Len(k.a)), Refs(Len(k.a), Len(k.b)))
                       IN [g |-> r.b.g, out |-> r.out, pool |-> k.a \o k.b]
    [] k.op = "add0" -> LET r == AA!SumTwo(AA!Fresh(Len(k.a) + Len(k.b)), Refs(0, Len(k.a)), Refs(Len(k.a), Len(k.b)))
                        IN [g |-> r.b.g, out |-> r.out, pool |-> k.a \o k.b]
    [] k.op = "popcount" -> LET r == AA!SumNBits(AA!Fresh(Len(k.a)), Refs(0, Len(k.a)), k.basis) IN [g |-> r.b.g, out |-> r.out, pool |-> k.a]
ResultLabels(k) ==
  CASE k.op = "subc" -> Append(k.out, k.borrow)
    [] k.op = "divmod" -> k.q \o k.r
    [] k.op = "eq" -> <<k.out>>
    [] OTHER -> k.out
(* the recorded call trace of a multiplier must be accepted by the weight ledger (Ledger.tla) *)
LG == INSTANCE Ledger
LedgerDrift(c) ==
  IF c.exc # "" \/ ~Has(c, "ledger") THEN {}
  ELSE LET r == LG!LedgerRun(c.ledger) IN
       IF r.ok THEN {} ELSE {"multiplier-call-trace-rejected-by-the-weight-ledger:" \o r.why}
ArithModelDrift(c) ==
  IF c.exc # "" \/ ~Has(c, "algo") \/ Len(c.checks) # 1 THEN {}
  ELSE LET k == c.algo
           m == AlgoModel(k)
           new == SelectSeq(c.post.ord, LAMBDA l : l \notin DOMAIN c.pre.g)
           K == Len(m.pool)
           Lab(r) == IF r <= K THEN m.pool[r] ELSE new[r - K]
       IN IF Len(new) # Len(m.g) THEN {"emitted-gate-count-differs-from-the-algorithm-model"}
          ELSE IF \E j \in DOMAIN new : LET gt == c.post.g[new[j]] IN
                     gt.t # m.g[j].t \/ Len(gt.o) # Len(m.g[j].o) \/ \E q \in DOMAIN gt.o : gt.o[q] # Lab(m.g[j].o[q])
               THEN {"emitted-netlist-differs-from-the-algorithm-model"}
          ELSE IF ResultLabels(k) # [j \in DOMAIN m.out |-> Lab(m.out[j])] THEN {"returned-labels-differ-from-the-algorithm-model"}
          ELSE {}
ArithDrift(c) == ArithModelDrift(c) \cup LedgerDrift(c)
=============================================================================
