SPECIFICATION Spec
VIEW View
CHECK_DEADLOCK FALSE
CONSTANTS
 Pool <- Pool5
 Types <- T6
 AMAX = 2
 MaxGates = 3
 MaxOuts = 2
 Depth = 4
 BlockNames <- Blocks2
 UseLib = TRUE
 DevNoUsers = FALSE
 DevNoBlockMember = FALSE
 EmitAll = FALSE
INVARIANT InvWF1
INVARIANT InvWF2
INVARIANT InvWF3
INVARIANT InvWF4
INVARIANT InvWF5
INVARIANT InvWF6
INVARIANT InvUsersTotal
