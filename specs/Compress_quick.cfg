SPECIFICATION Spec
CONSTANTS
 NA = 2
 NB = 3
 MaxW = 6
INVARIANT SumPreserved
INVARIANT TopIsZero
INVARIANT TerminalIsTheProduct
CHECK_DEADLOCK FALSE
