-------------------------------- MODULE Synth --------------------------------
(***************************************************************************)
(* The search space of exact synthesis as a state machine (C06).           *)
(* A configuration (one per initial state, read from IOEnv.CLAIMS) fixes   *)
(*   n  inputs, r  gates, basis (sequence of binary gate type names),       *)
(*   norm (every gate must satisfy g(0,0) = 0),                            *)
(*   fix  : Seq of [g, p1, p2, t]     (-1 / "" = not given; gate numbers   *)
(*          are node numbers: inputs 0..n-1, gates n..n+r-1),              *)
(*   forbid : Seq of [from, to],                                           *)
(*   claims : Seq of model tables (Seq over outputs of Seq over rows of     *)
(*            0/1/2) for which the implementation answered NoSolutionError.*)
(* A state is the sequence of truth tables (row sets) of the gates chosen  *)
(* so far; a step appends one two-input gate over earlier nodes that the   *)
(* constraints allow.  Every straight-line program of the requested size   *)
(* and basis is reachable, so a claim is justified iff no complete state   *)
(* matches its model; a refuted claim is printed.                          *)
(***************************************************************************)
EXTENDS GateSemantics, Json, IOUtils, TLC

Configs == TLCGet(8)
ConfigsFromFile == JsonDeserialize(IOEnv.CLAIMS)

VARIABLES cfg, tts
vars == <<cfg, tts>>

P2(k) == 2 ^ k
Rows(n) == 0 .. (P2(n) - 1)
InCol(n, j) == {r \in Rows(n) : (r \div P2(n - 1 - j)) % 2 = 1}      \* input j, 0-based
NodeTT(n, t, x) == IF x < n THEN InCol(n, x) ELSE t[x - n + 1]
CodeBit(code, a, b) == SubSeq(code, 2 * a + b + 1, 2 * a + b + 1) = "1"
ApplyCode(n, code, A, B) ==
  {r \in Rows(n) : CodeBit(code, IF r \in A THEN 1 ELSE 0, IF r \in B THEN 1 ELSE 0)}

Allowed(c, g, a, b, t) ==          \* node numbers g > b > a; t a gate type of the basis
  /\ c.norm => SubSeq(TTCode(t), 1, 1) = "0"
  /\ \A j \in DOMAIN c.fix : c.fix[j].g = g =>
        LET f == c.fix[j] IN
        /\ (f.p1 >= 0 /\ f.p2 >= 0) => (a = f.p1 /\ b = f.p2)
        /\ (f.p1 >= 0 /\ f.p2 < 0) => (a = f.p1 \/ b = f.p1)
        /\ (f.p1 < 0 /\ f.p2 >= 0) => (a = f.p2 \/ b = f.p2)
        /\ f.t # "" => TTCode(t) = TTCode(f.t)
  /\ \A j \in DOMAIN c.forbid : c.forbid[j].to = g => (a # c.forbid[j].from /\ b # c.forbid[j].from)

Init == /\ TLCSet(8, ConfigsFromFile)
        /\ cfg \in 1 .. Len(Configs)
        /\ tts = <<>>
Next == LET c == Configs[cfg]
            g == c.n + Len(tts)
        IN /\ Len(tts) < c.r
           /\ \E a \in 0 .. (g - 2) : \E b \in (a + 1) .. (g - 1) :
                \E j \in DOMAIN c.basis :
                   /\ Allowed(c, g, a, b, c.basis[j])
                   /\ tts' = Append(tts, ApplyCode(c.n, TTCode(c.basis[j]), NodeTT(c.n, tts, a), NodeTT(c.n, tts, b)))
           /\ cfg' = cfg
Spec == Init /\ [][Next]_vars

Agrees(n, t, mrow) == \A r \in Rows(n) : mrow[r + 1] = 2 \/ ((mrow[r + 1] = 1) <=> (r \in t))
Matches(c, t, model) == \A o \in DOMAIN model : \E g \in DOMAIN t : Agrees(c.n, t[g], model[o])

(* evaluated on every distinct state; prints every claim a complete program refutes *)
ReportRefuted ==
  LET c == Configs[cfg] IN
  (Len(tts) = c.r) =>
     \A k \in DOMAIN c.claims :
        IF Matches(c, tts, c.claims[k]) THEN PrintT(<<"REFUTED", c.id, k>>) ELSE TRUE
=============================================================================
