SPECIFICATION Spec
CONSTANT N = 4
CONSTANT AMAX = 2
INVARIANT StackIsAPath
INVARIANT StackBounded
INVARIANT EmittedOnceAfterOperands
INVARIANT LiteralsAreEmissionOrder
INVARIANT CyclicExactly
INVARIANT NumberingIsThePostOrderModel
INVARIANT EverythingReachedIsEncoded
PROPERTY Terminates
CHECK_DEADLOCK FALSE
