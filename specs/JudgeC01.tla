------------------------------ MODULE JudgeC01 ------------------------------
(***************************************************************************)
(* C01: every evaluation entry point returns the denotational value.       *)
(* kind "eval": c.c circuit; c.obs the recorded answers over ALL 2^n rows   *)
(*   evaluate, evaluate_at, tt : Seq (per output) of row lists             *)
(*   outs, full, gtt, circ     : [t, u, x] tables  label -> rows           *)
(*        (t = rows answered True, u = rows answered Undefined,            *)
(*         x = rows with a missing key or a non-GateState value)           *)
(*   single : Seq of [out, t, u, x] for evaluate_circuit(outputs=[out])    *)
(* kind "optable": c.t type, c.n arity, c.rows rows on which the module's  *)
(*   rendering of the type is True, c.who the module that was asked.       *)
(***************************************************************************)
EXTENDS JudgeCore

C01TableExact(tab, tt, labels) ==
  \A l \in labels : RS(tab.t, l) = tt[l] /\ RS(tab.u, l) = {} /\ RS(tab.x, l) = {}
(* gates in `must` exact; the others either exact or Undefined, row by row *)
C01TablePartial(tab, tt, labels, must) ==
  /\ C01TableExact(tab, tt, must)
  /\ \A l \in labels \ must :
        RS(tab.x, l) = {} /\ RS(tab.t, l) = tt[l] \ RS(tab.u, l)

C01EvalFails(c) ==
  LET ck == c.c
      tt == GateTT(ck)
      outTT == OutTT(ck, tt)
      labels == Labels(ck)
      o == c.obs
      bad == SeqSet(o.bad)      \* entry points that raised or returned a non-Boolean
  IN FailSet(<<
       <<"no-exception-or-non-boolean", bad = {}>>,
       <<"evaluate", RowSets(o.evaluate) = outTT>>,
       <<"evaluate_at", RowSets(o.evaluate_at) = outTT>>,
       <<"get_truth_table", RowSets(o.tt) = outTT>>,
       <<"evaluate_circuit_outputs", C01TableExact(o.outs, tt, SeqSet(ck.o))>>,
       <<"evaluate_full_circuit", C01TableExact(o.full, tt, labels)>>,
       <<"get_gates_truth_table", C01TableExact(o.gtt, tt, labels)>>,
       <<"evaluate_circuit", C01TablePartial(o.circ, tt, labels, Reach(ck, SeqSet(ck.o)))>>,
       <<"bench-conversion-denotes-the-same-function", ~Has(o, "bench") \/ RowSets(o.bench) = outTT>>,
       <<"bench-conversion-keeps-every-gate-value", ~Has(o, "bench_full") \/ C01TableExact(o.bench_full, tt, labels)>>,
       <<"evaluate_circuit_outputs(reused-dict)", ~Has(o, "outs_r") \/ C01TableExact(o.outs_r, tt, SeqSet(ck.o))>>,
       <<"evaluate_full_circuit(reused-dict)", ~Has(o, "full_r") \/ C01TableExact(o.full_r, tt, labels)>>,
       <<"evaluate_circuit(reused-dict)", ~Has(o, "circ_r") \/
             C01TablePartial(o.circ_r, tt, labels, Reach(ck, SeqSet(ck.o)))>>,
       <<"evaluate_circuit_single",
           \A j \in DOMAIN o.single :
              C01TablePartial(o.single[j], tt, labels, Reach(ck, {o.single[j].out}))>>
     >>)

(* kind "evaldeep": a circuit with one path of more than a thousand gates.  c.order is a witness order (operands first,
   checked on the way), c.sample the gates whose recorded values are compared (the outputs, every 97th gate, the last
   ones); reachability is computed along the order, everything is linear in the number of gates. *)
C01DeepFails(c) ==
  LET ck == c.c
      G == AsFcn(ck.g)
      ev == EvalChecked(G, c.order, InputCols(ck), AllRows(Len(ck.i)))
      tt == ev.v
      labels == SeqSet(c.sample)
      outTT == [k \in DOMAIN ck.o |-> tt[ck.o[k]]]
      o == c.obs
      bad == SeqSet(o.bad)
  IN IF ~(ev.ok /\ SeqSet(ck.o) \cup labels \subseteq DOMAIN tt) THEN {}       \* witness order unusable: not decided (DRIFT)
     ELSE FailSet(<<
       <<"no-exception-or-non-boolean", bad = {}>>,
       <<"evaluate", RowSets(o.evaluate) = outTT>>,
       <<"evaluate_at", RowSets(o.evaluate_at) = outTT>>,
       <<"get_truth_table", RowSets(o.tt) = outTT>>,
       <<"evaluate_circuit_outputs", C01TableExact(o.outs, tt, SeqSet(ck.o))>>,
       <<"evaluate_full_circuit", C01TableExact(o.full, tt, labels)>>,
       <<"get_gates_truth_table", C01TableExact(o.gtt, tt, labels)>>,
       <<"evaluate_circuit", C01TablePartial(o.circ, tt, labels, labels \cap ReachAlong(G, c.order, SeqSet(ck.o)))>>,
       <<"bench-conversion-denotes-the-same-function", ~Has(o, "bench") \/ RowSets(o.bench) = outTT>>,
       <<"bench-conversion-keeps-every-gate-value", ~Has(o, "bench_full") \/ C01TableExact(o.bench_full, tt, labels)>>,
       <<"evaluate_circuit_single",
           \A j \in DOMAIN o.single :
              C01TablePartial(o.single[j], tt, labels, labels \cap ReachAlong(G, c.order, {o.single[j].out}))>>
     >>)
C01DeepDrift(c) ==
  LET ev == EvalChecked(AsFcn(c.c.g), c.order, InputCols(c.c), AllRows(Len(c.c.i)))
  IN IF ev.ok THEN {} ELSE {"deep-case-witness-order-not-operands-first(undecided)"}

C01OpTableFails(c) ==
  FailSet(<<
    <<"optable-" \o c.who,
        /\ c.badrows = <<>>
        /\ SeqSet(c.rows) = {r \in AllRows(c.n) : GateFn(c.t, RowBits(r, c.n))}>>
  >>)

(* kind "pattern": subcircuit._PatternOperations.eval_pattern on ALL pairs of 4-bit operand patterns:
   c.tab[pa + 1][pb + 1] = result pattern; bit i of it is the gate function of bits i of pa, pb *)
PBit(x, i) == (x \div (2 ^ i)) % 2 = 1
C01PatternFails(c) ==
  FailSet(<<
    <<"pattern-simulation-of-" \o c.t,
        \A pa \in 0 .. 15 : \A pb \in 0 .. 15 :
          LET r == c.tab[pa + 1][pb + 1] IN
          /\ r \in 0 .. 15
          /\ \A i \in 0 .. 3 : PBit(r, i) = GateFn(c.t, IF c.n = 1 THEN <<PBit(pa, i)>> ELSE <<PBit(pa, i), PBit(pb, i)>>)>>
  >>)

(* kind "ttcode": the arithmetic generators' add_gate_from_tt(code) must create a gate
   that is True exactly on the rows r (= 2x+y) whose code character is 1 *)
C01TTCodeFails(c) ==
  FailSet(<<
    <<"ttcode-function", SeqSet(c.rows) = {r \in 0 .. 3 : c.code[r + 1] = 1}>>,
    <<"ttcode-type-denotes-code",
        c.t \in OpTypes /\ \A r \in 0 .. 3 : (c.code[r + 1] = 1) <=>
            (IF c.t \in NullaryTypes THEN GateFn(c.t, <<>>) ELSE GateFn(c.t, RowBits(r, 2)))>>
  >>)

(* kind "opcode": the synthesis encoder's Operation members: the 4-character code of the
   operation named like gate type c.t must be the truth-table code of that type *)
C01OpCodeFails(c) ==
  FailSet(<< <<"synthesis-operation-code:" \o c.t, c.t \in OpTypes /\ TTCode(c.t) = c.code>> >>)
=============================================================================
