SPECIFICATION Spec
CONSTANTS
 N = 2
 M = 3
INVARIANT RoundTrip
INVARIANT KeyIsNormal
CHECK_DEADLOCK FALSE
