SPECIFICATION Spec
CONSTANT N = 4
INVARIANT AbstractAccepts
INVARIANT Terminates
CHECK_DEADLOCK FALSE
