-------------------------------- MODULE Codec --------------------------------
(***************************************************************************)
(* The documented binary circuit format (circuits_encoding.py docstring),  *)
(* as an independent decoder/encoder over byte sequences (0..255).         *)
(*   header: word size ws (1 byte)                                         *)
(*   parameters: #inputs, #outputs, #intermediate gates (ws bits each)     *)
(*   body: per gate 4-bit type code + operands (ws bits each, count by     *)
(*         type: NOT/IFF 1, all other types 2), then the outputs.          *)
(* Bits are packed least-significant first inside a byte and inside a      *)
(* number.  Gate identifiers: inputs 0..ni-1, then gates in file order.    *)
(***************************************************************************)
EXTENDS CircuitSem

RECURSIVE FlattenC(_)
FlattenC(ss) == IF ss = <<>> THEN <<>> ELSE Head(ss) \o FlattenC(Tail(ss))

TypeOfCode(k) ==
  CASE k = 0 -> "NOT" [] k = 1 -> "AND" [] k = 2 -> "OR" [] k = 3 -> "NOR" [] k = 4 -> "NAND"
    [] k = 5 -> "XOR" [] k = 6 -> "NXOR" [] k = 7 -> "IFF" [] k = 8 -> "GEQ" [] k = 9 -> "GT"
    [] k = 10 -> "LEQ" [] k = 11 -> "LT" [] k = 12 -> "ALWAYS_TRUE" [] k = 13 -> "ALWAYS_FALSE"
    [] OTHER -> "?"
FormatTypes == {TypeOfCode(k) : k \in 0 .. 13}
CodeOfType(t) == CHOOSE k \in 0 .. 13 : TypeOfCode(k) = t
(* NOT/IFF carry one operand, every other type two - including the constants, which in this
   format are written with two (ignored) operands (that is how the decoder reads them and how
   the repository's own database tests build them) *)
FormatArity(t) == IF t \in {"NOT", "IFF"} THEN 1 ELSE 2
(* a circuit the format defines: only format types with the format's arities *)
InFormat(c) == \A l \in NonInputSet(c) :
                  c.g[l].t \in FormatTypes /\ Len(c.g[l].o) = FormatArity(c.g[l].t)

BitsOf(bytes) == [p \in 1 .. (8 * Len(bytes)) |->
                    (bytes[(p - 1) \div 8 + 1] \div Pow2((p - 1) % 8)) % 2]
NumAt(bits, pos, len) ==
  FoldLeft(LAMBDA acc, k : acc + bits[pos + k] * Pow2(k), 0, [k \in 1 .. len |-> k - 1])
GLabel(id) == "gate_" \o ToString(id)

(* st = [ok, pos, gs]: sequential decoding of `n` gates *)
RECURSIVE DecGates(_, _, _, _, _)
DecGates(bits, ws, ni, n, st) ==
  IF n = 0 \/ ~st.ok THEN st
  ELSE IF st.pos + 3 > Len(bits) THEN [st EXCEPT !.ok = FALSE]
  ELSE LET t == TypeOfCode(NumAt(bits, st.pos, 4))
           ar == FormatArity(t)
           p1 == st.pos + 4
       IN IF t = "?" \/ p1 + ar * ws - 1 > Len(bits) THEN [st EXCEPT !.ok = FALSE]
          ELSE LET ops == [j \in 1 .. ar |-> NumAt(bits, p1 + (j - 1) * ws, ws)]
                   ok2 == \A j \in 1 .. ar : ops[j] < ni + Len(st.gs)
               IN DecGates(bits, ws, ni, n - 1,
                    [ok |-> ok2, pos |-> p1 + ar * ws,
                     gs |-> Append(st.gs, [t |-> t, o |-> [j \in 1 .. ar |-> GLabel(ops[j])]])])

DecodeBytes(bytes) ==
  LET bits == BitsOf(bytes)
      bad == [ok |-> FALSE, c |-> [g |-> <<>>, i |-> <<>>, o |-> <<>>, u |-> <<>>, b |-> <<>>]]
  IN IF Len(bytes) < 1 THEN bad
     ELSE LET ws == NumAt(bits, 1, 8) IN
       IF 8 + 3 * ws > Len(bits) THEN bad
       ELSE LET ni == NumAt(bits, 9, ws)
                no == NumAt(bits, 9 + ws, ws)
                ng == NumAt(bits, 9 + 2 * ws, ws)
                st == DecGates(bits, ws, ni, ng, [ok |-> TRUE, pos |-> 9 + 3 * ws, gs |-> <<>>])
            IN IF ~st.ok \/ st.pos + no * ws - 1 > Len(bits) THEN bad
               ELSE LET outs == [k \in 1 .. no |-> NumAt(bits, st.pos + (k - 1) * ws, ws)]
                    IN IF \E k \in 1 .. no : outs[k] >= ni + ng THEN bad
                       ELSE [ok |-> TRUE,
                             c |-> [g |-> [l \in {GLabel(id) : id \in 0 .. (ni + ng - 1)} |->
                                             LET id == CHOOSE id \in 0 .. (ni + ng - 1) : GLabel(id) = l
                                             IN IF id < ni THEN [t |-> "INPUT", o |-> <<>>]
                                                ELSE st.gs[id - ni + 1]],
                                    i |-> [k \in 1 .. ni |-> GLabel(k - 1)],
                                    o |-> [k \in 1 .. no |-> GLabel(outs[k])],
                                    u |-> <<>>, b |-> <<>>]]

(* the encoder the format prescribes, for the design-level lemma Decode(Encode(c)) ~ c *)
NumBits(v, len) == [k \in 1 .. len |-> (v \div Pow2(k - 1)) % 2]
BitLength(v) == IF v = 0 THEN 0 ELSE CHOOSE b \in 1 .. 31 : Pow2(b - 1) <= v /\ v < Pow2(b)
EncodeBits(c) ==       \* needs InFormat(c), WF1, WF5
  LET order == c.i \o SelectSeq(TopoSeq(c), LAMBDA l : c.g[l].t # "INPUT")
      id(l) == Pos(order, l) - 1
      ni == Len(c.i)  ng == Len(order) - ni  no == Len(c.o)
      ws == Max({1, BitLength(Max({ni, no, ng, ni + ng}))})
      gate(l) == NumBits(CodeOfType(c.g[l].t), 4)
                   \o FlattenC([j \in DOMAIN c.g[l].o |-> NumBits(id(c.g[l].o[j]), ws)])
  IN NumBits(ws, 8) \o NumBits(ni, ws) \o NumBits(no, ws) \o NumBits(ng, ws)
     \o FlattenC([k \in 1 .. ng |-> gate(order[ni + k])])
     \o FlattenC([k \in 1 .. no |-> NumBits(id(c.o[k]), ws)])
BytesOfBits(bits) ==
  LET nb == (Len(bits) + 7) \div 8
  IN [j \in 1 .. nb |->
        FoldLeft(LAMBDA acc, k : acc + (IF 8 * (j - 1) + k <= Len(bits) THEN bits[8 * (j - 1) + k] ELSE 0) * Pow2(k - 1),
                 0, [k \in 1 .. 8 |-> k])]

(* bag of gate truth tables (as a function from row set to multiplicity) *)
TTBag(c) == LET tt == GateTT(c)
                vals == {tt[l] : l \in Labels(c)}
            IN [v \in vals |-> Cardinality({l \in Labels(c) : tt[l] = v})]
(* same circuit up to renaming, as far as the property states it *)
SameUpToRenaming(a, b) ==
  /\ Len(a.i) = Len(b.i) /\ Len(a.o) = Len(b.o)
  /\ Cardinality(Labels(a)) = Cardinality(Labels(b))
  /\ TT(a) = TT(b)
  /\ TTBag(a) = TTBag(b)
=============================================================================
