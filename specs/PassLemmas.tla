------------------------------ MODULE PassLemmas ------------------------------
(* Role D: every pass model satisfies the C03 and C18 predicates on every circuit of the universe. *)
EXTENDS Passes
CONSTANTS NI, NG, Types, AMAX
VARIABLES gs, outsel
Arities(t) == CASE t \in NullaryTypes -> {0} [] t \in UnaryTypes -> {1} [] t \in BinaryTypes -> {2} [] OTHER -> 2 .. AMAX
Init == gs = <<>> /\ outsel \in 1 .. 3
Next == /\ Len(gs) < NG
        /\ \E t \in Types : \E n \in Arities(t) : \E o \in [1 .. n -> 1 .. (NI + Len(gs))] :
             gs' = Append(gs, [t |-> t, o |-> o])
        /\ outsel' = outsel
Spec == Init /\ [][Next]_<<gs, outsel>>
Lab(k) == "n" \o ToString(k)
Circ ==
  LET N == NI + Len(gs)
  IN [g |-> [l \in {Lab(k) : k \in 1 .. N} |->
               LET k == CHOOSE k \in 1 .. N : Lab(k) = l
               IN IF k <= NI THEN [t |-> "INPUT", o |-> <<>>]
                  ELSE [t |-> gs[k - NI].t, o |-> [j \in DOMAIN gs[k - NI].o |-> Lab(gs[k - NI].o[j])]]],
      i |-> [k \in 1 .. NI |-> Lab(k)],
      o |-> CASE outsel = 1 -> <<Lab(N)>> [] outsel = 2 -> <<Lab(N), Lab(1), Lab(N)>> [] OTHER -> <<Lab((N + 1) \div 2)>>,
      u |-> <<>>, b |-> <<>>]
WithUsers(c) == [c EXCEPT !.u = DerivedUsers(c)]
Case(p) ==
  LET pre == WithUsers(Circ)
      post == WithUsers(PassModel(p, Circ))
  IN [prop |-> "C03", pass |-> p, pre |-> pre, arg_after |-> pre, post |-> post, same_object |-> FALSE,
      exc |-> "", removal |-> p = "RRGI", post2 |-> WithUsers(PassModel(p, PassModel(p, Circ))), shape |-> p]
ModelsPreserve == \A p \in {"RRG", "RRGI", "MUO", "MDG", "MEG"} : C03Fails(Case(p)) = {}
ModelsAchieve == \A p \in {"RRG", "RRGI", "MUO", "MDG", "MEG"} : C18Fails(Case(p)) = {}
=============================================================================
