--------------------------- MODULE GateSemantics ---------------------------
(***************************************************************************)
(* The single source of meaning for gate types.  Every consumer (circuit   *)
(* evaluation, Kleene three-valued evaluation, truth-table codes, Tseytin  *)
(* templates, bench rewrites, row-set ("pattern") simulation) is derived   *)
(* from or proved equal to GateFn here; see GateLemmas.tla for the lemmas  *)
(* that TLC checks exhaustively.                                           *)
(***************************************************************************)
EXTENDS Naturals, Sequences, FiniteSets, SequencesExt

NullaryTypes == {"ALWAYS_TRUE", "ALWAYS_FALSE"}
UnaryTypes   == {"NOT", "IFF"}
BinaryTypes  == {"GT", "LT", "GEQ", "LEQ", "LIFF", "RIFF", "LNOT", "RNOT"}
NaryTypes    == {"AND", "OR", "XOR", "NAND", "NOR", "NXOR"}
OpTypes      == NullaryTypes \cup UnaryTypes \cup BinaryTypes \cup NaryTypes
GateTypes    == {"INPUT"} \cup OpTypes

\* operand order does not matter
SymmetricTypes == NaryTypes \cup UnaryTypes \cup NullaryTypes \cup {"INPUT"}

\* the bench basis (C14)
BenchTypes == {"INPUT", "NOT", "AND", "OR", "NAND", "NOR", "XOR", "NXOR", "IFF"}

ArityOK(t, n) ==
  CASE t \in NullaryTypes -> n = 0
    [] t \in UnaryTypes   -> n = 1
    [] t \in BinaryTypes  -> n = 2
    [] t \in NaryTypes    -> n >= 2
    [] t = "INPUT"        -> n = 0
    [] OTHER              -> FALSE

CountTrue(a) == Cardinality({i \in DOMAIN a : a[i]})

(* The one fixed Boolean function of every gate type; a is a sequence of   *)
(* BOOLEAN of a legal arity.                                               *)
GateFn(t, a) ==
  CASE t = "ALWAYS_TRUE"  -> TRUE
    [] t = "ALWAYS_FALSE" -> FALSE
    [] t = "NOT"  -> ~a[1]
    [] t = "IFF"  -> a[1]
    [] t = "AND"  -> \A i \in DOMAIN a : a[i]
    [] t = "NAND" -> ~(\A i \in DOMAIN a : a[i])
    [] t = "OR"   -> \E i \in DOMAIN a : a[i]
    [] t = "NOR"  -> ~(\E i \in DOMAIN a : a[i])
    [] t = "XOR"  -> CountTrue(a) % 2 = 1
    [] t = "NXOR" -> CountTrue(a) % 2 = 0
    [] t = "GT"   -> a[1] /\ ~a[2]
    [] t = "LT"   -> ~a[1] /\ a[2]
    [] t = "GEQ"  -> a[1] \/ ~a[2]
    [] t = "LEQ"  -> ~a[1] \/ a[2]
    [] t = "LIFF" -> a[1]
    [] t = "RIFF" -> a[2]
    [] t = "LNOT" -> ~a[1]
    [] t = "RNOT" -> ~a[2]

(***************************************************************************)
(* Row-set lifting: a value is the set of truth-table rows on which the    *)
(* gate is TRUE; all is the set of all rows.                               *)
(***************************************************************************)
InterAll(a, all) == FoldLeft(LAMBDA x, y : x \cap y, all, a)
UnionAll(a)      == FoldLeft(LAMBDA x, y : x \cup y, {}, a)
XorAll(a)        == FoldLeft(SymDiff, {}, a)

GateSet(t, a, all) ==
  CASE t = "ALWAYS_TRUE"  -> all
    [] t = "ALWAYS_FALSE" -> {}
    [] t = "NOT"  -> all \ a[1]
    [] t = "IFF"  -> a[1]
    [] t = "AND"  -> InterAll(a, all)
    [] t = "NAND" -> all \ InterAll(a, all)
    [] t = "OR"   -> UnionAll(a)
    [] t = "NOR"  -> all \ UnionAll(a)
    [] t = "XOR"  -> XorAll(a)
    [] t = "NXOR" -> all \ XorAll(a)
    [] t = "GT"   -> a[1] \ a[2]
    [] t = "LT"   -> a[2] \ a[1]
    [] t = "GEQ"  -> a[1] \cup (all \ a[2])
    [] t = "LEQ"  -> (all \ a[1]) \cup a[2]
    [] t = "LIFF" -> a[1]
    [] t = "RIFF" -> a[2]
    [] t = "LNOT" -> all \ a[1]
    [] t = "RNOT" -> all \ a[2]

(***************************************************************************)
(* Three-valued evaluation.  States are 0 = False, 1 = True, 2 = Undefined *)
(* (the encoding the recorder uses).  Refines(v, b): the three-valued      *)
(* value v is compatible with the Boolean b.                               *)
(***************************************************************************)
F3 == 0
T3 == 1
U3 == 2
States3 == {F3, T3, U3}
B3(b) == IF b THEN T3 ELSE F3
Refines(v, b) == v = U3 \/ v = B3(b)
Completions(a3) ==           \* all Boolean sequences compatible with a3
  {b \in [DOMAIN a3 -> BOOLEAN] : \A i \in DOMAIN a3 : Refines(a3[i], b[i])}

(* Strongest sound three-valued extension (used as the *reference* for the *)
(* soundness lemma; the code may be weaker, never stronger).               *)
Best3(t, a3) ==
  LET vals == {GateFn(t, b) : b \in Completions(a3)}
  IN  IF vals = {TRUE} THEN T3 ELSE IF vals = {FALSE} THEN F3 ELSE U3

(* Code-shaped tables (cirbo/core/circuit/operators.py): binary Kleene      *)
(* tables folded left to right; comparison tables as written there.        *)
Not3(x) == IF x = U3 THEN U3 ELSE 1 - x
And3(x, y) == IF x = F3 \/ y = F3 THEN F3 ELSE IF x = T3 /\ y = T3 THEN T3 ELSE U3
Or3(x, y)  == IF x = T3 \/ y = T3 THEN T3 ELSE IF x = F3 /\ y = F3 THEN F3 ELSE U3
Xor3(x, y) == IF x = U3 \/ y = U3 THEN U3 ELSE IF x = y THEN F3 ELSE T3
Fold3(op(_, _), a) == FoldLeft(op, a[1], Tail(a))
Gt3(x, y)  == IF x = F3 THEN F3 ELSE IF x = T3 THEN (IF y = F3 THEN T3 ELSE IF y = T3 THEN F3 ELSE U3) ELSE U3
Lt3(x, y)  == IF x = T3 THEN F3 ELSE IF x = F3 THEN (IF y = F3 THEN F3 ELSE IF y = T3 THEN T3 ELSE U3) ELSE U3
Geq3(x, y) == IF x = T3 THEN T3 ELSE IF x = F3 THEN (IF y = F3 THEN T3 ELSE IF y = T3 THEN F3 ELSE U3) ELSE U3
Leq3(x, y) == IF x = F3 THEN T3 ELSE IF x = T3 THEN (IF y = F3 THEN F3 ELSE IF y = T3 THEN T3 ELSE U3) ELSE U3

GateFn3(t, a) ==
  CASE t = "ALWAYS_TRUE"  -> T3
    [] t = "ALWAYS_FALSE" -> F3
    [] t = "NOT"  -> Not3(a[1])
    [] t = "IFF"  -> a[1]
    [] t = "AND"  -> Fold3(And3, a)
    [] t = "NAND" -> Not3(Fold3(And3, a))
    [] t = "OR"   -> Fold3(Or3, a)
    [] t = "NOR"  -> Not3(Fold3(Or3, a))
    [] t = "XOR"  -> Fold3(Xor3, a)
    [] t = "NXOR" -> Not3(Fold3(Xor3, a))
    [] t = "GT"   -> Gt3(a[1], a[2])
    [] t = "LT"   -> Lt3(a[1], a[2])
    [] t = "GEQ"  -> Geq3(a[1], a[2])
    [] t = "LEQ"  -> Leq3(a[1], a[2])
    [] t = "LIFF" -> a[1]
    [] t = "RIFF" -> a[2]
    [] t = "LNOT" -> Not3(a[1])
    [] t = "RNOT" -> Not3(a[2])

(***************************************************************************)
(* Truth-table codes of binary gates as used by the synthesis encoder and  *)
(* the arithmetic generators: a 4-character string, character number       *)
(* 2*x + y + 1 is the value on operands (x, y).                            *)
(***************************************************************************)
Bit(b) == IF b THEN "1" ELSE "0"
TTCode(t) ==
  LET v(x, y) == IF t \in UnaryTypes THEN GateFn(t, <<x>>)
                 ELSE IF t \in NullaryTypes THEN GateFn(t, <<>>)
                 ELSE GateFn(t, <<x, y>>)
  IN  Bit(v(FALSE, FALSE)) \o Bit(v(FALSE, TRUE)) \o Bit(v(TRUE, FALSE)) \o Bit(v(TRUE, TRUE))

(* binary types in the canonical two-operand reading, with their codes *)
BinaryReadable == BinaryTypes \cup NaryTypes

(***************************************************************************)
(* Tseytin templates: clauses over literals (positive / negative ints)     *)
(* forcing  top <=> GateFn(t, lits).  Used by the Cnf lemma: the clause    *)
(* set is satisfied by an assignment iff top equals the gate function.     *)
(***************************************************************************)
LitVal(asg, lit) == IF lit > 0 THEN asg[lit] ELSE ~asg[-lit]
ClauseSat(asg, cl) == \E i \in DOMAIN cl : LitVal(asg, cl[i])
CnfSat(asg, cnf) == \A i \in DOMAIN cnf : ClauseSat(asg, cnf[i])

(***************************************************************************)
(* Bench rewrites of the non-bench types (converters.py): a rewritten gate *)
(* is a bench-type gate over the original operands and one helper NOT.     *)
(***************************************************************************)
BenchRewriteFn(t, a) ==
  CASE t = "LT"   -> GateFn("AND", <<GateFn("NOT", <<a[1]>>), a[2]>>)
    [] t = "LEQ"  -> GateFn("OR",  <<GateFn("NOT", <<a[1]>>), a[2]>>)
    [] t = "GT"   -> GateFn("AND", <<a[1], GateFn("NOT", <<a[2]>>)>>)
    [] t = "GEQ"  -> GateFn("OR",  <<a[1], GateFn("NOT", <<a[2]>>)>>)
    [] t = "LIFF" -> GateFn("IFF", <<a[1]>>)
    [] t = "RIFF" -> GateFn("IFF", <<a[2]>>)
    [] t = "LNOT" -> GateFn("NOT", <<a[1]>>)
    [] t = "RNOT" -> GateFn("NOT", <<a[2]>>)
    [] OTHER      -> GateFn(t, a)
=============================================================================
