SPECIFICATION Spec
INVARIANT EncoderExact
CHECK_DEADLOCK FALSE
CONSTANTS
 NI = 2
 NG = 2
 AMAX = 3
 Types = {"ALWAYS_TRUE","NOT","IFF","GT","LT","GEQ","LEQ","LIFF","RNOT","AND","OR","XOR","NAND","NOR","NXOR"}
