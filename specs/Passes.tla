-------------------------------- MODULE Passes --------------------------------
(***************************************************************************)
(* Algorithm models of the simplification passes (role D for C03 / C18).   *)
(*   RRGModel   reachable gates (plus inputs unless removal is requested)   *)
(*   MUOModel   the parity maps of merge_unary_operators.py, code-shaped:   *)
(*              even / odd negation parents and buffer parents collected    *)
(*              along a topological order, operands and outputs remapped,   *)
(*              then RRG (the pass's post-transformer)                      *)
(*   MDGModel   structural duplicates merged along a topological order      *)
(*   MEGModel   gates with equal truth tables merged into the first one     *)
(*              in topological order                                        *)
(* RRG and MUO are deterministic functions of the netlist, so the judge     *)
(* also compares the implementation's result with them (DRIFT); MDG / MEG   *)
(* depend on the traversal order for the choice of the representative and   *)
(* are checked at design level only (PassLemmas.tla): every model satisfies *)
(* the C03 and C18 predicates on every circuit of the universe.             *)
(***************************************************************************)
EXTENDS JudgePass

RestrictNet(c, keep) ==
  [g |-> [l \in keep |-> c.g[l]], i |-> SelectSeq(c.i, LAMBDA x : x \in keep), o |-> c.o,
   u |-> <<>>, b |-> <<>>]
RRGModel(c, removal) ==
  LET live == Reach(c, SeqSet(c.o))
  IN RestrictNet(c, IF removal THEN live ELSE live \cup InputSet(c))

(* parity maps: maps[1] = even parent, maps[2] = odd parent, maps[3] = buffer parent *)
MUOMaps(c) ==
  FoldLeft(LAMBDA m, l :
     LET g == c.g[l] IN
     IF g.t \in Negations THEN
        LET op == SigOperand(g)
            ev == IF op \in DOMAIN m[2] THEN (l :> m[2][op]) @@ m[1] ELSE m[1]
            od == (l :> (IF op \in DOMAIN m[1] THEN m[1][op] ELSE op)) @@ m[2]
        IN <<ev, od, m[3]>>
     ELSE IF g.t \in Buffers THEN
        LET op == SigOperand(g)
        IN <<m[1], m[2], (l :> (IF op \in DOMAIN m[3] THEN m[3][op] ELSE op)) @@ m[3]>>
     ELSE m,
   <<<<>>, <<>>, <<>>>>, TopoSeq(c))
MUORemap(c, m, l) ==
  IF c.g[l].t \in Negations THEN (IF l \in DOMAIN m[1] THEN m[1][l] ELSE l)
  ELSE IF c.g[l].t \in Buffers THEN (IF l \in DOMAIN m[3] THEN m[3][l] ELSE l)
  ELSE l
MUOCore(c) ==
  LET m == MUOMaps(c)
  IN [g |-> [l \in DOMAIN c.g |-> [t |-> c.g[l].t, o |-> [j \in DOMAIN c.g[l].o |-> MUORemap(c, m, c.g[l].o[j])]]],
      i |-> c.i, o |-> [j \in DOMAIN c.o |-> MUORemap(c, m, c.o[j])], u |-> <<>>, b |-> <<>>]
MUOModel(c) == RRGModel(MUOCore(c), FALSE)

\* strings are not ordered in TLC: signatures are compared as operand multisets
SameSig(g, h) == g.t = h.t /\ IF g.t \in SymmetricTypes THEN SameBag(g.o, h.o) ELSE g.o = h.o
MDGCore(c) ==
  LET step(acc, l) ==      \* acc = [ren : label -> representative, net : gates so far]
        IF c.g[l].t = "INPUT" THEN [acc EXCEPT !.net = (l :> c.g[l]) @@ acc.net]
        ELSE LET ops == [j \in DOMAIN c.g[l].o |-> acc.ren[c.g[l].o[j]]]
                 me == [t |-> c.g[l].t, o |-> ops]
                 dup == {x \in DOMAIN acc.net : acc.net[x].t # "INPUT" /\ acc.ren[x] = x /\ SameSig(acc.net[x], me)}
             IN [ren |-> (l :> (IF dup = {} THEN l ELSE CHOOSE x \in dup : TRUE)) @@ acc.ren,
                 net |-> (l :> me) @@ acc.net]
      r == FoldLeft(step, [ren |-> [x \in InputSet(c) |-> x], net |-> <<>>], TopoSeq(c))
  IN [g |-> r.net, i |-> c.i, o |-> [j \in DOMAIN c.o |-> r.ren[c.o[j]]], u |-> <<>>, b |-> <<>>]
MDGModel(c) == RRGModel(MDGCore(c), FALSE)

MEGCore(c) ==
  LET tt == GateTT(c)
      order == TopoSeq(c)
      rep(l) == order[CHOOSE p \in DOMAIN order : tt[order[p]] = tt[l] /\ \A q \in 1 .. (p - 1) : tt[order[q]] # tt[l]]
  IN [g |-> [l \in DOMAIN c.g |-> [t |-> c.g[l].t, o |-> [j \in DOMAIN c.g[l].o |-> rep(c.g[l].o[j])]]],
      i |-> c.i, o |-> [j \in DOMAIN c.o |-> rep(c.o[j])], u |-> <<>>, b |-> <<>>]
MEGModel(c) == RRGModel(MEGCore(c), FALSE)

PassModel(p, c) ==
  CASE p = "RRG" -> RRGModel(c, FALSE) [] p = "RRGI" -> RRGModel(c, TRUE)
    [] p = "MUO" -> MUOModel(c) [] p = "MDG" -> MDGModel(c) [] p = "MEG" -> MEGModel(c)

(* DRIFT for the deterministic passes: the implementation's result is the model's result *)
PassDrift(c) ==
  IF c.exc = "" /\ c.pass \in {"RRG", "RRGI", "MUO"} /\ WellFormed(c.pre)
     /\ ~SameNetlist(c.post, PassModel(c.pass, c.pre))
  THEN {"result-differs-from-the-pass-model:" \o c.pass} ELSE {}
=============================================================================
