SPECIFICATION Spec
CONSTANTS
 MaxLen = 6
 MaxWeight = 2
INVARIANT SumPreserved
INVARIANT TerminalDistinct
INVARIANT GateBound
PROPERTY Terminates
CHECK_DEADLOCK FALSE
