------------------------------ MODULE JudgeC20 ------------------------------
(***************************************************************************)
(* C20: traversals visit exactly the reachable gates in a valid order.     *)
(* kind "trav": c.c circuit (a DAG), c.mode "DFS"/"BFS", c.inverse,        *)
(*   c.start (sequence of start labels as passed or defaulted),            *)
(*   c.topo (topsort_unvisited), c.ev: sequence of [e, l] events with      *)
(*   e in enter / discover / exit / unvisited / yield / end, c.exc.        *)
(* kind "topsort": c.c, c.inv, c.order (or c.exc)                          *)
(* kind "cycle": c.c (possibly cyclic netlist), c.raised                   *)
(* The abstract specification: any order is accepted that visits exactly   *)
(* the reachable set once, enters before exiting, exits in post-order.     *)
(***************************************************************************)
EXTENDS JudgeCore

EvLabels(ev, kind) == LET idx == SelectSeq([j \in DOMAIN ev |-> j], LAMBDA j : ev[j].e = kind)
                      IN [j \in DOMAIN idx |-> ev[idx[j]].l]
EvPos(ev, kind, lab) == CHOOSE j \in DOMAIN ev : ev[j].e = kind /\ ev[j].l = lab

Succ(c, inverse, v) == IF inverse THEN UsersSet(c, v) ELSE OpSet(c, v)
Reached(c, inverse, S) == IF inverse THEN ReachUp(c, S) ELSE Reach(c, S)

C20TravFails(c) ==
  LET ck == c.c
      ev == c.ev
      R == Reached(ck, c.inverse, SeqSet(c.start))
      ys == EvLabels(ev, "yield")
      ens == EvLabels(ev, "enter")
      exs == EvLabels(ev, "exit")
      uns == EvLabels(ev, "unvisited")
      H == SeqSet(c.hooks)          \* the hooks that were installed for this run
  IN FailSet(<<
      <<"traversal-raised:" \o c.exc, c.exc = "">>,
      <<"yields-exactly-the-reachable-gates-once", NoDup(ys) /\ SeqSet(ys) = R>>,
      <<"enter-hook-once-per-reached-gate", "enter" \notin H \/ (NoDup(ens) /\ SeqSet(ens) = R)>>,
      <<"exit-hooks-exactly-the-reached-gates", c.mode # "DFS" \/ "exit" \notin H \/ (NoDup(exs) /\ SeqSet(exs) = R)>>,
      <<"no-exit-hook-in-bfs", c.mode # "BFS" \/ exs = <<>>>>,
      <<"enter-precedes-exit", "enter" \notin H \/ \A j \in DOMAIN ev : ev[j].e = "exit" =>
            \E i \in 1 .. (j - 1) : ev[i].e = "enter" /\ ev[i].l = ev[j].l>>,
      <<"exit-in-post-order",
          c.mode # "DFS" \/ "exit" \notin H \/ ~(NoDup(exs) /\ SeqSet(exs) = R) \/
          \A v \in R : \A w \in Succ(ck, c.inverse, v) : EvPos(ev, "exit", w) < EvPos(ev, "exit", v)>>,
      <<"unvisited-hook-exactly-the-unreached-gates", "unvisited" \notin H \/ (NoDup(uns) /\ SeqSet(uns) = Labels(ck) \ R)>>,
      <<"unvisited-in-topological-order",
          ~c.topo \/ \A a, b \in DOMAIN uns : uns[a] \in OpSet(ck, uns[b]) => a < b>>
    >>)

C20TopFails(c) ==
  FailSet(<<
    <<"top_sort-raised:" \o c.exc, c.exc = "">>,
    <<"top_sort-order", c.exc # "" \/
        (IF c.inv THEN OperandsFirst(c.c, c.order) ELSE UsersFirst(c.c, c.order))>>
  >>)

(* kind "travdeep": a circuit with one path of more than a thousand gates in which every gate is reachable from the outputs
   and from the inputs (so every default-start traversal reaches everything).  c.orders: the two top_sort results
   [inv, order, exc]; c.travs: [mode, inverse, ev, exc] with all hooks installed.  Linear clauses only. *)
AfterAllOf(G, seq, succ(_)) ==       \* every element of seq comes after all of its succ elements
  FoldLeft(LAMBDA acc, l : [ok |-> acc.ok /\ succ(l) \subseteq acc.seen, seen |-> acc.seen \cup {l}], [ok |-> TRUE, seen |-> {}], seq).ok
C20DeepFails(c) ==
  LET G == AsFcn(c.c.g)
      L == DOMAIN G
      opsOf(l) == SeqSet(G[l].o)
      perm(seq) == Len(seq) = Cardinality(L) /\ SeqSet(seq) = L
      top == UNION {
        IF c.orders[j].exc # "" THEN {"top_sort-raised:" \o c.orders[j].exc}
        ELSE IF perm(c.orders[j].order) /\
                AfterAllOf(G, IF c.orders[j].inv THEN c.orders[j].order ELSE Reverse(c.orders[j].order), opsOf)
             THEN {} ELSE {"top_sort-order"} : j \in DOMAIN c.orders}
      trav == UNION {
        LET t == c.travs[j]
            ys == EvLabels(t.ev, "yield")
            ens == EvLabels(t.ev, "enter")
            exs == EvLabels(t.ev, "exit")
            uns == EvLabels(t.ev, "unvisited")
        IN IF t.exc # "" THEN {"traversal-raised:" \o t.exc}
           ELSE FailSet(<<
             <<"yields-exactly-the-reachable-gates-once", perm(ys)>>,
             <<"enter-hook-once-per-reached-gate", perm(ens)>>,
             <<"exit-hooks-exactly-the-reached-gates", t.mode # "DFS" \/ perm(exs)>>,
             <<"no-exit-hook-in-bfs", t.mode # "BFS" \/ exs = <<>>>>,
             \* forward traversals walk towards the operands: a gate exits after its operands; inverse ones after its users,
             \* i.e. read backwards the exits are operands-first
             <<"exit-in-post-order", t.mode # "DFS" \/ ~perm(exs) \/
                 AfterAllOf(G, IF t.inverse THEN Reverse(exs) ELSE exs, opsOf)>>,
             <<"unvisited-hook-exactly-the-unreached-gates", uns = <<>>>>
           >>) : j \in DOMAIN c.travs}
  IN top \cup trav

(* a cycle is reachable from the outputs iff the sub-netlist induced by Reach(outs)
   cannot be layered completely *)
HasReachableCycle(c) ==
  LET R == Reach(c, SeqSet(c.o))
      sub == [c EXCEPT !.g = [x \in R |-> c.g[x]]]
  IN  Layering(sub, {}) # R
(* the same on netlists of hundreds of gates: the gate map copied into a function first (hashed lookup) *)
RECURSIVE ReachF(_, _, _)
ReachF(G, front, seen) ==
  IF front = {} THEN seen
  ELSE LET nxt == ((UNION {SeqSet(G[l].o) : l \in front}) \cap DOMAIN G) \ seen IN ReachF(G, nxt, seen \cup nxt)
RECURSIVE LayerF(_, _, _)
LayerF(G, R, done) ==
  LET ready == {l \in R \ done : (SeqSet(G[l].o) \cap R) \subseteq done}
  IN  IF ready = {} THEN done ELSE LayerF(G, R, done \cup ready)
HasReachableCycleF(c) ==
  LET G == AsFcn(c.g)
      start == SeqSet(c.o) \cap DOMAIN G
      R == ReachF(G, start, start)
  IN  LayerF(G, R, {}) # R
C20CycleFails(c) ==
  FailSet(<< <<IF c.raised THEN "cycle-check-raised-without-reachable-cycle"
                           ELSE "cycle-check-missed-a-reachable-cycle",
               c.raised = (IF Cardinality(DOMAIN c.c.g) > 60 THEN HasReachableCycleF(c.c) ELSE HasReachableCycle(c.c))>> >>)
=============================================================================
