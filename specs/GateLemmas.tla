------------------------------ MODULE GateLemmas ------------------------------
(***************************************************************************)
(* Role D for GateSemantics: every derived rendering of a gate type        *)
(* denotes GateFn.  One state per (type, arity, three-valued argument      *)
(* tuple); the invariants are the lemmas.  There are no transitions.       *)
(***************************************************************************)
EXTENDS GateSemantics, TLC
CONSTANT MAXAR
VARIABLES t, n, a3
vars == <<t, n, a3>>

Arities(tt) == CASE tt \in NullaryTypes -> {0}
                 [] tt \in UnaryTypes   -> {1}
                 [] tt \in BinaryTypes  -> {2}
                 [] OTHER               -> 2 .. MAXAR

Init == /\ t \in OpTypes
        /\ n \in Arities(t)
        /\ a3 \in [1 .. n -> States3]
Next == UNCHANGED vars
Spec == Init /\ [][Next]_vars

Defined(a) == \A i \in DOMAIN a : a[i] # U3
AsBool(a) == [i \in DOMAIN a |-> a[i] = T3]
(* b3 defines at least what a3 defines, with the same values *)
Extends(b3, a3x) == \A i \in DOMAIN a3x : a3x[i] # U3 => b3[i] = a3x[i]

\* L1 soundness: a defined three-valued result is the value under every completion
KleeneSound == GateFn3(t, a3) # U3 =>
                 \A b \in Completions(a3) : GateFn3(t, a3) = B3(GateFn(t, b))
\* L2 monotonicity: defining more operands never changes a defined result
KleeneMonotone == GateFn3(t, a3) # U3 =>
                 \A b3 \in [1 .. n -> States3] : Extends(b3, a3) => GateFn3(t, b3) = GateFn3(t, a3)
\* L3 totality: fully defined operands give the Boolean value
KleeneTotal == Defined(a3) => GateFn3(t, a3) = B3(GateFn(t, AsBool(a3)))
\* L4 never stronger than the best sound extension
KleeneNotStronger == GateFn3(t, a3) # U3 => GateFn3(t, a3) = Best3(t, a3)

\* L5 the row-set lifting is the pointwise function (checked on the canonical columns)
Pow(k) == 2 ^ k
Rows == 0 .. (Pow(n) - 1)
Col(j) == {r \in Rows : (r \div Pow(n - j)) % 2 = 1}
LiftedIsPointwise ==
  Defined(a3) =>   \* evaluated once per (t, n): only for the all-defined tuples, cheap anyway
    \A r \in Rows : (r \in GateSet(t, [j \in 1 .. n |-> Col(j)], Rows))
                      <=> GateFn(t, [j \in 1 .. n |-> r \in Col(j)])
\* L6 bench rewrites keep the function
RewriteKeeps == Defined(a3) => BenchRewriteFn(t, AsBool(a3)) = GateFn(t, AsBool(a3))
\* L7 symmetric types really are symmetric (all permutations of two positions)
SymmetricOK == (Defined(a3) /\ t \in SymmetricTypes) =>
    \A i, j \in 1 .. n :
       GateFn(t, [k \in 1 .. n |-> AsBool(a3)[IF k = i THEN j ELSE IF k = j THEN i ELSE k]])
         = GateFn(t, AsBool(a3))
\* L8 the 4-character code of a binary reading determines the type among the 16 binary functions
CodeOK == (n = 2 /\ Defined(a3)) =>
    LET x == AsBool(a3)[1]  y == AsBool(a3)[2]
        idx == (IF x THEN 2 ELSE 0) + (IF y THEN 1 ELSE 0) + 1
    IN  SubSeq(TTCode(t), idx, idx) = Bit(GateFn(t, AsBool(a3)))
=============================================================================
