--------------------------- MODULE ArithAlgoLemmas ---------------------------
(***************************************************************************)
(* Role D for C07 / C09: the algorithm-level models of ArithAlgo.tla.      *)
(*  mode "sum": the bit-count machine (_add_sum_n_bits, both bases) is run *)
(*    step by step for every n <= NMax; at EVERY step the level invariant  *)
(*    holds on every operand value:                                        *)
(*       sum res_i 2^i + 2^L (solo + pairs) + 2^(L+1) (nsolo + npairs)     *)
(*         = number of TRUE operands,     L = Len(res),                    *)
(*    a pair (x, xy) standing for the two bits x and x xor xy; at the end  *)
(*    the result has the minimal number of bits and the emitted gates stay *)
(*    within the documented bound (4.5 n - 2 m XAIG, 7 n - 3 m AIG).       *)
(*  mode "algo": every composed builder satisfies its arithmetic identity  *)
(*    on every operand value, for all widths up to the configured bound.   *)
(***************************************************************************)
EXTENDS ArithAlgo, TLC
CONSTANTS NMax, WAdd, WSub, WDiv, WSqrt, WInc

VARIABLES mode, st, cf
vars == <<mode, st, cf>>

Pool(k) == [j \in 1 .. k |-> j]
Configs ==
  [a : {"sumtwo"}, n : 1 .. WAdd, m : 1 .. WAdd, s : {0}] \cup
  [a : {"sumshift"}, n : 1 .. WAdd, m : 1 .. WAdd, s : 0 .. (WAdd + 2)] \cup
  [a : {"sub", "subc"}, n : 1 .. WSub, m : 1 .. WSub, s : {0}] \cup
  [a : {"divmod"}, n : 1 .. WDiv, m : {0}, s : {0}] \cup
  [a : {"sqrt"}, n : 1 .. WSqrt, m : {0}, s : {0}] \cup
  [a : {"inc"}, n : 1 .. WInc, m : 1 .. (WInc + 2), s : {0}] \cup
  [a : {"eq"}, n : 1 .. WInc, m : {0}, s : 0 .. (2 ^ (WInc + 1))] \cup
  [a : {"codes"}, n : {0}, m : {0}, s : {0}]

Init == \/ /\ mode = "sum"
           /\ \E n \in 0 .. NMax, basis \in {"XAIG", "AIG"} : st = SumInit(Fresh(n), Pool(n), basis)
           /\ cf = [a |-> "none", n |-> 0, m |-> 0, s |-> 0]
        \/ /\ mode = "algo"
           /\ st = SumInit(Fresh(0), <<>>, "AIG")
           /\ cf \in Configs
Next == /\ mode = "sum" /\ st.pc # "done"
        /\ st' = SumStep(st)
        /\ UNCHANGED <<mode, cf>>
Spec == Init /\ [][Next]_vars /\ WF_vars(Next)

(* ---- the machine ---- *)
K == st.b.n - Len(st.b.g)               \* size of the operand pool
Assignments(k) == [1 .. k -> BOOLEAN]
Cnt(v, refs) == Cardinality({j \in DOMAIN refs : v[refs[j]]})
PairCnt(v, ps) == FoldLeft(LAMBDA acc, j : acc + (IF v[ps[j][1]] THEN 1 ELSE 0) + (IF v[ps[j][1]] # v[ps[j][2]] THEN 1 ELSE 0),
                           0, [j \in DOMAIN ps |-> j])
LevelInvariant ==
  mode = "sum" =>
    \A inp \in Assignments(K) :
      LET v == NetVals(st.b.g, inp)
          L == Len(st.res)
      IN NVal(v, st.res) + 2 ^ L * (Cnt(v, st.solo) + PairCnt(v, st.pairs))
                         + 2 ^ (L + 1) * (Cnt(v, st.nsolo) + PairCnt(v, st.npairs))
         = Cardinality({j \in 1 .. K : inp[j]})
(* In the XAIG basis every pair of solo bits is consumed by the pairing loop and every later block puts at most
   one bit back, so when control reaches the trailing full-adder / half-adder loops of the function (pcs "sum3",
   "sum2") there is at most one solo bit: those loops are dead code there (they run in the AIG basis only).  The
   mutation campaign's surviving mutants inside them are equivalent for exactly this reason. *)
TrailingAddersDeadInXAIG ==
  (mode = "sum" /\ st.basis = "XAIG" /\ st.pc \in {"sum3", "sum2"}) => Len(st.solo) <= 1
BitLen(n) == IF n = 0 THEN 0 ELSE CHOOSE m \in 1 .. 10 : 2 ^ (m - 1) <= n /\ n < 2 ^ m
MinimalBitsAndBound ==
  (mode = "sum" /\ st.pc = "done") =>
     /\ Len(st.res) = BitLen(K)
     /\ st.solo = <<>> /\ st.pairs = <<>>
     /\ IF st.basis = "XAIG" THEN 2 * Len(st.b.g) <= 9 * K - 4 * Len(st.res) \/ K = 0
                             ELSE Len(st.b.g) <= 7 * K - 3 * Len(st.res) \/ K = 0
BasisRespected == (mode = "sum" /\ st.basis = "AIG") => \A j \in DOMAIN st.b.g : st.b.g[j].t \notin {"XOR", "NXOR"}
Terminates == mode = "sum" => <>(st.pc = "done")

(* ---- the composed builders ---- *)
AlgoOK(c) ==
  LET A == [j \in 1 .. c.n |-> j]
      Bq == [j \in 1 .. c.m |-> c.n + j]
  IN
  CASE c.a = "codes" -> \A code \in AllCodes : TTCode(CodeType(code)) = code
    [] c.a = "sumtwo" ->
         LET r == SumTwo(Fresh(c.n + c.m), A, Bq) IN
         \A inp \in Assignments(c.n + c.m) : LET v == NetVals(r.b.g, inp) IN NVal(v, r.out) = NVal(v, A) + NVal(v, Bq)
    [] c.a = "sumshift" ->
         LET r == SumTwoShift(Fresh(c.n + c.m), c.s, A, Bq) IN
         \A inp \in Assignments(c.n + c.m) : LET v == NetVals(r.b.g, inp) IN NVal(v, r.out) = NVal(v, A) + NVal(v, Bq) * 2 ^ c.s
    [] c.a = "sub" ->
         LET r == SubTwo(Fresh(c.n + c.m), A, Bq)  md == 2 ^ c.n IN
         /\ Len(r.out) = c.n
         /\ \A inp \in Assignments(c.n + c.m) : LET v == NetVals(r.b.g, inp)  a == NVal(v, A)  b == NVal(v, Bq)
                                                IN NVal(v, r.out) = (a + md * (b \div md + 1) - b) % md
    [] c.a = "subc" ->
         LET r == SubCmp(Fresh(c.n + c.m), A, Bq)  w == IF c.n >= c.m THEN c.n ELSE c.m  md == 2 ^ w IN
         /\ Len(r.out) = w
         /\ \A inp \in Assignments(c.n + c.m) : LET v == NetVals(r.b.g, inp)  a == NVal(v, A)  b == NVal(v, Bq)
                                                IN /\ NVal(v, r.out) = (a + md - b) % md
                                                   /\ v[r.bal] <=> (a < b)
    [] c.a = "divmod" ->
         LET Bd == [j \in 1 .. c.n |-> c.n + j]
             r == DivMod(Fresh(2 * c.n), A, Bd) IN
         /\ Len(r.q) = c.n /\ Len(r.r) = c.n
         /\ \A inp \in Assignments(2 * c.n) : LET v == NetVals(r.b.g, inp)  a == NVal(v, A)  b == NVal(v, Bd)
                                              IN IF b = 0 THEN NVal(v, r.q) = 0 /\ NVal(v, r.r) = 0
                                                 ELSE NVal(v, r.q) = a \div b /\ NVal(v, r.r) = a % b
    [] c.a = "sqrt" ->
         LET r == Sqrt(Fresh(c.n), A) IN
         /\ Len(r.out) = (c.n + 1) \div 2
         /\ \A inp \in Assignments(c.n) : LET v == NetVals(r.b.g, inp)  a == NVal(v, A)  s == NVal(v, r.out)
                                          IN s * s <= a /\ (s + 1) * (s + 1) > a
    [] c.a = "inc" ->
         LET r == PlusOne(Fresh(c.n), A, c.m) IN
         /\ Len(r.out) = c.m
         /\ \A inp \in Assignments(c.n) : LET v == NetVals(r.b.g, inp) IN NVal(v, r.out) = (NVal(v, A) + 1) % 2 ^ c.m
    [] c.a = "eq" ->
         LET fits == c.s < 2 ^ c.n
             cbits == [j \in 1 .. c.n |-> (c.s \div 2 ^ (j - 1)) % 2 = 1]
             r == Equal(Fresh(c.n), A, fits, cbits) IN
         \A inp \in Assignments(c.n) : LET v == NetVals(r.b.g, inp) IN v[r.out[1]] <=> (NVal(v, A) = c.s)
    [] OTHER -> TRUE
AlgoIdentities == mode = "algo" => AlgoOK(cf)
=============================================================================
