----------------------------- MODULE CircuitOps -----------------------------
(***************************************************************************)
(* The public mutators of cirbo's Circuit as pure operators on the         *)
(* abstract state  s = [g, i, o, u, b]  (see CircuitSem).  For every       *)
(* mutator X:   PreX(s, args)  is the validation the code performs (the    *)
(* call returns normally iff it holds) and  DoX(s, args)  the state after  *)
(* the call.  The users index u is updated INCREMENTALLY, exactly where    *)
(* the code updates it, so that the design-level run (CircuitAPI.tla)      *)
(* shows that the bookkeeping keeps WellFormed, and the trace judge        *)
(* (JudgeHist.tla) can compare the recorded next state with DoX.           *)
(* In the model u is total over DOMAIN s.g (empty sequence = no users).    *)
(***************************************************************************)
EXTENDS CircuitSem

Restr(f, S) == [x \in S |-> f[x]]
Rep(e, n) == [j \in 1 .. n |-> e]
RECURSIVE RmFirst(_, _)
RmFirst(s, e) == IF s = <<>> THEN <<>>
                     ELSE IF Head(s) = e THEN Tail(s)
                     ELSE <<Head(s)>> \o RmFirst(Tail(s), e)
RECURSIVE RemoveN(_, _, _)
RemoveN(s, e, n) == IF n = 0 THEN s ELSE RemoveN(RmFirst(s, e), e, n - 1)
Filter(s, e) == SelectSeq(s, LAMBDA x : x # e)
FilterOut(s, S) == SelectSeq(s, LAMBDA x : x \notin S)
FilterIn(s, S) == SelectSeq(s, LAMBDA x : x \in S)
MapSeq(s, F(_)) == [j \in DOMAIN s |-> F(s[j])]
RECURSIVE Flatten(_)
Flatten(ss) == IF ss = <<>> THEN <<>> ELSE Head(ss) \o Flatten(Tail(ss))
BagLeq(a, b) == \A e \in SeqSet(a) : Occ(a, e) <= Occ(b, e)

EmptyState == [g |-> <<>>, i |-> <<>>, o |-> <<>>, u |-> <<>>, b |-> <<>>]
Gate(t, ops) == [t |-> t, o |-> ops]
UsersTotal(c) == [x \in DOMAIN c.g |-> UsersOf(c, x)]      \* recorded (sparse) -> total
Norm(c) == [g |-> c.g, i |-> c.i, o |-> c.o, u |-> UsersTotal(c), b |-> c.b]
(* users index derived from the operand relation (for circuits given without one) *)
DerivedUsers(c) ==
  [x \in DOMAIN c.g |->
     FoldLeft(LAMBDA acc, w : acc \o Rep(w, Occ(c.g[w].o, x)), <<>>, SetToSeq(DOMAIN c.g))]
NormD(c) == [g |-> c.g, i |-> c.i, o |-> c.o, u |-> DerivedUsers(c), b |-> c.b]

(***************************  add_gate / emplace_gate  ********************)
PreAddGate(s, l, t, ops) == l \notin DOMAIN s.g /\ SeqSet(ops) \subseteq DOMAIN s.g
DoAddGate(s, l, t, ops) ==
  [s EXCEPT !.g = (l :> Gate(t, ops)) @@ s.g,
            !.u = [x \in DOMAIN s.g \cup {l} |->
                     IF x = l THEN <<>> ELSE s.u[x] \o Rep(l, Occ(ops, x))],
            !.i = IF t = "INPUT" THEN Append(s.i, l) ELSE s.i]

(***************************  remove_gate  ********************************)
PreRemoveGate(s, l) == l \in DOMAIN s.g /\ s.u[l] = <<>>
DoRemoveGateU(s, l) ==                         \* the unchecked _remove_gate
  LET ops == s.g[l].o
      rest == DOMAIN s.g \ {l}
  IN [g |-> Restr(s.g, rest),
      u |-> [x \in rest |-> RemoveN(s.u[x], l, Occ(ops, x))],
      i |-> Filter(s.i, l),
      o |-> Filter(s.o, l),
      b |-> Restr(s.b, {n \in DOMAIN s.b :
                              l \notin SeqSet(s.b[n].g) \cup SeqSet(s.b[n].i)})]
DoRemoveGate(s, l) == DoRemoveGateU(s, l)

(***************************  rename_gate  ********************************)
Sub1(x, old, new) == IF x = old THEN new ELSE x
SubS(q, old, new) == [j \in DOMAIN q |-> Sub1(q[j], old, new)]
PreRename(s, old, new) == old \in DOMAIN s.g /\ new \notin DOMAIN s.g
DoRename(s, old, new) ==
  LET dom == (DOMAIN s.g \ {old}) \cup {new}
      src(x) == IF x = new THEN old ELSE x
  IN [g |-> [x \in dom |-> Gate(s.g[src(x)].t, SubS(s.g[src(x)].o, old, new))],
      u |-> [x \in dom |-> SubS(s.u[src(x)], old, new)],
      i |-> SubS(s.i, old, new),
      o |-> SubS(s.o, old, new),
      b |-> [n \in DOMAIN s.b |-> [i |-> SubS(s.b[n].i, old, new),
                                   g |-> SubS(s.b[n].g, old, new),
                                   o |-> SubS(s.b[n].o, old, new)]]]

(***************************  outputs / inputs  ***************************)
PreMarkOutput(s, l) == l \in DOMAIN s.g
DoMarkOutput(s, l) == [s EXCEPT !.o = Append(s.o, l)]
PreSetOutputs(s, q) == SeqSet(q) \subseteq DOMAIN s.g
DoSetOutputs(s, q) == [s EXCEPT !.o = q]
PreSetInputs(s, q) == /\ SeqSet(q) \subseteq DOMAIN s.g
                      /\ InputSet(s) \subseteq SeqSet(q)
                      /\ \A j \in DOMAIN q : s.g[q[j]].t = "INPUT"
                      /\ NoDup(q)
DoSetInputs(s, q) == [s EXCEPT !.i = q]
(* utils.order_list: copy `q`, then the elements of `old` not consumed by q *)
RECURSIVE RemoveEach(_, _)
RemoveEach(old, q) == IF q = <<>> THEN old ELSE RemoveEach(RmFirst(old, Head(q)), Tail(q))
PreOrderList(q, old) == BagLeq(q, old)
OrderList(q, old) == q \o RemoveEach(old, q)
PreOrderInputs(s, q) == PreOrderList(q, s.i)
DoOrderInputs(s, q) == [s EXCEPT !.i = OrderList(q, s.i)]
PreOrderOutputs(s, q) == PreOrderList(q, s.o)
DoOrderOutputs(s, q) == [s EXCEPT !.o = OrderList(q, s.o)]

(***************************  replace_inputs  *****************************)
PreReplaceInputs(s, tq, fq) ==
  LET q == tq \o fq
  IN  NoDup(q) /\ \A j \in DOMAIN q : q[j] \in DOMAIN s.g /\ s.g[q[j]].t = "INPUT"
DoReplaceInputs(s, tq, fq) ==
  LET T == SeqSet(tq)  F == SeqSet(fq)
  IN [s EXCEPT !.g = [x \in DOMAIN s.g |->
                        IF x \in T THEN Gate("ALWAYS_TRUE", <<>>)
                        ELSE IF x \in F THEN Gate("ALWAYS_FALSE", <<>>) ELSE s.g[x]],
               !.i = FilterOut(s.i, T \cup F)]

(***************************  blocks  *************************************)
BlockInputsOf(s, gq) ==       \* operands (with repetition) of the block gates lying outside
  Flatten([j \in DOMAIN gq |-> FilterOut(s.g[gq[j]].o, SeqSet(gq))])
PreMakeBlock(s, n, gq, oq, iq, hasInputs) ==
  /\ n \notin DOMAIN s.b
  /\ SeqSet(gq) \cup SeqSet(oq) \subseteq DOMAIN s.g
  /\ hasInputs => SeqSet(iq) \subseteq DOMAIN s.g
DoMakeBlock(s, n, gq, oq, iq, hasInputs) ==
  [s EXCEPT !.b = (n :> [i |-> IF hasInputs THEN iq ELSE BlockInputsOf(s, gq),
                         g |-> gq, o |-> oq]) @@ s.b]
(* make_block_from_slice: gates = backward closure of outputs, stopping at inputs *)
RECURSIVE SliceRec(_, _, _, _)
SliceRec(s, I, front, seen) ==
  IF front = {} THEN seen
  ELSE LET nxt == ((UNION {OpSet(s, l) : l \in front}) \ I) \ seen
       IN  SliceRec(s, I, nxt, seen \cup nxt)
SliceGates(s, iq, oq) == LET I == SeqSet(iq)  st == SeqSet(oq) \ I
                         IN  SliceRec(s, I, st, st)
PreMakeSlice(s, n, iq, oq) ==
  /\ n \notin DOMAIN s.b
  /\ SeqSet(iq) \cup SeqSet(oq) \subseteq DOMAIN s.g
  /\ \A l \in SliceGates(s, iq, oq) : \A x \in OpSet(s, l) \ SeqSet(iq) :
        s.g[x].t # "INPUT"                                   \* else CreateBlockError
(* the member list is list(set(...)): its order is unspecified, compare as a set *)
DoMakeSlice(s, n, iq, oq) ==
  [s EXCEPT !.b = (n :> [i |-> iq, g |-> SetToSeq(SliceGates(s, iq, oq)), o |-> oq]) @@ s.b]
PreDeleteBlock(s, n) == n \in DOMAIN s.b
DoDeleteBlock(s, n) == [s EXCEPT !.b = Restr(s.b, DOMAIN s.b \ {n})]
BlockHasNoUsers(s, gq, excl) ==
  \A j \in DOMAIN gq : gq[j] \notin excl =>
     SeqSet(s.u[gq[j]]) \subseteq SeqSet(gq)
PreRemoveBlock(s, n) ==
  /\ n \in DOMAIN s.b
  /\ SeqSet(s.b[n].g) \subseteq DOMAIN s.g
  /\ NoDup(s.b[n].g)
  /\ BlockHasNoUsers(s, s.b[n].g, {})
DoRemoveBlockU(s, gq) == FoldLeft(LAMBDA acc, l : DoRemoveGateU(acc, l), s, gq)
DoRemoveBlock(s, n) == DoRemoveBlockU(s, s.b[n].g)

(***************************  connect_circuit  ****************************)
(* other: abstract circuit; tc / oc: connector sequences of this / other;  *)
(* right: right_connect; name: block name ("" = none); pfx: add_prefix.    *)
(* DevNoUsers / DevNoBlockMember select the two historical deviations of   *)
(* the right-connect branch (gate written over a base input without        *)
(* registering it as a user of its operands / without adding it to the new *)
(* block); both FALSE is the repaired behaviour.                           *)
Prefix(name, pfx) == IF name # "" /\ pfx THEN name \o "@" ELSE ""
ConnMap(other, tc, oc, p) ==
  [l \in DOMAIN other.g |->
     IF l \in SeqSet(oc)
     THEN tc[CHOOSE j \in DOMAIN oc : oc[j] = l /\ \A k \in DOMAIN oc : oc[k] = l => k <= j]
     ELSE p \o l]
PreConnect(s, other, tc, oc, right, name, pfx) ==
  LET p == Prefix(name, pfx)
      fresh == {p \o l : l \in DOMAIN other.g \ SeqSet(oc)}
  IN /\ name \notin DOMAIN s.b
     /\ SeqSet(tc) \subseteq DOMAIN s.g
     /\ SeqSet(oc) \subseteq DOMAIN other.g
     /\ IF right THEN NoDup(tc) ELSE NoDup(oc)
     /\ Len(tc) = Len(oc)
     /\ IF right THEN \A j \in DOMAIN tc : s.g[tc[j]].t = "INPUT"
                 ELSE \A j \in DOMAIN oc : other.g[oc[j]].t = "INPUT"
     /\ fresh \cap DOMAIN s.g = {}
     /\ \A n \in DOMAIN other.b : (p \o n) \notin DOMAIN s.b
     /\ name # "" => \A n \in DOMAIN other.b : (p \o n) # name
     /\ WF1(other) /\ WF5(other)
DoConnect(s, other, tc, oc, right, name, pfx, DevNoUsers, DevNoBlockMember) ==
  LET p == Prefix(name, pfx)
      m == ConnMap(other, tc, oc, p)
      mq(q) == [j \in DOMAIN q |-> m[q[j]]]
      order == TopoSeq(other)
      step(acc, l) ==
        IF l \notin SeqSet(oc)
        THEN DoAddGate(acc, m[l], other.g[l].t, mq(other.g[l].o))
        ELSE IF right
             THEN \* the gate is written over EVERY base input it is paired with
                  LET ops == mq(other.g[l].o)
                      targets == SelectSeq(tc, LAMBDA y : \E j \in DOMAIN tc : tc[j] = y /\ oc[j] = l)
                  IN FoldLeft(LAMBDA a2, y :
                        [a2 EXCEPT !.g = [a2.g EXCEPT ![y] = Gate(other.g[l].t, ops)],
                                   !.u = IF DevNoUsers THEN a2.u
                                         ELSE [x \in DOMAIN a2.u |-> a2.u[x] \o Rep(y, Occ(ops, x))]],
                        acc, targets)
             ELSE acc
      s1 == FoldLeft(step, s, order)
      newNonInput == {m[l] : l \in {x \in DOMAIN other.g \ SeqSet(oc) : other.g[x].t # "INPUT"}}
      overwritten == {tc[j] : j \in {x \in DOMAIN tc : other.g[oc[x]].t # "INPUT"}}
      members == IF right /\ ~DevNoBlockMember THEN newNonInput \cup overwritten ELSE newNonInput
      outs == FilterOut(s.o, SeqSet(tc)) \o mq(FilterOut(other.o, SeqSet(oc)))
      ins == SelectSeq(s.i, LAMBDA x : s1.g[x].t = "INPUT") \o mq(FilterOut(other.i, SeqSet(oc)))
      copied == [n \in {p \o k : k \in DOMAIN other.b} |->
                   LET k == CHOOSE k \in DOMAIN other.b : p \o k = n
                   IN [i |-> mq(other.b[k].i), g |-> mq(other.b[k].g), o |-> mq(other.b[k].o)]]
      withNew == IF name = "" THEN copied @@ s1.b
                 ELSE (name :> [i |-> mq(other.i), g |-> SetToSeq(members), o |-> mq(other.o)])
                        @@ copied @@ s1.b
  IN [s1 EXCEPT !.o = outs, !.i = ins, !.b = withNew]

(***************************  into_bench  *********************************)
(* helper gate of gate l is named by Helper(l) - the code uses a fresh     *)
(* uuid-based label; the judge compares up to that renaming.               *)
NeedsHelper(t) == t \in {"LT", "LEQ", "GT", "GEQ", "ALWAYS_TRUE", "ALWAYS_FALSE"}
DropsOperand(t) == t \in {"LIFF", "RIFF", "LNOT", "RNOT"}
PreIntoBench(s) ==
  (\E l \in DOMAIN s.g : s.g[l].t \in NullaryTypes) => Len(s.i) >= 1
ConvertGate(s, l, h) ==
  LET t == s.g[l].t   ops == s.g[l].o
      addHelperBlocks(b) == [n \in DOMAIN b |->
           IF l \in SeqSet(b[n].g) THEN [b[n] EXCEPT !.g = Append(b[n].g, h)] ELSE b[n]]
  IN CASE t \in {"LT", "LEQ"} ->
            LET s1 == DoAddGate(s, h, "NOT", <<ops[1]>>)
            IN [s1 EXCEPT !.g = [s1.g EXCEPT ![l] = Gate(IF t = "LT" THEN "AND" ELSE "OR", <<h, ops[2]>>)],
                          !.u = [s1.u EXCEPT ![ops[1]] = RmFirst(s1.u[ops[1]], l),
                                             ![h] = <<l>>],
                          !.b = addHelperBlocks(s1.b)]
       [] t \in {"GT", "GEQ"} ->
            LET s1 == DoAddGate(s, h, "NOT", <<ops[2]>>)
            IN [s1 EXCEPT !.g = [s1.g EXCEPT ![l] = Gate(IF t = "GT" THEN "AND" ELSE "OR", <<ops[1], h>>)],
                          !.u = [s1.u EXCEPT ![ops[2]] = RmFirst(s1.u[ops[2]], l),
                                             ![h] = <<l>>],
                          !.b = addHelperBlocks(s1.b)]
       [] t \in {"LIFF", "LNOT"} ->
            [s EXCEPT !.g = [s.g EXCEPT ![l] = Gate(IF t = "LIFF" THEN "IFF" ELSE "NOT", <<ops[1]>>)],
                      !.u = [s.u EXCEPT ![ops[2]] = RmFirst(s.u[ops[2]], l)]]
       [] t \in {"RIFF", "RNOT"} ->
            [s EXCEPT !.g = [s.g EXCEPT ![l] = Gate(IF t = "RIFF" THEN "IFF" ELSE "NOT", <<ops[2]>>)],
                      !.u = [s.u EXCEPT ![ops[1]] = RmFirst(s.u[ops[1]], l)]]
       [] t \in NullaryTypes ->
            LET x == s.i[1]
                s1 == DoAddGate(s, h, "NOT", <<x>>)
            IN [s1 EXCEPT !.g = [s1.g EXCEPT ![l] = Gate(IF t = "ALWAYS_TRUE" THEN "OR" ELSE "AND", <<x, h>>)],
                          !.u = [s1.u EXCEPT ![x] = s1.u[x] \o <<l>>, ![h] = <<l>>],
                          !.b = addHelperBlocks(s1.b)]
       [] OTHER -> s
DoIntoBench(s, Helper(_)) ==
  FoldLeft(LAMBDA acc, l : ConvertGate(acc, l, Helper(l)), s, SetToSeq(DOMAIN s.g))


(***************************  replace_subcircuit  *************************)
(* sub: abstract circuit; im / om: sequences of <<circuit label, subcircuit label>> pairs in
   the iteration order of the two dictionaries.  The call is a sequence of smaller steps
   (validation, renames, slice block, removal, insertion, users restoration, cycle check), each
   of which can fail; RS(...) threads [ok, s] through them exactly in the code's order, so that
   Pre = "every step passes" and Do = the final state.  The temporary block carries a fresh
   uuid-based name in the code ("block_for_deleting..."); it only survives when it has no member
   gate, and is ignored by the comparison (TempBlock). *)
PairKeys(q) == [j \in DOMAIN q |-> q[j][1]]
PairVals(q) == [j \in DOMAIN q |-> q[j][2]]
RenameAll(acc, q) ==
  FoldLeft(LAMBDA a, pr :
     IF ~a.ok \/ pr[1] = pr[2] THEN a
     ELSE IF PreRename(a.s, pr[1], pr[2]) THEN [ok |-> TRUE, s |-> DoRename(a.s, pr[1], pr[2])]
     ELSE [a EXCEPT !.ok = FALSE], acc, q)
TempBlockName == "block_for_deleting"
IsTempBlock(n) == Len(n) >= 18 /\ SubSeq(n, 1, 18) = TempBlockName
ReplaceSub(s0, sub, im, om) ==
  LET keysI == PairKeys(im)  valsI == PairVals(im)
      keysO == PairKeys(om)  valsO == PairVals(om)
      valid ==
        /\ SeqSet(keysI) \cap SeqSet(keysO) = {}
        /\ NoDup(keysI) /\ NoDup(keysO)
        /\ SeqSet(keysI) \cup SeqSet(keysO) \subseteq DOMAIN s0.g
        /\ SeqSet(valsO) \subseteq DOMAIN sub.g
        /\ \A j \in DOMAIN valsI : valsI[j] \in DOMAIN sub.g /\ sub.g[valsI[j]].t = "INPUT"
        /\ SeqSet(sub.i) \subseteq SeqSet(valsI)
        /\ WF1(sub) /\ WF5(sub)
  IN IF ~valid THEN [ok |-> FALSE, s |-> s0]
     ELSE
     LET r1 == RenameAll(RenameAll([ok |-> TRUE, s |-> s0], im), om)
     IN IF ~r1.ok THEN r1
     ELSE
     LET s1 == r1.s
         I == SeqSet(valsI)  O == SeqSet(valsO)
     IN IF ~(I \cup O \subseteq DOMAIN s1.g) \/ ~PreMakeSlice(s1, TempBlockName, valsI, valsO) THEN [ok |-> FALSE, s |-> s1]
     ELSE
     LET members == SliceGates(s1, valsI, valsO)
         outsOK == \A j \in DOMAIN s1.o : s1.o[j] \in members => s1.o[j] \in O
         noUsers == \A g \in members \ O : SeqSet(s1.u[g]) \subseteq members
         kept == [l \in O |-> SelectSeq(s1.u[l], LAMBDA w : w \notin members)]
     IN IF ~outsOK \/ ~noUsers THEN [ok |-> FALSE, s |-> s1]
     ELSE
     LET s2 == DoRemoveBlockU(s1, SetToSeq(members))
         \* with no member gate the temporary block is never removed
         s2b == IF members = {} THEN [s2 EXCEPT !.b = (TempBlockName :> [i |-> valsI, g |-> <<>>, o |-> valsO]) @@ s2.b] ELSE s2
         r3 == FoldLeft(LAMBDA a, l :
                  IF ~a.ok \/ l \in I THEN a
                  ELSE IF PreAddGate(a.s, l, sub.g[l].t, sub.g[l].o)
                       THEN [ok |-> TRUE, s |-> DoAddGate(a.s, l, sub.g[l].t, sub.g[l].o)]
                       ELSE [a EXCEPT !.ok = FALSE],
                [ok |-> TRUE, s |-> s2b], TopoSeq(sub))
     IN IF ~r3.ok THEN r3
     ELSE
     LET s3 == r3.s
         s4 == [s3 EXCEPT !.o = s1.o,
                          !.u = [x \in DOMAIN s3.u |-> IF x \in O THEN s3.u[x] \o kept[x] ELSE s3.u[x]]]
         \* the cycle check walks from the outputs only
         acyclic == LET R == Reach(s4, SeqSet(s4.o))
                        subnet == [s4 EXCEPT !.g = [x \in R |-> s4.g[x]]]
                    IN Layering(subnet, {}) = R
     IN [ok |-> (O \subseteq DOMAIN s3.g) /\ SeqSet(s1.o) \subseteq DOMAIN s3.g /\ acyclic, s |-> s4]
PreReplaceSub(s, sub, im, om) == ReplaceSub(s, sub, im, om).ok
DoReplaceSub(s, sub, im, om) == ReplaceSub(s, sub, im, om).s

(***************************  comparison used by the judge  ***************)
SameBag(a, b) == \A e \in SeqSet(a) \cup SeqSet(b) : Occ(a, e) = Occ(b, e)
(* equality of states up to the order inside users lists and block member lists *)
SameState(x, y) ==
  /\ x.g = y.g /\ x.i = y.i /\ x.o = y.o
  /\ DOMAIN x.u = DOMAIN y.u /\ \A l \in DOMAIN x.u : SameBag(x.u[l], y.u[l])
  /\ {n \in DOMAIN x.b : ~IsTempBlock(n)} = {n \in DOMAIN y.b : ~IsTempBlock(n)}
  /\ \A n \in {k \in DOMAIN x.b : ~IsTempBlock(k)} :
        /\ x.b[n].i = y.b[n].i /\ x.b[n].o = y.b[n].o
        /\ SameBag(x.b[n].g, y.b[n].g)
=============================================================================
