SPECIFICATION Spec
INVARIANT ModelsPreserve
INVARIANT ModelsAchieve
CHECK_DEADLOCK FALSE
CONSTANTS
 NI = 2
 NG = 2
 AMAX = 3
 Types = {"ALWAYS_TRUE","NOT","IFF","GT","LEQ","LIFF","RNOT","AND","XOR","NOR"}
