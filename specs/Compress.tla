------------------------------ MODULE Compress ------------------------------
(***************************************************************************)
(* Role D for C08: the column-compression machine behind the Dadda,        *)
(* Wallace, alternative and 2^k-1 multipliers, with EVERY schedule.        *)
(* A bit is the set of operand-value rows on which it is TRUE; `live` is   *)
(* the bag of <<bit, weight>> pairs that currently represent the product.  *)
(* Init places the partial products a_j AND b_i at weight (j-1)+(i-1);     *)
(* a step replaces any three (two) live bits of one weight by their sum    *)
(* bit at that weight and their carry one weight up - a full (half) adder. *)
(* TLC explores all schedules and checks at every state                    *)
(*   SumPreserved   sum over live of bit(r) * 2^weight = a(r) * b(r)       *)
(*   TopIsZero      a live bit of weight >= NA+NB is constant FALSE (the   *)
(*                  justification of dropping such carries, as Dadda and   *)
(*                  the truncating [: n+m] of the other multipliers do)    *)
(* and at every terminal state (at most one bit per weight) that the bits  *)
(* of weight k < NA+NB ARE the binary representation of the product.       *)
(* The recorded call traces of the real generators are validated against   *)
(* the same rules by the ledger (Ledger.tla).                              *)
(***************************************************************************)
EXTENDS Naturals, FiniteSets, Sequences, Bags, TLC
CONSTANTS NA, NB, MaxW

Rows == 0 .. (2 ^ (NA + NB) - 1)
AVal(r) == r % (2 ^ NA)
BVal(r) == r \div (2 ^ NA)
ABit(j) == {r \in Rows : (AVal(r) \div 2 ^ (j - 1)) % 2 = 1}
BBit(i) == {r \in Rows : (BVal(r) \div 2 ^ (i - 1)) % 2 = 1}

VARIABLE live
One(e) == SetToBag({e})
Init == live = [e \in {<<ABit(j) \cap BBit(i), (j - 1) + (i - 1)>> : j \in 1 .. NA, i \in 1 .. NB} |->
                  Cardinality({p \in (1 .. NA) \X (1 .. NB) : <<ABit(p[1]) \cap BBit(p[2]), (p[1] - 1) + (p[2] - 1)>> = e})]

Xor(x, y) == (x \ y) \cup (y \ x)
Maj(x, y, z) == (x \cap y) \cup (x \cap z) \cup (y \cap z)
Full == \E x \in BagToSet(live) :
          \E y \in BagToSet(live (-) One(x)) :
            \E z \in BagToSet((live (-) One(x)) (-) One(y)) :
               /\ x[2] = y[2] /\ y[2] = z[2] /\ x[2] < MaxW
               /\ live' = (((live (-) One(x)) (-) One(y)) (-) One(z))
                            (+) One(<<Xor(Xor(x[1], y[1]), z[1]), x[2]>>) (+) One(<<Maj(x[1], y[1], z[1]), x[2] + 1>>)
Half == \E x \in BagToSet(live) :
          \E y \in BagToSet(live (-) One(x)) :
               /\ x[2] = y[2] /\ x[2] < MaxW
               /\ live' = ((live (-) One(x)) (-) One(y)) (+) One(<<Xor(x[1], y[1]), x[2]>>) (+) One(<<x[1] \cap y[1], x[2] + 1>>)
Next == Full \/ Half
Spec == Init /\ [][Next]_live

ValueAt(r) == BagCardinality(live) * 0 +
  LET es == BagToSet(live)
      RECURSIVE S(_)
      S(T) == IF T = {} THEN 0 ELSE LET e == CHOOSE e \in T : TRUE IN
              (IF r \in e[1] THEN CopiesIn(e, live) * 2 ^ e[2] ELSE 0) + S(T \ {e})
  IN S(es)
SumPreserved == \A r \in Rows : ValueAt(r) = AVal(r) * BVal(r)
TopIsZero == \A e \in BagToSet(live) : e[2] >= NA + NB => e[1] = {}
Terminal == \A e \in BagToSet(live) : CopiesIn(e, live) = 1 /\ \A f \in BagToSet(live) : f # e => f[2] # e[2]
TerminalIsTheProduct ==
  Terminal => \A r \in Rows : \A k \in 0 .. (NA + NB - 1) :
     ((AVal(r) * BVal(r)) \div 2 ^ k) % 2 = (IF \E e \in BagToSet(live) : e[2] = k /\ r \in e[1] THEN 1 ELSE 0)
=============================================================================
