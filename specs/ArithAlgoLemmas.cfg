SPECIFICATION Spec
CONSTANT NMax = 9
CONSTANT WAdd = 4
CONSTANT WSub = 4
CONSTANT WDiv = 4
CONSTANT WSqrt = 8
CONSTANT WInc = 4
INVARIANT LevelInvariant
INVARIANT MinimalBitsAndBound
INVARIANT TrailingAddersDeadInXAIG
INVARIANT BasisRespected
INVARIANT AlgoIdentities
PROPERTY Terminates
CHECK_DEADLOCK FALSE
