SPECIFICATION Spec
CONSTANTS
 W = 7
 Ts = {4, 5, 6, 7}
INVARIANT ProductExact
CHECK_DEADLOCK FALSE
