------------------------- MODULE NormalizationLemmas -------------------------
EXTENDS Normalization, TLC
CONSTANTS N, M
VARIABLE t
Init == t \in UNION {[1 .. m -> SUBSET NRows(N)] : m \in 1 .. M}
Next == UNCHANGED t
Spec == Init /\ [][Next]_t
RoundTrip == Denorm(N, t, NormRows(N, t)) = t
KeyIsNormal ==
  LET k == NormRows(N, t)
  IN /\ \A j \in DOMAIN k : 0 \notin k[j]
     /\ \A j \in 1 .. (Len(k) - 1) : LexLeq(N, k[j], k[j + 1]) /\ k[j] # k[j + 1]
     /\ {k[j] : j \in DOMAIN k} = {NNeg(N, t[j]) : j \in DOMAIN t}
=============================================================================
