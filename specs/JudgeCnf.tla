------------------------------ MODULE JudgeCnf ------------------------------
(***************************************************************************)
(* C05: the circuit-to-CNF reduction is exact; C13: miters.                 *)
(* kind "cnf": c.c circuit, c.sel selected output indices (0-based),       *)
(*   c.cnf recorded clauses, c.exc.                                        *)
(* kind "csat": c.c, c.cnf (Cnf.from_circuit), c.answer, c.model.          *)
(* Exactness is decided by brute force over ALL assignments of the CNF     *)
(* variables.  Which variable stands for which gate is not observable      *)
(* through the public API, so two formulations are evaluated:              *)
(*   Strict: under the allocation model below (inputs 1..n, then gates in  *)
(*           depth-first post-order from the selected outputs) the CNF is  *)
(*           satisfied exactly by the assignments that extend Eval on every *)
(*           encoded gate and make all selected outputs true;              *)
(*   Free:   for every input assignment the CNF is satisfiable iff all     *)
(*           selected outputs are true, and its satisfying extension over  *)
(*           the variables occurring in it is unique.                      *)
(* A case is a VIOLATION only if both fail; Strict failing alone is DRIFT  *)
(* (the numbering differs from the model).  Dev_TseytinXorBinary is the     *)
(* named deviation "XOR/NXOR templates read only their first two operands".*)
(***************************************************************************)
EXTENDS JudgeCore, IOUtils

Dev == IF "DEV" \in DOMAIN IOEnv THEN IOEnv.DEV ELSE ""

RECURSIVE AllocGate(_, _, _)
AllocGate(c, m, l) ==
  IF l \in DOMAIN m THEN m
  ELSE LET m2 == FoldLeft(LAMBDA acc, op : AllocGate(c, acc, op), m, Ops(c, l))
       IN  (l :> (Cardinality(DOMAIN m2) + 1)) @@ m2
Alloc(c, sel) ==
  LET m0 == [x \in SeqSet(c.i) |-> Pos(c.i, x)]
  IN  FoldLeft(LAMBDA acc, k : AllocGate(c, acc, c.o[k + 1]), m0, sel)

MaxVar(cnf) == LET lits == UNION {{IF cnf[j][x] > 0 THEN cnf[j][x] ELSE -cnf[j][x] : x \in DOMAIN cnf[j]} : j \in DOMAIN cnf}
               IN IF lits = {} THEN 0 ELSE Max(lits)
VarsOf(cnf) == UNION {{IF cnf[j][x] > 0 THEN cnf[j][x] ELSE -cnf[j][x] : x \in DOMAIN cnf[j]} : j \in DOMAIN cnf}

(* the circuit the deviation would have encoded: n-ary XOR/NXOR truncated to two operands *)
DevCircuit(c) ==
  IF Dev = "Dev_TseytinXorBinary"
  THEN [c EXCEPT !.g = [l \in DOMAIN c.g |->
          IF c.g[l].t \in {"XOR", "NXOR"} /\ Len(c.g[l].o) > 2
          THEN [c.g[l] EXCEPT !.o = SubSeq(c.g[l].o, 1, 2)] ELSE c.g[l]]]
  ELSE c

AsgOfInputs(c, v) == [x \in SeqSet(c.i) |-> v[Pos(c.i, x)]]
CnfStrict(c0, sel, cnf) ==
  LET c == DevCircuit(c0)
      m == Alloc(c0, sel)
      nv == Max({Cardinality(DOMAIN m), MaxVar(cnf)})
  IN \A v \in [1 .. nv -> BOOLEAN] :
        CnfSat(v, cnf) <=>
          LET ev == EvalPoint(c, AsgOfInputs(c, v))
          IN /\ \A l \in DOMAIN m : v[m[l]] = ev[l]
             /\ \A j \in DOMAIN sel : ev[c.o[sel[j] + 1]]
             /\ nv = Cardinality(DOMAIN m)
CnfFree(c0, sel, cnf) ==
  LET c == DevCircuit(c0)
      n == Len(c.i)
      nv == Max({n, MaxVar(cnf)})
      occ == VarsOf(cnf) \cup (1 .. n)
  IN \A a \in [1 .. n -> BOOLEAN] :
       LET ext == {v \in [1 .. nv -> BOOLEAN] : (\A j \in 1 .. n : v[j] = a[j]) /\ CnfSat(v, cnf)}
           proj == {[x \in occ |-> v[x]] : v \in ext}
           ev == EvalPoint(c, [x \in SeqSet(c.i) |-> a[Pos(c.i, x)]])
       IN /\ (ext # {}) <=> (\A j \in DOMAIN sel : ev[c.o[sel[j] + 1]])
          /\ Cardinality(proj) <= 1

CnfLiteralsOK(cnf) == \A j \in DOMAIN cnf : \A q \in DOMAIN cnf[j] : cnf[j][q] # 0
C05CnfFails(c) ==
  IF c.exc # "" THEN {"tseytin-raised:" \o c.exc}
  \* a literal is a non-zero integer (a clause list with a 0 in it is no CNF: reported, the exactness clause needs literals)
  ELSE IF ~CnfLiteralsOK(c.cnf) THEN {"cnf-contains-the-literal-0"}
  ELSE FailSet(<< <<"cnf-not-exact", CnfStrict(c.c, c.sel, c.cnf) \/ CnfFree(c.c, c.sel, c.cnf)>> >>)
C05CnfDrift(c) ==
  IF c.exc = "" /\ CnfLiteralsOK(c.cnf) /\ Dev = "" /\ ~CnfStrict(c.c, c.sel, c.cnf) /\ CnfFree(c.c, c.sel, c.cnf)
  THEN {"cnf-variable-allocation-differs-from-model"} ELSE {}

(***************************************************************************)
(* kind "cnfdeep": circuits with more than a thousand gates on one path.    *)
(* Brute force over the CNF variables is out of reach, so the CNF is read   *)
(* as what a Tseytin encoding is - a list of definitions: with the input    *)
(* variables fixed, the clauses whose largest variable is k must leave      *)
(* exactly one value for k given the values of the smaller variables        *)
(* ("sat", unique extension), or none ("unsat").  If both values remain for *)
(* some k the CNF is not in that form and the case is not decided (DRIFT).  *)
(* c.order is a witness order of the gates (checked on the way).            *)
(***************************************************************************)
AbsLit(x) == IF x > 0 THEN x ELSE -x
(* clause indices by largest variable, built in one pass (values threaded through fold accumulators are concrete;
   operator arguments and LET definitions used inside a LAMBDA would be re-evaluated at every step) *)
DeepBy(cnf, nv) ==
  FoldLeft(LAMBDA acc, j :
             LET m == Max({AbsLit(cnf[j][q]) : q \in DOMAIN cnf[j]} \cup {0})
             IN  IF m = 0 THEN acc ELSE [acc EXCEPT ![m] = @ \cup {j}],
           [k \in 1 .. nv |-> {}], [j \in DOMAIN cnf |-> j])
(* one pass from variable k0 with the true-set T0: ends with r = "sat" / "unsat", or stops at the first variable k
   (r = "free", at = k) whose clauses leave both values *)
DeepRun(ctx, k0, T0) ==
  FoldLeft(LAMBDA acc, k :
     IF acc.r # "go" THEN acc
     ELSE LET holds(cl, b) == \E q \in DOMAIN cl :
                                LET x == cl[q]  v == AbsLit(x)
                                IN  IF v = k THEN (x > 0) = b ELSE (x > 0) = (v \in acc.T)
              ok(b) == \A j \in acc.ctx.by[k] : holds(acc.ctx.cnf[j], b)
          IN IF k <= acc.ctx.n
             THEN (IF ok(acc.ctx.a[k]) THEN [acc EXCEPT !.T = IF acc.ctx.a[k] THEN @ \cup {k} ELSE @] ELSE [acc EXCEPT !.r = "unsat"])
             ELSE IF ok(TRUE) /\ ok(FALSE) THEN [acc EXCEPT !.r = "free", !.at = k]
             ELSE IF ok(TRUE) THEN [acc EXCEPT !.T = @ \cup {k}]
             ELSE IF ok(FALSE) THEN acc
             ELSE [acc EXCEPT !.r = "unsat"],
   [r |-> IF \E j \in DOMAIN ctx.cnf : ctx.cnf[j] = <<>> THEN "unsat" ELSE "go", T |-> T0, at |-> 0, ctx |-> ctx],
   [k \in 1 .. (ctx.nv - k0 + 1) |-> k0 + k - 1])
(* a variable that is free at its own position may still be constrained by a LATER clause (it is then not defined by
   smaller variables: an under-constrained or differently shaped CNF): both values are tried, up to `budget` such
   variables per input assignment; beyond that the case is not decided.  Result: [res, multi] *)
RECURSIVE DeepSolve(_, _, _, _)
DeepSolve(ctx, k0, T0, budget) ==
  LET run == DeepRun(ctx, k0, T0) IN
  IF run.r = "go" THEN [res |-> "sat", multi |-> FALSE]
  ELSE IF run.r = "unsat" THEN [res |-> "unsat", multi |-> FALSE]
  ELSE IF budget = 0 THEN [res |-> "undecided", multi |-> FALSE]
  ELSE LET f == DeepSolve(ctx, run.at + 1, run.T, budget - 1)
           t == DeepSolve(ctx, run.at + 1, run.T \cup {run.at}, budget - 1)
       IN IF f.res = "undecided" \/ t.res = "undecided" THEN [res |-> "undecided", multi |-> FALSE]
          ELSE IF f.res = "sat" /\ t.res = "sat" THEN [res |-> "sat", multi |-> TRUE]
          ELSE IF f.res = "sat" THEN f ELSE IF t.res = "sat" THEN t
          ELSE [res |-> "unsat", multi |-> FALSE]
DeepVerdicts(c) ==       \* one record per input assignment
  LET n == Len(c.c.i)
      nv == Max({n, MaxVar(c.cnf)})
      pre == [by |-> DeepBy(c.cnf, nv), G |-> AsFcn(c.c.g)]
  IN [a \in [1 .. n -> BOOLEAN] |->
        LET run == DeepSolve([cnf |-> c.cnf, by |-> pre.by, n |-> n, nv |-> nv, a |-> a], 1, {}, 6)
            ev == EvalChecked(pre.G, c.order, [l \in SeqSet(c.c.i) |-> IF a[Pos(c.c.i, l)] THEN {0} ELSE {}], {0})
            evok == ev.ok /\ \A j \in DOMAIN c.sel : c.c.o[c.sel[j] + 1] \in DOMAIN ev.v
        IN [res |-> IF run.res = "undecided" THEN "free" ELSE run.res,
            multi |-> run.multi,
            evok |-> evok,
            want |-> evok /\ \A j \in DOMAIN c.sel : 0 \in ev.v[c.c.o[c.sel[j] + 1]]]]
C05DeepFails(c) ==
  IF c.exc # "" THEN {"tseytin-raised:" \o c.exc}
  ELSE IF ~CnfLiteralsOK(c.cnf) THEN {"cnf-contains-the-literal-0"}
  ELSE LET vs == DeepVerdicts(c) IN
       FailSet(<< <<"deep-cnf-not-exact",
                    \A a \in DOMAIN vs : ~vs[a].evok \/ vs[a].res = "free" \/ ((vs[a].res = "sat") <=> vs[a].want)>>,
                  \* the satisfying extension is unique (it gives every encoded gate its evaluated value)
                  <<"deep-cnf-leaves-a-variable-unconstrained",
                    \A a \in DOMAIN vs : ~vs[a].evok \/ vs[a].res # "sat" \/ ~vs[a].multi>> >>)
C05DeepDrift(c) ==
  IF c.exc # "" \/ ~CnfLiteralsOK(c.cnf) THEN {}
  ELSE LET vs == DeepVerdicts(c) IN
       (IF \E a \in DOMAIN vs : vs[a].res = "free" THEN {"deep-cnf-not-a-list-of-definitions(undecided)"} ELSE {}) \cup
       (IF \E a \in DOMAIN vs : ~vs[a].evok THEN {"deep-case-witness-order-not-operands-first(undecided)"} ELSE {})

(* kind "csatdeep": the satisfiability query on such a circuit (c.sel = all outputs) *)
C05DeepSatFails(c) ==
  IF c.exc # "" THEN {"is_circuit_satisfiable-raised:" \o c.exc}
  ELSE IF ~CnfLiteralsOK(c.cnf) THEN {"cnf-contains-the-literal-0"}
  ELSE LET vs == DeepVerdicts(c)
           n == Len(c.c.i)
           T == {x \in DOMAIN c.model : c.model[x] > 0}
           am == [j \in 1 .. n |-> j \in T]
       IN IF \E a \in DOMAIN vs : ~vs[a].evok THEN {}
          ELSE FailSet(<<
            <<"answer", c.answer = (\E a \in DOMAIN vs : vs[a].want)>>,
            <<"model-has-variable-per-position", \A x \in DOMAIN c.model : c.model[x] = x \/ c.model[x] = -x>>,
            <<"model-satisfies-cnf", ~c.answer \/
                \A j \in DOMAIN c.cnf : \E q \in DOMAIN c.cnf[j] :
                   LET x == c.cnf[j][q] IN (x > 0) = (AbsLit(x) \in T)>>,
            <<"model-projects-to-satisfying-input", ~c.answer \/ Len(c.model) < n \/ vs[am].want>>
          >>)

AllOutputsTrueSomewhere(c) ==
  LET tt == GateTT(c)  all == AllRows(Len(c.i))
  IN  InterAll([k \in DOMAIN c.o |-> tt[c.o[k]]], all) # {}
C05SatFails(c) ==
  IF c.exc # "" THEN {"is_circuit_satisfiable-raised:" \o c.exc}
  ELSE IF Has(c, "cnf") /\ ~CnfLiteralsOK(c.cnf) THEN {"cnf-contains-the-literal-0"}
  ELSE LET ck == DevCircuit(c.c)
           n == Len(ck.i)
           nv == Max({n, MaxVar(c.cnf), Len(c.model)})
           v == [x \in 1 .. nv |-> IF x <= Len(c.model) THEN c.model[x] > 0 ELSE FALSE]
       IN FailSet(<<
         <<"answer", c.answer = AllOutputsTrueSomewhere(ck)>>,
         <<"model-has-variable-per-position", \A x \in DOMAIN c.model : c.model[x] = x \/ c.model[x] = -x>>,
         <<"model-satisfies-cnf", ~c.answer \/ CnfSat(v, c.cnf)>>,
         <<"model-projects-to-satisfying-input", ~c.answer \/
             LET ev == EvalPoint(ck, [x \in SeqSet(ck.i) |-> v[Pos(ck.i, x)]])
             IN \A k \in DOMAIN ck.o : ev[ck.o[k]]>>
       >>)

(* kind "miterdeep": operands with one path of more than a thousand gates.  c.l / c.r / c.m projections with witness orders
   c.l_order / c.r_order / c.m_order; c.sat the answer of the satisfiability query on the miter.  Linear clauses. *)
C13DeepFails(c) ==
  IF c.exc # "" THEN {"build_miter-raised:" \o c.exc}
  ELSE LET all == AllRows(Len(c.l.i))
           a == EvalChecked(AsFcn(c.l.g), c.l_order, InputCols(c.l), all)
           b == EvalChecked(AsFcn(c.r.g), c.r_order, InputCols(c.r), all)
           m == EvalChecked(AsFcn(c.m.g), c.m_order, InputCols(c.m), all)
           diff == UNION {(a.v[c.l.o[k]] \ b.v[c.r.o[k]]) \cup (b.v[c.r.o[k]] \ a.v[c.l.o[k]]) : k \in DOMAIN c.l.o}
       IN IF ~a.ok \/ ~b.ok THEN {}
          ELSE FailSet(<<
            <<"miter-ill-formed", m.ok /\ SeqSet(c.m.o) \subseteq DOMAIN m.v>>,
            <<"miter-inputs", Len(c.m.i) = Len(c.l.i)>>,
            <<"miter-has-exactly-one-output", Len(c.m.o) = 1>>,
            <<"miter-true-exactly-where-operands-differ",
                ~m.ok \/ Len(c.m.o) # 1 \/ Len(c.m.i) # Len(c.l.i) \/ ~(SeqSet(c.m.o) \subseteq DOMAIN m.v) \/ m.v[c.m.o[1]] = diff>>,
            <<"miter-satisfiability-answer", c.sat_exc = "" /\ c.sat = (diff # {})>>
          >>)

(************************************  C13  ********************************)
(* kind "miter": c.l, c.r operand circuits (before), c.l_after, c.r_after, c.m miter
   projection or c.exc; c.sat (answer of is_circuit_satisfiable(miter)) *)
C13Fails(c) ==
  LET same_shape == Len(c.l.i) = Len(c.r.i) /\ Len(c.l.o) = Len(c.r.o) IN
  IF ~same_shape
  THEN FailSet(<< <<"mismatched-shapes-not-rejected-with-MiterDifferentShapesError", c.exc = "MiterDifferentShapesError">> >>)
  ELSE IF c.exc # "" THEN {"build_miter-raised:" \o c.exc}
  ELSE LET m == c.m
           n == Len(c.l.i)
           tl == TT(c.l)  tr == TT(c.r)
           differ == UNION {SymDiff(tl[k], tr[k]) : k \in DOMAIN tl}
       IN FailSet(<<
         <<"operands-modified", c.l_after = c.l /\ c.r_after = c.r>>,
         <<"miter-wellformed", WFFails(m) = {} /\ ArityWF(m)>>,
         <<"miter-input-count", Len(m.i) = n>>,
         <<"miter-single-output", Len(m.o) = 1>>,
         <<"miter-true-exactly-where-operands-differ",
             WFFails(m) # {} \/ ~ArityWF(m) \/ Len(m.i) # n \/ Len(m.o) # 1 \/ TT(m)[1] = differ>>,
         <<"miter-evaluation:" \o c.eval_exc, c.eval_exc = "">>,
         <<"miter-evaluated-table", c.eval_exc # "" \/ SeqSet(c.eval_rows) = differ>>,
         <<"satisfiable-iff-not-equivalent", c.sat_exc # "" \/ c.sat = (differ # {})>>
       >>)
=============================================================================
