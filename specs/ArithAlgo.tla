------------------------------ MODULE ArithAlgo ------------------------------
(***************************************************************************)
(* Algorithm-level models of the arithmetic generators (C07, C09): every   *)
(* generator is transcribed as the NETLIST BUILDER it is.  A builder state *)
(* is  b = [n |-> number of references in use, g |-> emitted gates];       *)
(* references 1..K denote the operand pool handed to the generator (the    *)
(* caller's labels, repeats allowed), reference K+j the j-th emitted gate. *)
(* A gate is [t |-> type, o |-> operand references].                       *)
(*                                                                         *)
(* The bit-count generator (_add_sum_n_bits: MDFA / Stockmeyer blocks      *)
(* carrying (x, x xor y) pairs between levels) is an explicit state        *)
(* machine (SumInit / SumStep) whose level invariant is checked by TLC in  *)
(* ArithAlgoLemmas; the other generators are compositions of it.           *)
(*                                                                         *)
(* Uses: (D) ArithAlgoLemmas - every builder satisfies its arithmetic      *)
(* identity on every operand value for small widths, the bit-count machine *)
(* keeps its level invariant at every step; (O, drift) JudgeArith compares *)
(* the netlist the code emitted, gate by gate, with the model's netlist.   *)
(***************************************************************************)
EXTENDS Naturals, Integers, Sequences, FiniteSets, SequencesExt, GateSemantics

(* arithmetics/_utils.binary_tt_to_type *)
CodeType(c) ==
  CASE c = "0001" -> "AND"   [] c = "1011" -> "GEQ"   [] c = "0010" -> "GT"   [] c = "0000" -> "ALWAYS_FALSE"
    [] c = "1101" -> "LEQ"   [] c = "0011" -> "LIFF"  [] c = "1100" -> "LNOT" [] c = "0100" -> "LT"
    [] c = "1110" -> "NAND"  [] c = "1000" -> "NOR"   [] c = "1111" -> "ALWAYS_TRUE" [] c = "1001" -> "NXOR"
    [] c = "0111" -> "OR"    [] c = "0101" -> "RIFF"  [] c = "1010" -> "RNOT" [] c = "0110" -> "XOR"
AllCodes == {"0000", "0001", "0010", "0011", "0100", "0101", "0110", "0111",
             "1000", "1001", "1010", "1011", "1100", "1101", "1110", "1111"}

Fresh(k) == [n |-> k, g |-> <<>>]
Abs(base, r) == IF r < 0 THEN base - r ELSE r
(* a straight-line block: prog[j] = <<code, l, r>>, a negative operand -i is the i-th gate of the block *)
Blk(b, prog, outs) ==
  [b |-> [n |-> b.n + Len(prog),
          g |-> b.g \o [j \in 1 .. Len(prog) |->
                  [t |-> CodeType(prog[j][1]), o |-> <<Abs(b.n, prog[j][2]), Abs(b.n, prog[j][3])>>]]],
   out |-> [j \in 1 .. Len(outs) |-> b.n + outs[j]]]
Emit(b, gt) == [b |-> [n |-> b.n + 1, g |-> Append(b.g, gt)], out |-> <<b.n + 1>>]
DropLast(s, k) == SubSeq(s, 1, Len(s) - k)

(* ------------------------------ blocks (summation.py, subtraction.py) ------------------------------ *)
Sum2(b, x1, x2)     == Blk(b, << <<"0110", x1, x2>>, <<"0001", x1, x2>> >>, <<1, 2>>)
Sum3(b, x1, x2, x3) == Blk(b, << <<"0110", x1, x2>>, <<"0110", x2, x3>>, <<"0111", -1, -2>>, <<"0110", -1, x3>>, <<"0110", -3, -4>> >>, <<4, 5>>)
Sum2Aig(b, x1, x2)  == Blk(b, << <<"0111", x1, x2>>, <<"0001", x1, x2>>, <<"0010", -1, -2>> >>, <<3, 2>>)
Sum3Aig(b, x1, x2, x3) ==
  Blk(b, << <<"0111", x1, x2>>, <<"0001", x1, x2>>, <<"0010", -1, -2>>, <<"0111", -3, x3>>, <<"0001", -3, x3>>,
            <<"0010", -4, -5>>, <<"0111", -2, -5>> >>, <<6, 7>>)
(* given x1, x2 and x2 xor x3: binary representation of x1 + x2 + x3 *)
Stock(b, x1, x2, x23) == Blk(b, << <<"0110", x1, x23>>, <<"0010", x2, x23>>, <<"0001", x1, x23>>, <<"0110", -2, -3>> >>, <<1, 4>>)
(* MDFA: z, (x1, x1 xor y1), (x2, x2 xor y2)  ->  sum bit, (carry a, a xor carry b) *)
Mdfa(b, z, x1, xy1, x2, xy2) ==
  Blk(b, << <<"0110", x1, z>>, <<"0111", xy1, -1>>, <<"0110", xy1, z>>, <<"0110", -2, -3>>, <<"0110", x2, -3>>,
            <<"0110", -3, xy2>>, <<"0010", -5, xy2>>, <<"0110", -2, -7>> >>, <<6, 4, 8>>)
SMdfa(b, x1, xy1, x2, xy2) ==
  Blk(b, << <<"0111", xy1, x1>>, <<"0110", -1, xy1>>, <<"0110", x2, xy1>>, <<"0110", xy1, xy2>>, <<"0010", -3, xy2>>,
            <<"0110", -1, -5>> >>, <<4, 2, 6>>)
Sub2(b, x1, x2)     == Blk(b, << <<"0110", x1, x2>>, <<"0100", x1, x2>> >>, <<1, 2>>)
Sub3(b, x0, x1, x2) == Blk(b, << <<"0110", x0, x1>>, <<"0110", x1, x2>>, <<"0111", -1, -2>>, <<"0110", x2, -1>>, <<"0110", x0, -3>> >>, <<4, 5>>)

(* ------------------------------ the bit-count machine ------------------------------ *)
(* summation._add_sum_n_bits (basis "XAIG") and _add_sum_n_bits_aig (basis "AIG"): work lists
   solo / pairs of the current level, nsolo / npairs of the next one, res = finished bits.
   The end of a sequence is the end of the Python list. *)
SumInit(b, labels, basis) ==
  [b |-> b, solo |-> labels, pairs |-> <<>>, nsolo |-> <<>>, npairs |-> <<>>, res |-> <<>>, basis |-> basis,
   pc |-> IF basis = "XAIG" THEN "pair" ELSE "outer"]

SumStep(s) ==
  LET k == Len(s.solo)  q == Len(s.pairs) IN
  CASE s.pc = "pair" ->
         IF k > 1 THEN LET r == Blk(s.b, << <<"0110", s.solo[k], s.solo[k - 1]>> >>, <<1>>)
                       IN [s EXCEPT !.b = r.b, !.pairs = Append(@, <<s.solo[k], r.out[1]>>), !.solo = DropLast(@, 2)]
         ELSE [s EXCEPT !.pc = "outer"]
    [] s.pc = "outer" -> IF k > 0 \/ q > 0 THEN [s EXCEPT !.pc = "mdfa"] ELSE [s EXCEPT !.pc = "done"]
    [] s.pc = "mdfa" ->
         IF q > 1 THEN
           LET p1 == s.pairs[q]  p2 == s.pairs[q - 1] IN
           IF k > 0 THEN LET r == Mdfa(s.b, s.solo[k], p1[1], p1[2], p2[1], p2[2])
                         IN [s EXCEPT !.b = r.b, !.pairs = DropLast(@, 2), !.solo = Append(DropLast(@, 1), r.out[1]),
                                      !.npairs = Append(@, <<r.out[2], r.out[3]>>)]
           ELSE LET r == SMdfa(s.b, p1[1], p1[2], p2[1], p2[2])
                IN [s EXCEPT !.b = r.b, !.pairs = DropLast(@, 2), !.solo = Append(@, r.out[1]),
                             !.npairs = Append(@, <<r.out[2], r.out[3]>>)]
         ELSE [s EXCEPT !.pc = "single"]
    [] s.pc = "single" ->
         IF q = 1 THEN
           LET p == s.pairs[1] IN
           IF k > 0 THEN LET r == Stock(s.b, s.solo[k], p[1], p[2])
                         IN [s EXCEPT !.b = r.b, !.solo = Append(DropLast(@, 1), r.out[1]), !.pairs = <<>>,
                                      !.nsolo = Append(@, r.out[2]), !.pc = "sum3"]
           ELSE LET r == Blk(s.b, << <<"0010", p[1], p[2]>> >>, <<1>>)
                IN [s EXCEPT !.b = r.b, !.solo = Append(@, p[2]), !.pairs = <<>>, !.nsolo = Append(@, r.out[1]), !.pc = "sum3"]
         ELSE [s EXCEPT !.pc = "sum3"]
    [] s.pc = "sum3" ->
         IF k > 2 THEN LET r == IF s.basis = "XAIG" THEN Sum3(s.b, s.solo[k], s.solo[k - 1], s.solo[k - 2])
                                 ELSE Sum3Aig(s.b, s.solo[k], s.solo[k - 1], s.solo[k - 2])
                       IN [s EXCEPT !.b = r.b, !.solo = Append(DropLast(@, 3), r.out[1]), !.nsolo = Append(@, r.out[2])]
         ELSE [s EXCEPT !.pc = "sum2"]
    [] s.pc = "sum2" ->
         IF k > 1 THEN LET r == IF s.basis = "XAIG" THEN Sum2(s.b, s.solo[k], s.solo[k - 1])
                                 ELSE Sum2Aig(s.b, s.solo[k], s.solo[k - 1])
                       IN [s EXCEPT !.b = r.b, !.solo = Append(DropLast(@, 2), r.out[1]), !.nsolo = Append(@, r.out[2]), !.pc = "emit"]
         ELSE [s EXCEPT !.pc = "emit"]
    [] s.pc = "emit" ->
         [s EXCEPT !.res = Append(@, s.solo[1]), !.solo = s.nsolo, !.pairs = s.npairs, !.nsolo = <<>>, !.npairs = <<>>, !.pc = "outer"]
    [] OTHER -> s

RECURSIVE SumRun(_)
SumRun(s) == IF s.pc = "done" THEN s ELSE SumRun(SumStep(s))
SumNBits(b, labels, basis) == LET f == SumRun(SumInit(b, labels, basis)) IN [b |-> f.b, out |-> f.res]

(* ------------------------------ two-number adders ------------------------------ *)
(* operands are LITTLE-ENDIAN reference sequences (the code reverses big-endian ones first) *)
RECURSIVE SumTwoLoop(_, _, _, _, _, _)
SumTwoLoop(b, A, B, i, carry, acc) ==
  IF i > Len(A) THEN [b |-> b, out |-> Append(acc, carry)]
  ELSE LET inp == IF i <= Len(B) THEN <<carry, A[i], B[i]>> ELSE <<carry, A[i]>>
           r == SumNBits(b, inp, "XAIG")
       IN SumTwoLoop(r.b, A, B, i + 1, r.out[2], Append(acc, r.out[1]))
SumTwo(b, A0, B0) ==
  LET sw == Len(A0) < Len(B0)
      A == IF sw THEN B0 ELSE A0
      B == IF sw THEN A0 ELSE B0
      d0 == SumNBits(b, <<A[1], B[1]>>, "XAIG")
  IN SumTwoLoop(d0.b, A, B, 2, d0.out[2], <<d0.out[1]>>)

SumTwoShift(b, shift, A, B) ==
  LET n == Len(A) IN
  IF shift >= n THEN
    IF shift # n THEN LET z == Blk(b, << <<"0000", A[1], A[1]>> >>, <<1>>)
                      IN [b |-> z.b, out |-> A \o [j \in 1 .. (shift - n) |-> z.out[1]] \o B]
    ELSE [b |-> b, out |-> A \o B]
  ELSE LET r == SumTwo(b, SubSeq(A, shift + 1, n), B) IN [b |-> r.b, out |-> SubSeq(A, 1, shift) \o r.out]

(* ------------------------------ subtraction ------------------------------ *)
RECURSIVE SubLoop(_, _, _, _, _, _, _)
SubLoop(b, A, B, i, bal, acc, strict) ==      \* strict: both operands have the same length (subtract-with-compare)
  IF i > Len(A) THEN [b |-> b, out |-> acc, bal |-> bal]
  ELSE LET r == IF i <= Len(B) THEN Sub3(b, A[i], B[i], bal) ELSE Sub2(b, A[i], bal)
       IN SubLoop(r.b, A, B, i + 1, r.out[2], Append(acc, r.out[1]), strict)
SubTwo(b, A, B) == LET r0 == Sub2(b, A[1], B[1]) IN SubLoop(r0.b, A, B, 2, r0.out[2], <<r0.out[1]>>, FALSE)
SubCmp(b, A0, B0) ==
  LET z == Blk(b, << <<"0000", A0[1], B0[1]>> >>, <<1>>)
      w == IF Len(A0) >= Len(B0) THEN Len(A0) ELSE Len(B0)
      A == A0 \o [j \in 1 .. (w - Len(A0)) |-> z.out[1]]
      B == B0 \o [j \in 1 .. (w - Len(B0)) |-> z.out[1]]
      r0 == Sub2(z.b, A[1], B[1])
  IN SubLoop(r0.b, A, B, 2, r0.out[2], <<r0.out[1]>>, TRUE)

(* ------------------------------ multiplexing loops of div_mod / sqrt ------------------------------ *)
(* for j = 1..Len(sub): now[off + j] := OR(c1(sel, sub[j]), c2(now[off + j], sel)) *)
RECURSIVE Mux(_, _, _, _, _, _, _, _)
Mux(b, now, off, sub, sel, c1, c2, j) ==
  IF j > Len(sub) THEN [b |-> b, now |-> now]
  ELSE LET r == Blk(b, << <<c1, sel, sub[j]>>, <<c2, now[off + j], sel>>, <<"0111", -1, -2>> >>, <<3>>)
       IN Mux(r.b, [now EXCEPT ![off + j] = r.out[1]], off, sub, sel, c1, c2, j + 1)

(* ------------------------------ restoring division (div_mod.add_div_mod) ------------------------------ *)
RECURSIVE PrefLoop(_, _, _, _)
PrefLoop(b, B, pref, i) ==          \* i = Python index n-2 .. 1
  IF i < 1 THEN [b |-> b, pref |-> pref]
  ELSE LET r == Blk(b, << <<"0111", pref[Len(pref)], B[i + 1]>> >>, <<1>>) IN PrefLoop(r.b, B, Append(pref, r.out[1]), i - 1)
RECURSIVE DivLoop(_, _, _, _, _, _)
DivLoop(b, now, B, pref, result, i) ==       \* i = Python shift n-1 .. 1
  IF i < 1 THEN [b |-> b, now |-> now, result |-> result]
  ELSE LET n == Len(B)
           m == n - i
           sc == SubCmp(b, SubSeq(now, n - m + 1, n), SubSeq(B, 1, m))
           q == Blk(sc.b, << <<"1000", pref[i], sc.bal>> >>, <<1>>)
           mx == Mux(q.b, now, n - m, sc.out, q.out[1], "0001", "0010", 1)
       IN DivLoop(mx.b, mx.now, B, pref, [result EXCEPT ![i + 1] = q.out[1]], i - 1)
RECURSIVE AndAll(_, _, _, _)
AndAll(b, xs, z, j) == IF j > Len(xs) THEN [b |-> b, out |-> xs]
                       ELSE LET r == Blk(b, << <<"0001", xs[j], z>> >>, <<1>>) IN AndAll(r.b, [xs EXCEPT ![j] = r.out[1]], z, j + 1)
DivMod(b, A, B) ==
  LET n == Len(A)
      pl == PrefLoop(b, B, <<B[n]>>, n - 2)
      dl == DivLoop(pl.b, A, B, pl.pref, [j \in 1 .. n |-> 0], n - 1)
      sc == SubCmp(dl.b, dl.now, B)
      q == Blk(sc.b, << <<"1000", sc.bal, sc.bal>> >>, <<1>>)
      mx == Mux(q.b, dl.now, 0, sc.out, q.out[1], "0001", "0010", 1)
      nz == Blk(mx.b, << <<"0111", pl.pref[Len(pl.pref)], B[1]>> >>, <<1>>)
      rq == AndAll(nz.b, [dl.result EXCEPT ![1] = q.out[1]], nz.out[1], 1)
      rm == AndAll(rq.b, mx.now, nz.out[1], 1)
  IN [b |-> rm.b, q |-> rq.out, r |-> rm.out]

(* ------------------------------ digit-by-digit square root (sqrt.add_sqrt) ------------------------------ *)
RECURSIVE SqrtLoop(_, _, _, _, _, _, _)
SqrtLoop(b, x, c, zero, uno, n, st) ==
  IF st < 0 THEN [b |-> b, c |-> c]
  ELSE LET lo == 2 * st
           s1 == SumTwo(b, SubSeq(c, lo + 1, n), <<uno>>)
           sm1 == DropLast(s1.out, 1)
           sc == SubCmp(s1.b, SubSeq(x, lo + 1, n), sm1)
           mx == Mux(sc.b, x, lo, sc.out, sc.bal, "0100", "0001", 1)
           c2 == Append(Tail(c), zero)
           s2 == SumTwo(mx.b, SubSeq(c2, lo + 1, n), <<uno>>)
           sm2 == DropLast(s2.out, 1)
           mc == Mux(s2.b, c2, lo, sm2, sc.bal, "0100", "0001", 1)
       IN SqrtLoop(mc.b, mx.now, mc.now, zero, uno, n, st - 1)
Sqrt(b, X0) ==
  LET n0 == Len(X0)
      zu == Blk(b, << <<"0110", X0[1], X0[1]>>, <<"1001", X0[1], X0[1]>> >>, <<1, 2>>)
      odd == n0 % 2 = 1
      n == IF odd THEN n0 + 1 ELSE n0
      half == n \div 2
      x == IF odd THEN Append(X0, zu.out[1]) ELSE X0
      r == SqrtLoop(zu.b, x, [j \in 1 .. n |-> zu.out[1]], zu.out[1], zu.out[2], n, half - 1)
  IN [b |-> r.b, out |-> SubSeq(r.c, 1, half)]

(* ------------------------------ gadgets (generation.py, equality.py) ------------------------------ *)
(* plus-one: carries[0] = IFF(x0), result[0] = NOT(x0), ... ; result references are returned *)
RECURSIVE IncLoop(_, _, _, _, _, _)
IncLoop(b, X, ol, i, carry, acc) ==        \* i = Python index 1 .. ol-1
  IF i >= ol THEN [b |-> b, out |-> acc]
  ELSE IF i < Len(X) THEN
         IF i < ol - 1 THEN
           LET c == Emit(b, [t |-> "AND", o |-> <<X[i + 1], carry>>])
               r == Emit(c.b, [t |-> "XOR", o |-> <<X[i + 1], carry>>])
           IN IncLoop(r.b, X, ol, i + 1, c.out[1], Append(acc, r.out[1]))
         ELSE LET r == Emit(b, [t |-> "XOR", o |-> <<X[i + 1], carry>>]) IN IncLoop(r.b, X, ol, i + 1, carry, Append(acc, r.out[1]))
       ELSE IF i = Len(X) THEN LET r == Emit(b, [t |-> "IFF", o |-> <<carry>>]) IN IncLoop(r.b, X, ol, i + 1, carry, Append(acc, r.out[1]))
       ELSE LET r == Emit(b, [t |-> "ALWAYS_FALSE", o |-> <<>>]) IN IncLoop(r.b, X, ol, i + 1, carry, Append(acc, r.out[1]))
PlusOne(b, X, ol) ==
  LET c0 == Emit(b, [t |-> "IFF", o |-> <<X[1]>>])
      r0 == Emit(c0.b, [t |-> "NOT", o |-> <<X[1]>>])
  IN IncLoop(r0.b, X, ol, 1, c0.out[1], <<r0.out[1]>>)

(* equality with a constant that fits: cbits = LE bits of the constant, Len(cbits) = Len(X) *)
RECURSIVE EqLits(_, _, _, _, _)
EqLits(b, X, cbits, j, acc) ==
  IF j > Len(X) THEN [b |-> b, out |-> acc]
  ELSE IF cbits[j] THEN EqLits(b, X, cbits, j + 1, Append(acc, X[j]))
       ELSE LET r == Emit(b, [t |-> "NOT", o |-> <<X[j]>>]) IN EqLits(r.b, X, cbits, j + 1, Append(acc, r.out[1]))
RECURSIVE EqAnd(_, _, _, _)
EqAnd(b, lits, j, last) ==
  IF j > Len(lits) THEN [b |-> b, out |-> <<last>>]
  ELSE LET r == Emit(b, [t |-> "AND", o |-> <<last, lits[j]>>]) IN EqAnd(r.b, lits, j + 1, r.out[1])
Equal(b, X, fits, cbits) ==
  IF ~fits THEN Emit(b, [t |-> "ALWAYS_FALSE", o |-> <<>>])
  ELSE LET l == EqLits(b, X, cbits, 1, <<>>) IN
       IF Len(l.out) = 1 THEN [b |-> l.b, out |-> <<l.out[1]>>]
       ELSE LET r == Emit(l.b, [t |-> "AND", o |-> <<l.out[1], l.out[2]>>]) IN EqAnd(r.b, l.out, 3, r.out[1])

(* ------------------------------ evaluation of a built netlist ------------------------------ *)
(* inp: values of the K pool references; result: values of all b.n references *)
NetVals(g, inp) ==
  FoldLeft(LAMBDA v, gt : Append(v, GateFn(gt.t, [j \in DOMAIN gt.o |-> v[gt.o[j]]])), inp, g)
NVal(v, refs) == FoldLeft(LAMBDA acc, j : acc + (IF v[refs[j]] THEN 2 ^ (j - 1) ELSE 0), 0, [j \in DOMAIN refs |-> j])
=============================================================================
