SPECIFICATION Spec
CONSTANT MAXAR = 4
INVARIANT KleeneSound
INVARIANT KleeneMonotone
INVARIANT KleeneTotal
INVARIANT KleeneNotStronger
INVARIANT LiftedIsPointwise
INVARIANT RewriteKeeps
INVARIANT SymmetricOK
INVARIANT CodeOK
CHECK_DEADLOCK FALSE
