SPECIFICATION Spec
INVARIANT StackAgreesWithDenotation
INVARIANT FullPassSound
INVARIANT StackBounded
CHECK_DEADLOCK FALSE
CONSTANTS
 NI = 2
 NG = 2
 AMAX = 3
 Types = {"ALWAYS_FALSE","NOT","IFF","GT","LEQ","RIFF","LNOT","AND","XOR","NOR"}
