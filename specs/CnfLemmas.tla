------------------------------ MODULE CnfLemmas ------------------------------
(* Role D for C05: the specification's own Tseytin encoder is exact on every circuit of the
   universe (same generator as Universe.tla), for the selection "all outputs" and single outputs. *)
EXTENDS Cnf
CONSTANTS NI, NG, Types, AMAX
VARIABLE gs
Arities(t) == CASE t \in NullaryTypes -> {0} [] t \in UnaryTypes -> {1} [] t \in BinaryTypes -> {2} [] OTHER -> 2 .. AMAX
Init == gs = <<>>
Next == /\ Len(gs) < NG
        /\ \E t \in Types : \E n \in Arities(t) : \E o \in [1 .. n -> 1 .. (NI + Len(gs))] :
             gs' = Append(gs, [t |-> t, o |-> o])
Spec == Init /\ [][Next]_gs
Lab(k) == "n" \o ToString(k)
Circ ==
  LET N == NI + Len(gs)
  IN [g |-> [l \in {Lab(k) : k \in 1 .. N} |->
               LET k == CHOOSE k \in 1 .. N : Lab(k) = l
               IN IF k <= NI THEN [t |-> "INPUT", o |-> <<>>]
                  ELSE [t |-> gs[k - NI].t, o |-> [j \in DOMAIN gs[k - NI].o |-> Lab(gs[k - NI].o[j])]]],
      i |-> [k \in 1 .. NI |-> Lab(k)],
      o |-> <<Lab(N), Lab(1), Lab(N)>>, u |-> <<>>, b |-> <<>>]
SetToCnf(S) == SetToSeq(S)
EncoderExact ==
  /\ CnfStrict(Circ, <<0, 1, 2>>, SetToCnf(Tseytin(Circ, <<0, 1, 2>>)))
  /\ CnfStrict(Circ, <<0>>, SetToCnf(Tseytin(Circ, <<0>>)))
  /\ CnfFree(Circ, <<1, 0>>, SetToCnf(Tseytin(Circ, <<1, 0>>)))
=============================================================================
