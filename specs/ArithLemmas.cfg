SPECIFICATION Spec
CONSTANT W = 5
INVARIANT AddOK
INVARIANT ShiftOK
INVARIANT MulOK
INVARIANT SameOK
INVARIANT LessOK
INVARIANT RoundTrip
INVARIANT SqrtOK
CHECK_DEADLOCK FALSE
