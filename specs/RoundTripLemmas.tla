--------------------------- MODULE RoundTripLemmas ---------------------------
(***************************************************************************)
(* Role D for the two codecs of the specification itself: over ALL         *)
(* netlists of a small universe (the same generator as Universe.tla)       *)
(*   Bench:  Denote(FormatDoc(c)) is c again;                              *)
(*   Codec:  DecodeBytes(bytes of EncodeBits(c)) is c up to renaming,      *)
(*           for circuits the format defines.                              *)
(* This makes the reference decoders used by the trace judges (C11, C16,   *)
(* C17) themselves checked objects.                                        *)
(***************************************************************************)
EXTENDS Bench, Codec
CONSTANTS NI, NG, Types, AMAX
VARIABLE gs

Arities(t) == CASE t \in NullaryTypes -> {0, 2}      \* constants also with two (ignored) operands
                [] t \in UnaryTypes   -> {1}
                [] t \in BinaryTypes  -> {2}
                [] OTHER              -> 2 .. AMAX
Init == gs = <<>>
Next == /\ Len(gs) < NG
        /\ \E t \in Types : \E n \in Arities(t) :
             (n = 0 \/ NI + Len(gs) >= 1) /\
             \E o \in [1 .. n -> 1 .. (NI + Len(gs))] : gs' = Append(gs, [t |-> t, o |-> o])
Spec == Init /\ [][Next]_gs

Lab(k) == "n" \o ToString(k)
Circ ==
  LET N == NI + Len(gs)
      labels == [k \in 1 .. N |-> Lab(k)]
  IN [g |-> [l \in {Lab(k) : k \in 1 .. N} |->
               LET k == CHOOSE k \in 1 .. N : Lab(k) = l
               IN IF k <= NI THEN [t |-> "INPUT", o |-> <<>>]
                  ELSE [t |-> gs[k - NI].t, o |-> [j \in DOMAIN gs[k - NI].o |-> Lab(gs[k - NI].o[j])]]],
      ord |-> labels,
      i |-> [k \in 1 .. NI |-> Lab(k)],
      o |-> IF N = 0 THEN <<>> ELSE <<Lab(N), Lab(1), Lab(N)>>,
      u |-> <<>>, b |-> <<>>]

BenchRoundTrip == SameNetlist(Denote(FormatDoc(Circ)), Circ)
CodecRoundTrip ==
  InFormat(Circ) =>
    LET d == DecodeBytes(BytesOfBits(EncodeBits(Circ)))
    IN d.ok /\ SameUpToRenaming(Circ, d.c)
=============================================================================
