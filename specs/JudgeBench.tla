------------------------------ MODULE JudgeBench ------------------------------
(* C11: bench text round-trips and the parser is faithful. *)
EXTENDS JudgeCore, Bench

(* kind "bench-rt": c.orig, c.parsed (from_bench_string(format_circuit())),
   c.fparsed (save_to_file + from_bench_file), c.exc / c.fexc *)
C11RoundTripFails(c) ==
  FailSet(<<
    <<"parse-of-formatted-text-raised:" \o c.exc, c.exc = "">>,
    <<"round-trip-gates", c.exc # "" \/ c.parsed.g = c.orig.g>>,
    <<"round-trip-input-order", c.exc # "" \/ c.parsed.i = c.orig.i>>,
    <<"round-trip-output-order", c.exc # "" \/ c.parsed.o = c.orig.o>>,
    <<"file-round-trip-raised:" \o c.fexc, c.fexc = "">>,
    <<"file-round-trip", c.fexc # "" \/ SameNetlist(c.fparsed, c.orig)>>,
    <<"printed-text-denotes-the-circuit", \/ ~Has(c, "doc")
                                          \/ SameNetlist(Denote(c.doc), c.orig)>>
  >>)

(* kind "bench-doc": c.doc line records, c.parsed or c.exc *)
C11DocFails(c) ==
  LET d == Denote(c.doc) IN
  IF ~DocWF(c.doc) THEN {}             \* outside "well-formed bench text": not judged
  ELSE FailSet(<<
    <<"well-formed-document-rejected:" \o c.exc, c.exc = "">>,
    <<"parsed-gates-differ-from-denotation", c.exc # "" \/ c.parsed.g = d.g>>,
    <<"parsed-inputs-differ-from-denotation", c.exc # "" \/ c.parsed.i = d.i>>,
    <<"parsed-outputs-differ-from-denotation", c.exc # "" \/ c.parsed.o = d.o>>,
    <<"parsed-circuit-computes-something-else",
        c.exc # "" \/ ~WF5(d) \/ c.parsed.g # d.g \/ c.parsed.i # d.i \/ c.parsed.o # d.o
        \/ TT(c.parsed) = TT(d)>>,
    <<"parsed-users-index", c.exc # "" \/ c.parsed.g # d.g \/ WF3(c.parsed)>>
  >>)
=============================================================================
