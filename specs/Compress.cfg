SPECIFICATION Spec
CONSTANTS
 NA = 3
 NB = 3
 MaxW = 7
INVARIANT SumPreserved
INVARIANT TopIsZero
INVARIANT TerminalIsTheProduct
CHECK_DEADLOCK FALSE
