SPECIFICATION Spec
INVARIANT ReportRefuted
CHECK_DEADLOCK FALSE
