------------------------------ MODULE JudgeCore ------------------------------
(***************************************************************************)
(* Helpers shared by all trace-judging modules (role O).                   *)
(* Recorded tables: a JSON object  label -> list of row numbers; absent    *)
(* key = empty set.                                                        *)
(***************************************************************************)
EXTENDS CircuitSem
RS(m, l) == IF l \in DOMAIN m THEN SeqSet(m[l]) ELSE {}
Has(r, f) == f \in DOMAIN r
(* a clause list is a sequence of <<name, BOOLEAN>>; the verdict is the set
   of names of the clauses that are FALSE *)
FailSet(clauses) == {clauses[j][1] : j \in {x \in DOMAIN clauses : ~clauses[x][2]}}
(* bits of row r for arity n, first operand most significant *)
RowBits(r, n) == [j \in 1 .. n |-> (r \div Pow2(n - j)) % 2 = 1]
(* Gate maps read from JSON are TLC records, whose field selection is linear in the number of
   fields; AsFcn copies such a map once into a function (hashed lookup), which keeps the
   evaluation of circuits with thousands of gates feasible. *)
AsFcn(rec) == [l \in DOMAIN rec |-> rec[l]]

(* evaluation along a witness order that is checked on the way; G = AsFcn(c.g) *)
EvalChecked(G, order, cols, all) ==
  FoldLeft(LAMBDA acc, l :
     IF ~acc.ok \/ l \notin DOMAIN G THEN [acc EXCEPT !.ok = FALSE]
     ELSE IF l \in DOMAIN acc.v THEN acc
     ELSE LET ops == G[l].o IN
          IF \E j \in DOMAIN ops : ops[j] \notin DOMAIN acc.v THEN [acc EXCEPT !.ok = FALSE]
          ELSE [acc EXCEPT !.v = (l :> GateSet(G[l].t, [j \in DOMAIN ops |-> acc.v[ops[j]]], all)) @@ acc.v],
   [ok |-> TRUE, v |-> cols], order)
(* everything S depends on, along a witness order (operands first): linear *)
ReachAlong(G, order, S) ==
  FoldLeft(LAMBDA seen, j : LET l == order[Len(order) + 1 - j] IN IF l \in seen THEN seen \cup SeqSet(G[l].o) ELSE seen,
           S, [j \in 1 .. Len(order) |-> j])
=============================================================================
