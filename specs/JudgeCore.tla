------------------------------ MODULE JudgeCore ------------------------------
(***************************************************************************)
(* Helpers shared by all trace-judging modules (role O).                   *)
(* Recorded tables: a JSON object  label -> list of row numbers; absent    *)
(* key = empty set.                                                        *)
(***************************************************************************)
EXTENDS CircuitSem
RS(m, l) == IF l \in DOMAIN m THEN SeqSet(m[l]) ELSE {}
Has(r, f) == f \in DOMAIN r
(* a clause list is a sequence of <<name, BOOLEAN>>; the verdict is the set
   of names of the clauses that are FALSE *)
FailSet(clauses) == {clauses[j][1] : j \in {x \in DOMAIN clauses : ~clauses[x][2]}}
(* bits of row r for arity n, first operand most significant *)
RowBits(r, n) == [j \in 1 .. n |-> (r \div Pow2(n - j)) % 2 = 1]
=============================================================================
