------------------------------- MODULE MC_API -------------------------------
(* model-checking instance of CircuitAPI (cfg files cannot write sequences) *)
EXTENDS CircuitAPI, JudgeHist
Pool5 == <<"a", "b", "c", "d", "e">>
Pool8 == <<"a", "b", "c", "d", "e", "f", "g", "h">>
Blocks2 == <<"B1", "B2">>
T6 == {"NOT", "AND", "XOR", "GT", "ALWAYS_TRUE", "LIFF"}
T18 == OpTypes

(* Role D for C10 / C14 / C19: every transition of the model satisfies the very step predicates
   that judge the recorded implementation steps (rename keeps all references and truth tables,
   replace_inputs is the cofactor, remove_gate only without users, replace_subcircuit keeps the
   function, connect is the denotational composition, into_bench keeps function / basis / blocks) *)
TransOK ==
  LET a == hist'[Len(hist')]
      step == [act |-> a, ret |-> "ok", post |-> st',
               other_before |-> IF a.a = "connect" THEN a.other ELSE <<>>,
               other_after |-> IF a.a = "connect" THEN a.other ELSE <<>>]
      case(p) == [prop |-> p, init |-> st, steps |-> <<step>>]
  IN /\ C19StepFails(case("C19"), 1) = {}
     /\ C10StepFails(case("C10"), 1) = {}
     /\ C14StepFails(case("C14"), 1) = {}
ModelObeysProperties == [][Len(hist') = Len(hist) + 1 => TransOK]_vars
=============================================================================
