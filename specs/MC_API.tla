------------------------------- MODULE MC_API -------------------------------
(* model-checking instance of CircuitAPI (cfg files cannot write sequences) *)
EXTENDS CircuitAPI
Pool5 == <<"a", "b", "c", "d", "e">>
Pool8 == <<"a", "b", "c", "d", "e", "f", "g", "h">>
Blocks2 == <<"B1", "B2">>
T6 == {"NOT", "AND", "XOR", "GT", "ALWAYS_TRUE", "LIFF"}
T18 == OpTypes
=============================================================================
