----------------------------- MODULE CircuitAPI -----------------------------
(***************************************************************************)
(* The Circuit object as a state machine: one action per public mutator,   *)
(* enabled exactly when the code's validation lets the call through        *)
(* (CircuitOps.PreX) and changing the state as the code does (DoX).        *)
(*                                                                         *)
(* Role D: WellFormed (and the other invariants below) hold in every       *)
(*         reachable state within the configured bounds.                   *)
(* Role G: `hist` records the calls made so far; every transition TLC      *)
(*         generates is printed as the JSON history that reaches it, and   *)
(*         the harness replays each printed history, call by call, into    *)
(*         the real library (transition = implementation test).  With      *)
(*         -simulate the same variable yields long random behaviours.      *)
(***************************************************************************)
EXTENDS CircuitOps, Json

CONSTANTS Pool,          \* sequence of gate labels (fresh labels are taken in this order)
          Types,         \* operator gate types used by AddGate
          AMAX,          \* maximal arity of n-ary gates
          MaxGates, MaxOuts, Depth,
          BlockNames,    \* sequence of block names
          UseLib,        \* BOOLEAN: include connect_circuit actions
          DevNoUsers, DevNoBlockMember,   \* historical deviations of right-connect
          EmitAll        \* BOOLEAN: print every generated transition's history

VARIABLES st, hist
vars == <<st, hist>>

(* attachable circuits for connect_*: labels disjoint from Pool *)
LibRaw == <<
  [g |-> ("p" :> Gate("INPUT", <<>>)) @@ ("q" :> Gate("NOT", <<"p">>)),
   i |-> <<"p">>, o |-> <<"q">>, u |-> ("p" :> <<"q">>), b |-> <<>>],
  [g |-> ("p" :> Gate("INPUT", <<>>)) @@ ("r" :> Gate("INPUT", <<>>))
          @@ ("q" :> Gate("AND", <<"p", "r">>)) @@ ("w" :> Gate("XOR", <<"q", "p">>)),
   i |-> <<"p", "r">>, o |-> <<"w", "q">>,
   u |-> ("p" :> <<"q", "w">>) @@ ("r" :> <<"q">>) @@ ("q" :> <<"w">>),
   b |-> ("in" :> [i |-> <<"p", "r">>, g |-> <<"q">>, o |-> <<"q">>])],
  [g |-> ("p" :> Gate("INPUT", <<>>)) @@ ("q" :> Gate("GT", <<"p", "p">>)),
   i |-> <<"p">>, o |-> <<"q", "p">>, u |-> ("p" :> <<"q", "q">>), b |-> <<>>]
>>
Lib == [k \in DOMAIN LibRaw |-> Norm(LibRaw[k])]

FirstFree(pool, used) ==
  IF \E j \in DOMAIN pool : pool[j] \notin used
  THEN <<pool[CHOOSE j \in DOMAIN pool : pool[j] \notin used /\ \A k \in 1 .. (j - 1) : pool[k] \in used]>>
  ELSE <<>>
Arities(t) == CASE t \in NullaryTypes \cup {"INPUT"} -> {0}
                [] t \in UnaryTypes   -> {1}
                [] t \in BinaryTypes  -> {2}
                [] OTHER              -> 2 .. AMAX
Seqs(S, lens) == UNION {[1 .. n -> S] : n \in lens}
G == DOMAIN st.g

Step(s2, act) == /\ st' = s2
                 /\ hist' = Append(hist, act)
                 /\ IF EmitAll THEN PrintT(ToJson(hist')) ELSE TRUE

AddGate ==
  /\ Cardinality(G) < MaxGates
  /\ FirstFree(Pool, G) # <<>>
  /\ LET l == FirstFree(Pool, G)[1] IN
     \E t \in Types \cup {"INPUT"} : \E n \in Arities(t) : \E ops \in [1 .. n -> G] :
        /\ PreAddGate(st, l, t, ops)
        /\ Step(DoAddGate(st, l, t, ops), [a |-> "add_gate", l |-> l, t |-> t, ops |-> ops])
RemoveGate ==
  \E l \in G : /\ PreRemoveGate(st, l)
               /\ Step(DoRemoveGate(st, l), [a |-> "remove_gate", l |-> l])
RenameGate ==
  /\ FirstFree(Pool, G) # <<>>
  /\ LET new == FirstFree(Pool, G)[1] IN
     \E old \in G : /\ PreRename(st, old, new)
                    /\ Step(DoRename(st, old, new), [a |-> "rename_gate", old |-> old, new |-> new])
MarkOutput ==
  /\ Len(st.o) < MaxOuts
  /\ \E l \in G : Step(DoMarkOutput(st, l), [a |-> "mark_as_output", l |-> l])
SetOutputs ==
  \E q \in Seqs(G, 0 .. MaxOuts) :
     /\ q # st.o
     /\ Step(DoSetOutputs(st, q), [a |-> "set_outputs", q |-> q])
SetInputs ==
  \E q \in [1 .. Len(st.i) -> SeqSet(st.i)] :
     /\ q # st.i /\ PreSetInputs(st, q)
     /\ Step(DoSetInputs(st, q), [a |-> "set_inputs", q |-> q])
OrderInputs ==
  \E x \in SeqSet(st.i) : /\ st.i[1] # x
     /\ Step(DoOrderInputs(st, <<x>>), [a |-> "order_inputs", q |-> <<x>>])
OrderOutputs ==
  \E x \in SeqSet(st.o) : /\ st.o[1] # x
     /\ Step(DoOrderOutputs(st, <<x>>), [a |-> "order_outputs", q |-> <<x>>])
ReplaceInputs ==
  \E T \in SUBSET SeqSet(st.i) : \E F \in SUBSET (SeqSet(st.i) \ T) :
     /\ T \cup F # {} /\ Cardinality(T \cup F) <= 2
     /\ LET tq == SetToSeq(T)  fq == SetToSeq(F) IN
        /\ PreReplaceInputs(st, tq, fq)
        /\ Step(DoReplaceInputs(st, tq, fq), [a |-> "replace_inputs", T |-> tq, F |-> fq])
MakeBlock ==
  /\ FirstFree(BlockNames, DOMAIN st.b) # <<>>
  /\ LET n == FirstFree(BlockNames, DOMAIN st.b)[1] IN
     \E S \in SUBSET G : /\ S # {} /\ Cardinality(S) <= 2
        /\ LET gq == SetToSeq(S) IN
           /\ PreMakeBlock(st, n, gq, gq, <<>>, FALSE)
           /\ Step(DoMakeBlock(st, n, gq, gq, <<>>, FALSE),
                   [a |-> "make_block", n |-> n, gs |-> gq, outs |-> gq])
DeleteBlock ==
  \E n \in DOMAIN st.b : Step(DoDeleteBlock(st, n), [a |-> "delete_block", n |-> n])
RemoveBlock ==
  \E n \in DOMAIN st.b : /\ PreRemoveBlock(st, n)
     /\ Step(DoRemoveBlock(st, n), [a |-> "remove_block", n |-> n])
Connect ==
  /\ UseLib
  /\ \E k \in DOMAIN Lib : \E right \in BOOLEAN : \E name \in {"", "B"} :
     LET other == Lib[k] IN
     /\ Cardinality(G) + Cardinality(DOMAIN other.g) <= MaxGates + 2
     /\ \E tc \in Seqs(G, 0 .. 2) :
        \E oc \in (IF right THEN [1 .. Len(tc) -> DOMAIN other.g]
                   ELSE IF Len(tc) <= Len(other.i) THEN {SubSeq(other.i, 1, Len(tc))} ELSE {}) :
          /\ PreConnect(st, other, tc, oc, right, name, TRUE)
          /\ Step(DoConnect(st, other, tc, oc, right, name, TRUE, DevNoUsers, DevNoBlockMember),
                  [a |-> "connect", lib |-> k, other |-> LibRaw[k], tc |-> tc, oc |-> oc, right |-> right,
                   name |-> name, pfx |-> TRUE])
IntoBench ==
  /\ PreIntoBench(st)
  /\ \E l \in G : st.g[l].t \notin BenchTypes
  /\ Cardinality(G) + Cardinality({l \in G : NeedsHelper(st.g[l].t)}) <= MaxGates + 2
  /\ Step(DoIntoBench(st, LAMBDA l : "h_" \o l), [a |-> "into_bench"])

(* replace_subcircuit: the cone consisting of one gate r (cut = its operands) is replaced by a
   relabelled copy of itself; leaves are renamed to the copy's input labels by the call *)
DistinctSeq(q) == SelectSeq(q, LAMBDA x : TRUE)
ReplaceSubcircuit ==
  \E r \in {l \in G : st.g[l].t # "INPUT" /\ st.g[l].o # <<>>} :
    LET ops == st.g[r].o
        leaves == SetToSeq(SeqSet(ops))
        tag == "z" \o ToString(Len(hist))
        inL(j) == tag \o "i" \o ToString(j)
        outL == tag \o "o"
        idx(x) == CHOOSE j \in DOMAIN leaves : leaves[j] = x
        sub == [g |-> [l \in {inL(j) : j \in DOMAIN leaves} \cup {outL} |->
                         IF l = outL THEN Gate(st.g[r].t, [j \in DOMAIN ops |-> inL(idx(ops[j]))])
                         ELSE Gate("INPUT", <<>>)],
                i |-> [j \in DOMAIN leaves |-> inL(j)], o |-> <<outL>>, u |-> <<>>, b |-> <<>>]
        im == [j \in DOMAIN leaves |-> <<leaves[j], inL(j)>>]
        om == <<<<r, outL>>>>
    IN /\ Cardinality(G) <= MaxGates + 1
       /\ PreReplaceSub(st, NormD(sub), im, om)
       /\ Step(DoReplaceSub(st, NormD(sub), im, om),
               [a |-> "replace_subcircuit", sub |-> sub, im |-> im, om |-> om, equiv |-> TRUE])

Init == st = EmptyState /\ hist = <<>>
Next == /\ Len(hist) < Depth
        /\ \/ AddGate \/ RemoveGate \/ RenameGate \/ MarkOutput \/ SetOutputs \/ SetInputs
           \/ OrderInputs \/ OrderOutputs \/ ReplaceInputs \/ MakeBlock \/ DeleteBlock
           \/ RemoveBlock \/ Connect \/ IntoBench \/ ReplaceSubcircuit
Spec == Init /\ [][Next]_vars

View == st

(******************************  invariants  ******************************)
InvWF1 == WF1(st)
InvWF2 == WF2(st)
InvWF3 == WF3(st)
InvWF4 == WF4(st)
InvWF5 == WF5(st)
InvWF6 == WF6(st)
InvUsersTotal == DOMAIN st.u = DOMAIN st.g
(* the incremental users index is exactly the derived inverse of the operand relation *)
(* action properties (checked as invariants over the primed state via hist) are in
   JudgeHist.tla, where they are evaluated on recorded implementation steps as well. *)

\* printed at the end of a simulated behaviour (role G, -simulate)
EmitAtDepth == (Len(hist) = Depth) => PrintT(ToJson(hist))
=============================================================================
