----------------------------- MODULE TseytinWalk -----------------------------
(***************************************************************************)
(* Role D for C05: the CODE-SHAPED gate walk of tseytin_transformation      *)
(* (cirbo/sat/cnf/tseytin.py, process_gate after fix 2fd4960) as a state    *)
(* machine, over EVERY operand graph on at most N nodes with at most AMAX   *)
(* operands per node - acyclic or not, with shared and repeated operands -  *)
(* and every sequence of at most two start labels (the selected outputs).   *)
(*                                                                         *)
(*   stack    the explicit stack (top = last element)                      *)
(*   onpath   labels that are waiting for an operand (the current path)     *)
(*   lit      label -> literal, in order of allocation ("saved_lits")       *)
(*   emitted  sequence of labels whose clauses were emitted                 *)
(*   pc       "pick" (next start label) / "walk" / "done" / "cyclic"        *)
(*                                                                         *)
(* One step of Walk is one iteration of the while loop.  Checked:           *)
(*   - the walk terminates on every graph (also cyclic ones);               *)
(*   - it ends in "cyclic" exactly when a cycle is reachable from a start   *)
(*     label processed so far;                                             *)
(*   - a gate's clauses are emitted once, after those of all its operands;  *)
(*   - literals are numbered in depth-first post-order, operands left to    *)
(*     right - the allocation model Alloc of JudgeCnf.tla, against which    *)
(*     every recorded CNF is compared (drift clause);                       *)
(*   - the stack is a path of the graph (so its height is bounded by the    *)
(*     longest path, not by the number of edges).                           *)
(***************************************************************************)
EXTENDS Naturals, Sequences, FiniteSets, SequencesExt, FiniteSetsExt
CONSTANTS N, AMAX
VARIABLES ops, inputs, starts, todo, stack, onpath, lit, emitted, pc
vars == <<ops, inputs, starts, todo, stack, onpath, lit, emitted, pc>>

Nodes == 1 .. N
SeqSet(s) == {s[j] : j \in DOMAIN s}
OpsSet(v) == SeqSet(ops[v])

(* ---- reference notions on the graph ---- *)
RECURSIVE ReachRec(_, _)
ReachRec(front, seen) ==
  IF front = {} THEN seen
  ELSE LET nxt == (UNION {OpsSet(v) : v \in front}) \ seen IN ReachRec(nxt, seen \cup nxt)
Reach(S) == ReachRec(S, S)
OnCycle(v) == v \in ReachRec(OpsSet(v), OpsSet(v))
CycleReachableFrom(S) == \E v \in Reach(S) : OnCycle(v)

(* depth-first post-order numbering, operands left to right, continuing an allocation m (the model of JudgeCnf.Alloc);
   only used on acyclic parts *)
RECURSIVE PostOrder(_, _)
PostOrder(m, v) ==
  IF v \in SeqSet(m) THEN m
  ELSE Append(FoldLeft(LAMBDA acc, o : PostOrder(acc, o), m, ops[v]), v)
InputSeq == SetToSortSeq(inputs, <)            \* the circuit's inputs get the first literals, in input order
ModelOrder(ss) == FoldLeft(LAMBDA acc, v : PostOrder(acc, v), InputSeq, ss)

(* ---- the machine ---- *)
Init ==
  /\ ops \in [Nodes -> UNION {[1 .. n -> Nodes] : n \in 0 .. AMAX}]
  /\ inputs \in SUBSET {v \in Nodes : ops[v] = <<>>}       \* operand-less nodes are inputs (pre-registered) or constants
  /\ starts \in UNION {[1 .. n -> Nodes] : n \in 1 .. 2}
  /\ todo = starts /\ stack = <<>> /\ onpath = {} /\ lit = InputSeq /\ emitted = <<>> /\ pc = "pick"

Pick ==
  /\ pc = "pick"
  /\ IF todo = <<>> THEN pc' = "done" /\ UNCHANGED <<todo, stack, onpath>>
     ELSE /\ stack' = <<Head(todo)>> /\ todo' = Tail(todo) /\ onpath' = {} /\ pc' = "walk"
  /\ UNCHANGED <<ops, inputs, starts, lit, emitted>>

Walk ==
  /\ pc = "walk"
  /\ IF stack = <<>> THEN pc' = "pick" /\ UNCHANGED <<stack, onpath, lit, emitted>>
     ELSE LET cur == stack[Len(stack)] IN
          IF cur \in SeqSet(lit)
          THEN /\ stack' = SubSeq(stack, 1, Len(stack) - 1) /\ UNCHANGED <<onpath, lit, emitted, pc>>
          ELSE LET pending == SelectSeq(ops[cur], LAMBDA o : o \notin SeqSet(lit)) IN
               IF pending # <<>>
               THEN IF pending[1] \in onpath
                    THEN /\ pc' = "cyclic" /\ UNCHANGED <<stack, onpath, lit, emitted>>
                    ELSE /\ onpath' = onpath \cup {cur} /\ stack' = Append(stack, pending[1])
                         /\ UNCHANGED <<lit, emitted, pc>>
               ELSE /\ stack' = SubSeq(stack, 1, Len(stack) - 1) /\ onpath' = onpath \ {cur}
                    /\ lit' = Append(lit, cur) /\ emitted' = Append(emitted, cur)
                    /\ UNCHANGED pc
  /\ UNCHANGED <<ops, inputs, starts, todo>>

Next == Pick \/ Walk
Spec == Init /\ [][Next]_vars /\ WF_vars(Next)

(* ---- properties ---- *)
Processed == SubSeq(starts, 1, Len(starts) - Len(todo))      \* start labels picked so far

\* the code's test is "pending[0] in on_path" with the current gate added to on_path only AFTER the test: a self-loop is
\* caught one iteration later (the gate is pushed on top of itself, then found on the path), hence N + 1
StackIsAPath == \A j \in 1 .. (Len(stack) - 1) : stack[j + 1] \in OpsSet(stack[j])
StackBounded == Len(stack) <= N + 1 /\ Cardinality(SeqSet(stack)) >= Len(stack) - 1
EmittedOnceAfterOperands ==
  /\ Cardinality(SeqSet(emitted)) = Len(emitted)
  /\ SeqSet(emitted) \cap inputs = {}
  /\ \A j \in DOMAIN emitted : OpsSet(emitted[j]) \subseteq {emitted[i] : i \in 1 .. (j - 1)} \cup inputs
LiteralsAreEmissionOrder == lit = InputSeq \o emitted
CyclicExactly ==
  /\ pc = "cyclic" => CycleReachableFrom(SeqSet(Processed))
  /\ pc = "done" => ~CycleReachableFrom(SeqSet(starts))
NumberingIsThePostOrderModel ==
  pc = "done" => lit = ModelOrder(starts)
EverythingReachedIsEncoded ==
  pc = "done" => SeqSet(emitted) = Reach(SeqSet(starts)) \ inputs
Terminates == <>(pc \in {"done", "cyclic"})
=============================================================================
