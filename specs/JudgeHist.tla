------------------------------ MODULE JudgeHist ------------------------------
(***************************************************************************)
(* Trace judging of recorded HISTORIES of public mutator calls             *)
(* (kind "hist"): c.init, c.steps[l] = [act, ret, exc, post, ...].         *)
(* The abstract state before step l is the recorded state after step l-1.  *)
(* Verdict clauses are transcriptions of C02 (well-formedness after every  *)
(* call that returns normally); agreement with the specification's own     *)
(* PreX / DoX (CircuitOps) is reported separately as DRIFT.                *)
(***************************************************************************)
EXTENDS JudgeCore, CircuitOps

HPreRaw(c, l) == IF l = 1 THEN c.init ELSE c.steps[l - 1].post
HPre(c, l) == Norm(HPreRaw(c, l))

(******************** the specification's view of an action **************)
ActOther(a) == NormD(a.other)
SpecPre(s, a) ==
  CASE a.a = "add_gate"       -> PreAddGate(s, a.l, a.t, a.ops)
    [] a.a = "remove_gate"    -> PreRemoveGate(s, a.l)
    [] a.a = "rename_gate"    -> PreRename(s, a.old, a.new)
    [] a.a = "mark_as_output" -> PreMarkOutput(s, a.l)
    [] a.a = "set_outputs"    -> PreSetOutputs(s, a.q)
    [] a.a = "set_inputs"     -> PreSetInputs(s, a.q)
    [] a.a = "order_inputs"   -> PreOrderInputs(s, a.q)
    [] a.a = "order_outputs"  -> PreOrderOutputs(s, a.q)
    [] a.a = "replace_inputs" -> PreReplaceInputs(s, a.T, a.F)
    [] a.a = "make_block"     -> PreMakeBlock(s, a.n, a.gs, a.outs,
                                   IF Has(a, "ins") THEN a.ins ELSE <<>>, Has(a, "ins"))
    [] a.a = "make_block_from_slice" -> PreMakeSlice(s, a.n, a.ins, a.outs)
    [] a.a = "delete_block"   -> PreDeleteBlock(s, a.n)
    [] a.a = "remove_block"   -> PreRemoveBlock(s, a.n)
    [] a.a = "connect"        -> PreConnect(s, ActOther(a), a.tc, a.oc, a.right, a.name, a.pfx)
    [] a.a = "into_bench"     -> PreIntoBench(s)
    [] OTHER                  -> TRUE
SpecHasDo(a) == a.a \in {"add_gate", "remove_gate", "rename_gate", "mark_as_output",
   "set_outputs", "set_inputs", "order_inputs", "order_outputs", "replace_inputs",
   "make_block", "make_block_from_slice", "delete_block", "remove_block", "connect"}
SpecDo(s, a) ==
  CASE a.a = "add_gate"       -> DoAddGate(s, a.l, a.t, a.ops)
    [] a.a = "remove_gate"    -> DoRemoveGate(s, a.l)
    [] a.a = "rename_gate"    -> DoRename(s, a.old, a.new)
    [] a.a = "mark_as_output" -> DoMarkOutput(s, a.l)
    [] a.a = "set_outputs"    -> DoSetOutputs(s, a.q)
    [] a.a = "set_inputs"     -> DoSetInputs(s, a.q)
    [] a.a = "order_inputs"   -> DoOrderInputs(s, a.q)
    [] a.a = "order_outputs"  -> DoOrderOutputs(s, a.q)
    [] a.a = "replace_inputs" -> DoReplaceInputs(s, a.T, a.F)
    [] a.a = "make_block"     -> DoMakeBlock(s, a.n, a.gs, a.outs,
                                   IF Has(a, "ins") THEN a.ins ELSE <<>>, Has(a, "ins"))
    [] a.a = "make_block_from_slice" -> DoMakeSlice(s, a.n, a.ins, a.outs)
    [] a.a = "delete_block"   -> DoDeleteBlock(s, a.n)
    [] a.a = "remove_block"   -> DoRemoveBlock(s, a.n)
    [] a.a = "connect"        -> DoConnect(s, ActOther(a), a.tc, a.oc, a.right, a.name, a.pfx,
                                           FALSE, FALSE)

(* DRIFT: the implementation step is not the step the specification takes.
   Only evaluated when the recorded pre-state is well formed (the model's domain). *)
HistDrift(c, l) ==
  LET st == c.steps[l]  a == st.act  pre == HPre(c, l)
  IN IF ~WellFormed(pre) THEN {}
     ELSE IF st.ret = "ok"
          THEN (IF SpecPre(pre, a) THEN {} ELSE {"spec-disabled-but-returned:" \o a.a}) \cup
               (IF SpecPre(pre, a) /\ SpecHasDo(a) /\ ~SameState(Norm(st.post), SpecDo(pre, a))
                THEN {"next-state-differs:" \o a.a} ELSE {})
          ELSE (IF SpecPre(pre, a) /\ SpecHasDo(a) THEN {"spec-enabled-but-raised:" \o a.a} ELSE {})

(************************  C02 verdict clauses  ****************************)
BlockOutputsExist(s) == \A n \in DOMAIN s.b : SeqSet(s.b[n].o) \subseteq DOMAIN s.g
C02StepFails(c, l) ==
  LET st == c.steps[l]
  IN IF st.ret # "ok" THEN {}
     ELSE LET post == st.post IN
       WFFails(post) \cup
       FailSet(<<
         <<"top_sort-inverse-raised", ~Has(st, "tsix")>>,
         <<"top_sort-raised", ~Has(st, "tsx")>>,
         <<"top_sort-inverse-order", Has(st, "tsix") \/ ~WF1(post) \/ OperandsFirst(post, st.tsi)>>,
         <<"top_sort-order", Has(st, "tsx") \/ ~WF1(post) \/ UsersFirst(post, st.ts)>>,
         <<"copy-raised", ~st.copy_judged \/ ~Has(st, "copy_exc")>>,
         <<"copy-equal", ~st.copy_judged \/ Has(st, "copy_exc") \/
              (st.copy_eq /\ SameState(Norm(st.copy), Norm(post)))>>,
         <<"copy-mutation-leaks-into-original", ~st.copy_judged \/ Has(st, "copy_exc") \/
              SameState(Norm(st.orig_after), Norm(post))>>,
         <<"original-mutation-leaks-into-copy", ~Has(st, "pc") \/
              SameState(Norm(st.pc), Norm(st.pc_expected))>>
       >>)
=============================================================================
