------------------------------ MODULE JudgeHist ------------------------------
(***************************************************************************)
(* Trace judging of recorded HISTORIES of public mutator calls             *)
(* (kind "hist"): c.init, c.steps[l] = [act, ret, exc, post, ...].         *)
(* The abstract state before step l is the recorded state after step l-1.  *)
(* Verdict clauses are transcriptions of C02 (well-formedness after every  *)
(* call that returns normally); agreement with the specification's own     *)
(* PreX / DoX (CircuitOps) is reported separately as DRIFT.                *)
(***************************************************************************)
EXTENDS JudgeCore, CircuitOps

HPreRaw(c, l) == IF l = 1 THEN c.init ELSE c.steps[l - 1].post
HPre(c, l) == Norm(HPreRaw(c, l))

(******************** the specification's view of an action **************)
ActOther(a) == NormD(a.other)
SpecPre(s, a) ==
  CASE a.a = "add_gate"       -> PreAddGate(s, a.l, a.t, a.ops)
    [] a.a = "remove_gate"    -> PreRemoveGate(s, a.l)
    [] a.a = "rename_gate"    -> PreRename(s, a.old, a.new)
    [] a.a = "mark_as_output" -> PreMarkOutput(s, a.l)
    [] a.a = "set_outputs"    -> PreSetOutputs(s, a.q)
    [] a.a = "set_inputs"     -> PreSetInputs(s, a.q)
    [] a.a = "order_inputs"   -> PreOrderInputs(s, a.q)
    [] a.a = "order_outputs"  -> PreOrderOutputs(s, a.q)
    [] a.a = "replace_inputs" -> PreReplaceInputs(s, a.T, a.F)
    [] a.a = "make_block"     -> PreMakeBlock(s, a.n, a.gs, a.outs,
                                   IF Has(a, "ins") THEN a.ins ELSE <<>>, Has(a, "ins"))
    [] a.a = "make_block_from_slice" -> PreMakeSlice(s, a.n, a.ins, a.outs)
    [] a.a = "delete_block"   -> PreDeleteBlock(s, a.n)
    [] a.a = "remove_block"   -> PreRemoveBlock(s, a.n)
    [] a.a = "connect"        -> PreConnect(s, ActOther(a), a.tc, a.oc, a.right, a.name, a.pfx)
    [] a.a = "into_bench"     -> PreIntoBench(s)
    [] a.a = "replace_subcircuit" -> PreReplaceSub(s, NormD(a.sub), a.im, a.om)
    [] OTHER                  -> TRUE
SpecHasDo(a) == a.a \in {"add_gate", "remove_gate", "rename_gate", "mark_as_output",
   "set_outputs", "set_inputs", "order_inputs", "order_outputs", "replace_inputs",
   "make_block", "make_block_from_slice", "delete_block", "remove_block", "connect",
   "replace_subcircuit"}
SpecDo(s, a) ==
  CASE a.a = "add_gate"       -> DoAddGate(s, a.l, a.t, a.ops)
    [] a.a = "remove_gate"    -> DoRemoveGate(s, a.l)
    [] a.a = "rename_gate"    -> DoRename(s, a.old, a.new)
    [] a.a = "mark_as_output" -> DoMarkOutput(s, a.l)
    [] a.a = "set_outputs"    -> DoSetOutputs(s, a.q)
    [] a.a = "set_inputs"     -> DoSetInputs(s, a.q)
    [] a.a = "order_inputs"   -> DoOrderInputs(s, a.q)
    [] a.a = "order_outputs"  -> DoOrderOutputs(s, a.q)
    [] a.a = "replace_inputs" -> DoReplaceInputs(s, a.T, a.F)
    [] a.a = "make_block"     -> DoMakeBlock(s, a.n, a.gs, a.outs,
                                   IF Has(a, "ins") THEN a.ins ELSE <<>>, Has(a, "ins"))
    [] a.a = "make_block_from_slice" -> DoMakeSlice(s, a.n, a.ins, a.outs)
    [] a.a = "delete_block"   -> DoDeleteBlock(s, a.n)
    [] a.a = "remove_block"   -> DoRemoveBlock(s, a.n)
    [] a.a = "connect"        -> DoConnect(s, ActOther(a), a.tc, a.oc, a.right, a.name, a.pfx,
                                           FALSE, FALSE)
    [] a.a = "replace_subcircuit" -> DoReplaceSub(s, NormD(a.sub), a.im, a.om)

(* DRIFT: the implementation step is not the step the specification takes.
   Only evaluated when the recorded pre-state is well formed (the model's domain). *)
HistDrift(c, l) ==
  LET st == c.steps[l]  a == st.act  pre == HPre(c, l)
  IN IF ~WellFormed(pre) THEN {}
     ELSE IF st.ret = "ok"
          THEN (IF SpecPre(pre, a) THEN {} ELSE {"spec-disabled-but-returned:" \o a.a}) \cup
               (IF SpecPre(pre, a) /\ SpecHasDo(a) /\ ~SameState(Norm(st.post), SpecDo(pre, a))
                THEN {"next-state-differs:" \o a.a} ELSE {}) \cup
               \* into_bench names its helper gates with fresh uuids: the model is instantiated with
               \* the helper labels found in the recorded post-state
               (IF a.a = "into_bench" /\ SpecPre(pre, a) /\ WF1(st.post) /\
                   ~SameState(Norm(st.post),
                      DoIntoBench(pre, LAMBDA gl : LET fresh == OpSet(st.post, gl) \ DOMAIN pre.g
                                                  IN IF fresh = {} THEN "?" ELSE CHOOSE x \in fresh : TRUE))
                THEN {"next-state-differs:into_bench"} ELSE {})
          ELSE (IF SpecPre(pre, a) /\ SpecHasDo(a) THEN {"spec-enabled-but-raised:" \o a.a} ELSE {})

(************************  C02 verdict clauses  ****************************)
BlockOutputsExist(s) == \A n \in DOMAIN s.b : SeqSet(s.b[n].o) \subseteq DOMAIN s.g
C02StepFails(c, l) ==
  LET st == c.steps[l]
  IN IF st.ret # "ok" THEN {}
     ELSE LET post == st.post IN
       WFFails(post) \cup
       FailSet(<<
         <<"top_sort-inverse-raised", ~Has(st, "tsix")>>,
         <<"top_sort-raised", ~Has(st, "tsx")>>,
         <<"top_sort-inverse-order", Has(st, "tsix") \/ ~WF1(post) \/ OperandsFirst(post, st.tsi)>>,
         <<"top_sort-order", Has(st, "tsx") \/ ~WF1(post) \/ UsersFirst(post, st.ts)>>,
         <<"copy-raised", ~st.copy_judged \/ ~Has(st, "copy_exc")>>,
         <<"copy-equal", ~st.copy_judged \/ Has(st, "copy_exc") \/
              (st.copy_eq /\ SameState(Norm(st.copy), Norm(post)))>>,
         <<"copy-mutation-leaks-into-original", ~st.copy_judged \/ Has(st, "copy_exc") \/
              SameState(Norm(st.orig_after), Norm(post))>>,
         <<"original-mutation-leaks-into-copy", ~Has(st, "pc") \/
              SameState(Norm(st.pc), Norm(st.pc_expected))>>
       >>)

(* C02 on harvested steps of the repository's own tests (vf/tracer.py): each case is one
   outermost public call with the projected state before and after; only well-formedness
   after a call that returned on a well-formed circuit is a verdict (no extra observations) *)
C02HStepFails(c, l) ==
  LET st == c.steps[l]
  IN IF st.ret # "ok" \/ ~WellFormed(HPre(c, l)) THEN {} ELSE WFFails(st.post)

(************************  C19 verdict clauses  ****************************)
(* documented errors of replace_subcircuit (all CircuitError subclasses raised by
   its validation, the block helpers it calls, rename_gate and the cycle check) *)
C19DocumentedErrors == {"ReplaceSubcircuitError", "CreateBlockError", "DeleteBlockError",
   "CircuitValidationError", "GateDoesntExistError", "CircuitGateAlreadyExistsError",
   "CircuitGateIsAbsentError", "GateHasUsersError", "CircuitIsCyclicalError"}
(* gates of `pre` evaluated over the row space of the remaining inputs `rem`
   with the inputs in T fixed to TRUE and those in F fixed to FALSE *)
CofactorTT(pre, rem, T, F) ==
  LET n == Len(rem)
      all == AllRows(n)
      cols == [x \in SeqSet(pre.i) |->
                 IF x \in T THEN all ELSE IF x \in F THEN {} ELSE ColOf(n, Pos(rem, x))]
  IN EvalAlong(pre, TopoSeq(pre), cols, all)
C19StepFails(c, l) ==
  LET st == c.steps[l]  a == st.act  pre == HPre(c, l)
  IN IF ~WellFormed(pre) THEN {}
     \* renaming to a fresh label and fixing a set of inputs are total on their documented arguments (only the replacement of a
     \* subcircuit "or raises one of the documented errors"): a refusal of such a call is not the state the property describes
     ELSE IF a.a \in {"rename_gate", "replace_inputs"} /\ st.ret = "raise" THEN
       (IF SpecPre(pre, a) THEN {a.a \o "-refused-on-documented-arguments:" \o st.exc} ELSE {})
     ELSE IF a.a = "rename_gate" /\ st.ret = "ok" THEN
       LET post == Norm(st.post) IN
       FailSet(<<
         <<"rename-every-reference-follows", SameState(post, DoRename(pre, a.old, a.new))>>,
         <<"rename-keeps-truth-tables",
             WellFormed(st.post) /\
             LET t0 == GateTT(pre)  t1 == GateTT(st.post)
             IN  \A x \in DOMAIN pre.g : Sub1(x, a.old, a.new) \in DOMAIN t1
                                          /\ t1[Sub1(x, a.old, a.new)] = t0[x]>>
       >>)
     ELSE IF a.a = "replace_inputs" /\ st.ret = "ok" THEN
       LET post == st.post
           T == SeqSet(a.T)  F == SeqSet(a.F)
           rem == FilterOut(pre.i, T \cup F)
       IN FailSet(<<
         <<"replace_inputs-remaining-inputs-in-order", post.i = rem>>,
         <<"replace_inputs-outputs-kept", post.o = pre.o>>,
         <<"replace_inputs-wellformed", WFFails(post) = {}>>,
         <<"replace_inputs-is-cofactor",
             post.i # rem \/ WFFails(post) # {} \/
             LET exp == CofactorTT(pre, rem, T, F)  got == GateTT(post)
             IN \A x \in DOMAIN pre.g : x \in DOMAIN got /\ got[x] = exp[x]>>
       >>)
     ELSE IF a.a = "remove_gate" /\ st.ret = "ok" THEN
       FailSet(<<
         <<"remove_gate-succeeded-although-used", a.l \in DOMAIN pre.g /\ UsersSet(pre, a.l) = {}>>,
         <<"remove_gate-still-present", a.l \notin DOMAIN st.post.g>>,
         <<"remove_gate-still-an-output", a.l \notin SeqSet(st.post.o)>>
       >>)
     ELSE IF a.a = "replace_subcircuit" /\ a.equiv THEN
       IF st.ret = "ok" THEN
         FailSet(<<
           <<"replace_subcircuit-wellformed", WFFails(st.post) = {}>>,
           <<"replace_subcircuit-interface", Len(st.post.i) = Len(pre.i) /\ Len(st.post.o) = Len(pre.o)>>,
           <<"replace_subcircuit-function",
               WFFails(st.post) # {} \/ Len(st.post.i) # Len(pre.i) \/ TT(st.post) = TT(pre)>>
         >>)
       ELSE FailSet(<< <<"replace_subcircuit-undocumented-error:" \o st.exc,
                          st.exc \in C19DocumentedErrors>> >>)
     ELSE {}

(************************  C10 verdict clauses  ****************************)
(* denotational composition, independent of how the code splices:          *)
(* row space = inputs of the result; both circuits are evaluated with the  *)
(* connector values fed across.                                            *)
C10ResultInputs(base, other, tc, oc, right) ==
  \* sequence of <<side, label>> : the documented input list of the composition
  LET keepB == SelectSeq(base.i, LAMBDA x :
                 ~right \/ x \notin SeqSet(tc) \/
                 (\E j \in DOMAIN tc : tc[j] = x /\ other.g[oc[j]].t = "INPUT"))
      keepO == FilterOut(other.i, SeqSet(oc))
  IN [j \in 1 .. Len(keepB) |-> <<"b", keepB[j]>>] \o [j \in 1 .. Len(keepO) |-> <<"o", keepO[j]>>]
C10Expected(base, other, tc, oc, right) ==
  LET rin == C10ResultInputs(base, other, tc, oc, right)
      n == Len(rin)
      all == AllRows(n)
      col(side, x) == ColOf(n, CHOOSE j \in DOMAIN rin : rin[j] = <<side, x>>)
      \* last pair wins is NOT assumed: every pair (tc[j], oc[j]) is identified
      pairIdx(seq, x) == CHOOSE j \in DOMAIN seq : seq[j] = x
  IN IF ~right
     THEN LET tb == EvalAlong(base, TopoSeq(base), [x \in SeqSet(base.i) |-> col("b", x)], all)
              to == EvalAlong(other, TopoSeq(other),
                      [x \in SeqSet(other.i) |->
                         IF x \in SeqSet(oc) THEN tb[tc[pairIdx(oc, x)]] ELSE col("o", x)], all)
          IN [k \in 1 .. Len(FilterOut(base.o, SeqSet(tc))) |-> tb[FilterOut(base.o, SeqSet(tc))[k]]]
             \o [k \in 1 .. Len(FilterOut(other.o, SeqSet(oc))) |-> to[FilterOut(other.o, SeqSet(oc))[k]]]
     ELSE LET to == EvalAlong(other, TopoSeq(other),
                      [x \in SeqSet(other.i) |->
                         IF x \in SeqSet(oc) THEN col("b", tc[pairIdx(oc, x)]) ELSE col("o", x)], all)
              tb == EvalAlong(base, TopoSeq(base),
                      [x \in SeqSet(base.i) |->
                         IF x \in SeqSet(tc) THEN to[oc[pairIdx(tc, x)]] ELSE col("b", x)], all)
          IN [k \in 1 .. Len(FilterOut(base.o, SeqSet(tc))) |-> tb[FilterOut(base.o, SeqSet(tc))[k]]]
             \o [k \in 1 .. Len(FilterOut(other.o, SeqSet(oc))) |-> to[FilterOut(other.o, SeqSet(oc))[k]]]
(* Region the documentation leaves open (not judged): a right-connection that pairs ONE
   primary input of the attached circuit with SEVERAL base inputs would have to identify
   those free base inputs with each other. *)
C10Unspecified(a) ==
  a.right /\ \E x \in SeqSet(a.oc) : a.other.g[x].t = "INPUT" /\ Occ(a.oc, x) > 1
(* Calls outside the quantifier of C10 (the documentation makes the library refuse them): connectors that
   name no gate, lists of different length, an attached-side connector of a left connection that is no input
   of the attached circuit, a base-side connector of a right connection that is no base input.  Should such a
   call return normally, C10 says nothing about the result (C02 still judges its well-formedness). *)
C10OutsideQuantifier(pre, a) ==
  \/ Len(a.tc) # Len(a.oc)
  \/ ~(SeqSet(a.tc) \subseteq Labels(pre))
  \/ ~(SeqSet(a.oc) \subseteq DOMAIN a.other.g)
  \/ (~a.right /\ \E x \in SeqSet(a.oc) : a.other.g[x].t # "INPUT")
  \/ (a.right /\ \E x \in SeqSet(a.tc) : pre.g[x].t # "INPUT")
C10StepFails(c, l) ==
  LET st == c.steps[l]  a == st.act  pre == HPre(c, l)
  IN IF a.a # "connect" \/ ~WellFormed(pre) THEN {}
     ELSE IF C10OutsideQuantifier(pre, a) THEN {}
     ELSE IF st.ret # "ok"
          \* a composition the documentation allows (the model's enabling condition: connectors of the right
          \* kind, no repeats on the replaced side, no label or block-name clash) must be carried out
          THEN (IF SpecPre(pre, a) /\ ~C10Unspecified(a) THEN {"documented-composition-raised:" \o st.exc} ELSE {})
     ELSE IF C10Unspecified(a) THEN {}
     ELSE LET other == ActOther(a)
              post == st.post
              nin == Len(C10ResultInputs(pre, other, a.tc, a.oc, a.right))
          IN FailSet(<<
            <<"attached-circuit-modified", st.other_after = st.other_before>>,
            <<"result-wellformed", WFFails(post) = {}>>,
            <<"result-input-count", Len(post.i) = nin>>,
            <<"result-output-count",
                Len(post.o) = Len(FilterOut(pre.o, SeqSet(a.tc))) + Len(FilterOut(other.o, SeqSet(a.oc)))>>,
            <<"result-function-is-the-composition",
                WFFails(post) # {} \/ Len(post.i) # nin \/
                TT(post) = C10Expected(pre, other, a.tc, a.oc, a.right)>>,
            <<"block-extraction-raised", ~Has(st, "blkx")>>,
            <<"block-extraction-gives-attached-function",
                ~Has(st, "blk") \/
                (/\ Len(st.blk.i) = Len(other.i) /\ Len(st.blk.o) = Len(other.o)
                 /\ WFFails(st.blk) = {} /\ TT(st.blk) = TT(other))>>
          >>)

(************************  C14 verdict clauses  ****************************)
C14StepFails(c, l) ==
  LET st == c.steps[l]  a == st.act  pre == HPre(c, l)
  IN IF a.a # "into_bench" \/ ~WellFormed(pre) THEN {}
     ELSE IF st.ret # "ok"
          THEN FailSet(<< <<"into_bench-raised-with-an-input:" \o st.exc, Len(pre.i) = 0>> >>)
          ELSE LET post == st.post
                   new == DOMAIN post.g \ DOMAIN pre.g
               IN FailSet(<<
                 <<"inputs-kept", post.i = pre.i>>,
                 <<"outputs-kept", post.o = pre.o>>,
                 <<"only-bench-types", \A x \in DOMAIN post.g : post.g[x].t \in BenchTypes>>,
                 <<"wellformed", WFFails(post) = {}>>,
                 <<"function-kept", WFFails(post) # {} \/ post.i # pre.i \/
                      LET t0 == GateTT(pre)  t1 == GateTT(post)
                      IN \A x \in DOMAIN pre.g : x \in DOMAIN t1 /\ t1[x] = t0[x]>>,
                 <<"helper-gates-inside-the-blocks-of-the-rewritten-gate",
                      \A h \in new : \A n \in DOMAIN post.b : \A w \in UsersSet(post, h) :
                         w \in SeqSet(post.b[n].g) => h \in SeqSet(post.b[n].g)>>
               >>)

(***************************************************************************)
(* kind "draw" (C14): Circuit.into_graphviz_digraph(as_bench=True).        *)
(*   c.a / c.b   the receiver before / after the call (must be equal)      *)
(*   c.nodes     drawn node id -> gate-type class of the drawn symbol      *)
(*   c.edges     drawn edges <<from, to>>;  c.clusters  block -> node ids  *)
(* The picture shows the converted copy: only bench-basis symbols, and a   *)
(* helper gate (a node that is not a gate of the receiver) lies in every   *)
(* block cluster that contains the gate it feeds.                          *)
(***************************************************************************)
C14DrawFails(c) ==
  LET orig == DOMAIN c.a.g
      ids == DOMAIN c.nodes
      helpers == ids \ orig
      cl == c.clusters
  IN FailSet(<<
       <<c.what, c.a = c.b>>,
       <<"drawing-raised:" \o c.exc, c.exc = "">>,
       <<"drawn-symbol-outside-the-bench-basis",
           ~c.drawn \/ \A n \in ids : c.nodes[n] \notin (OpTypes \ BenchTypes)>>,
       <<"helper-gate-drawn-outside-a-block-of-the-gate-it-feeds",
           ~c.drawn \/ \A j \in DOMAIN c.edges :
              LET h == c.edges[j][1]  u == c.edges[j][2] IN
              h \in helpers => \A B \in DOMAIN cl : u \in SeqSet(cl[B]) => h \in SeqSet(cl[B])>>
     >>)
(***************************************************************************)
(* kind "connectwide": ONE right-connection whose interface is wider than   *)
(* any truth table of the base could be (more than 30 base inputs, every     *)
(* one of them replaced by a gate of the attached circuit).  c.base, c.other *)
(* projections before the call, c.pairs = Seq of <<base input, attached     *)
(* gate>>, c.res the result with c.res_order (witness order, checked).  The  *)
(* result's inputs are the attached circuit's inputs in their order; every   *)
(* base gate must compute what it computed before with each replaced input   *)
(* reading its partner gate.  Linear clauses.                                *)
(***************************************************************************)
C10WideFails(c) ==
  IF c.exc # "" THEN {"documented-composition-raised:" \o c.exc}
  ELSE LET all == AllRows(Len(c.other.i))
           ov == EvalChecked(AsFcn(c.other.g), c.other.ord, InputCols(c.other), all)
           pmap == [j \in DOMAIN c.pairs |-> c.pairs[j][1]]
           cols == [l \in SeqSet(pmap) |-> ov.v[c.pairs[CHOOSE j \in DOMAIN c.pairs : c.pairs[j][1] = l][2]]]
           want == EvalChecked(AsFcn(c.base.g), c.base.ord, cols, all)
           got == EvalChecked(AsFcn(c.res.g), c.res_order, InputCols(c.res), all)
           bgates == {l \in DOMAIN c.base.g : c.base.g[l].t # "INPUT"}
       IN IF ~ov.ok \/ ~want.ok \/ SeqSet(c.base.i) # SeqSet(pmap) THEN {}        \* not the shape this kind is for: not decided
          ELSE FailSet(<<
            <<"result-wellformed", got.ok /\ SeqSet(c.res.o) \subseteq DOMAIN got.v>>,
            <<"result-inputs-are-the-attached-circuit-s-inputs", Len(c.res.i) = Len(c.other.i)>>,
            <<"result-function-is-the-composition",
                ~got.ok \/ Len(c.res.i) # Len(c.other.i) \/
                \A l \in bgates : l \in DOMAIN got.v /\ got.v[l] = want.v[l]>>,
            <<"base-outputs-kept", \A k \in DOMAIN c.base.o : c.base.o[k] \in bgates => c.base.o[k] \in SeqSet(c.res.o)>>
          >>)
=============================================================================
