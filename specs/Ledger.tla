------------------------------- MODULE Ledger -------------------------------
(***************************************************************************)
(* The weight ledger of a multiplier (C08): a TRACE SPECIFICATION for the  *)
(* sequence of steps a multiplier generator takes - placing partial        *)
(* products and handing groups of bits to the bit counters / adders.       *)
(*                                                                         *)
(* State: a bag `live` of <<label, weight>> pairs (the bits that currently *)
(* represent the product: sum over the bag of value(label) * 2^weight is   *)
(* a * b), the set `zeros` of constant-false gates (free at any weight)    *)
(* and the set `used` of operand index pairs whose product was placed.     *)
(* Every event of the recorded call trace must be an ENABLED action:       *)
(*   pp    g = AND(A[j], B[i])   places g at weight (j-1)+(i-1), once      *)
(*         (squaring, A = B: each unordered pair once, one weight higher;  *)
(*          the diagonal bits a_i are live from the start at 2(i-1))       *)
(*   zero  g                     a constant-false gate                     *)
(*   pop   ins -> outs           a bit counter: all ins live at ONE weight *)
(*                               w; outs[k] becomes live at w + k - 1      *)
(*   sump  ins -> outs           the same with several bits per level      *)
(*   add   shift, a, b -> out    a[i] live at w0+i-1, b[j] at w0+shift+j-1 *)
(*                               out[k] becomes live at w0 + k - 1         *)
(*   wsum  <<w,l>>.. -> <<v,l>>  each l live at w; results live at v       *)
(* and at the end the returned bit k is live at weight k - 1, every        *)
(* operand pair was used, and what is left over is constant zero or has a  *)
(* weight beyond the result width (a product of an n- and an m-bit number  *)
(* is below 2^(n+m), so such carries are zero).  Each action preserves the *)
(* weighted sum by the identities of C07 (bit counters, adders, weighted   *)
(* sums), so an accepted trace is a structural proof of the product        *)
(* identity for EVERY operand value, at any width.  A rejected trace is    *)
(* reported as drift: the generator took a step the ledger does not know.  *)
(***************************************************************************)
EXTENDS Naturals, Integers, Sequences, FiniteSets, SequencesExt

LInit == [live |-> <<>>, zeros |-> {}, used |-> {}, ok |-> TRUE, why |-> "", at |-> 0]
LFail(st, why, at) == IF st.ok THEN [st EXCEPT !.ok = FALSE, !.why = why, !.at = at] ELSE st
LWeights(st, l) == {st.live[i][2] : i \in {j \in DOMAIN st.live : st.live[j][1] = l}}
LIndex(s, x) == IF \E i \in DOMAIN s : s[i] = x THEN CHOOSE i \in DOMAIN s : s[i] = x ELSE 0
LDrop(s, i) == SubSeq(s, 1, i - 1) \o SubSeq(s, i + 1, Len(s))
(* consume label l at weight w: a live entry, or a constant zero (free) *)
LConsume(st, l, w, at) ==
  IF ~st.ok THEN st
  ELSE LET i == LIndex(st.live, <<l, w>>) IN
       IF i # 0 THEN [st EXCEPT !.live = LDrop(@, i)]
       ELSE IF l \in st.zeros THEN st
       ELSE LFail(st, "a-consumed-bit-is-not-live-at-the-weight-it-is-used-at", at)
LConsumeAll(st, pairs, at) == FoldLeft(LAMBDA acc, p : LConsume(acc, p[1], p[2], at), st, pairs)
LProduce(st, pairs) == IF st.ok THEN [st EXCEPT !.live = @ \o pairs] ELSE st

MinOf(S) == CHOOSE x \in S : \A y \in S : x <= y
(* common weight of a group of labels (zeros excluded); {} if there is none *)
CommonWeights(st, labs) ==
  LET nz == {i \in DOMAIN labs : labs[i] \notin st.zeros \/ LWeights(st, labs[i]) # {}}
  IN IF nz = {} THEN {} ELSE
     {w \in LWeights(st, labs[CHOOSE i \in nz : TRUE]) : \A i \in nz : w \in LWeights(st, labs[i])}

LStep(st, ev, at, A, B) ==
  IF ~st.ok THEN st
  ELSE CASE ev.e = "pp" ->
         LET j == LIndex(A, ev.x)  i == LIndex(B, ev.y) IN
         IF j = 0 \/ i = 0 THEN LFail(st, "partial-product-of-something-else-than-one-bit-of-each-operand", at)
         ELSE IF A = B THEN      \* squaring: a_j a_i with j # i occurs twice in the square, i.e. once at one weight more
           LET lo == IF j < i THEN j ELSE i   hi == IF j < i THEN i ELSE j IN
           IF lo = hi THEN LFail(st, "diagonal-product-placed-as-a-gate", at)
           ELSE IF <<lo, hi>> \in st.used THEN LFail(st, "partial-product-placed-twice", at)
           ELSE [st EXCEPT !.live = Append(@, <<ev.g, (lo - 1) + (hi - 1) + 1>>), !.used = @ \cup {<<lo, hi>>}]
         ELSE IF <<j, i>> \in st.used THEN LFail(st, "partial-product-placed-twice", at)
         ELSE [st EXCEPT !.live = Append(@, <<ev.g, (j - 1) + (i - 1)>>), !.used = @ \cup {<<j, i>>}]
    [] ev.e = "zero" -> [st EXCEPT !.zeros = @ \cup {ev.g}]
    [] ev.e = "pop" ->
         LET W == CommonWeights(st, ev.ins) IN
         IF W = {} THEN
            IF \A i \in DOMAIN ev.ins : ev.ins[i] \in st.zeros      \* counting zeros gives zeros
            THEN [st EXCEPT !.zeros = @ \cup {ev.outs[q] : q \in DOMAIN ev.outs}]
            ELSE LFail(st, "bits-counted-together-are-not-live-at-one-common-weight", at)
         ELSE LET w == MinOf(W) IN
              LProduce(LConsumeAll(st, [i \in DOMAIN ev.ins |-> <<ev.ins[i], w>>], at),
                       [k \in DOMAIN ev.outs |-> <<ev.outs[k], w + k - 1>>])
    [] ev.e = "sump" ->
         LET W == CommonWeights(st, ev.ins) IN
         IF W = {} THEN LFail(st, "bits-counted-together-are-not-live-at-one-common-weight", at)
         ELSE LET w == MinOf(W)
                  outs == FoldLeft(LAMBDA acc, k : acc \o [q \in DOMAIN ev.outs[k] |-> <<ev.outs[k][q], w + k - 1>>],
                                   <<>>, [k \in DOMAIN ev.outs |-> k])
              IN LProduce(LConsumeAll(st, [i \in DOMAIN ev.ins |-> <<ev.ins[i], w>>], at), outs)
    [] ev.e = "add" ->
         LET ca == UNION {{w - (i - 1) : w \in LWeights(st, ev.a[i])} : i \in DOMAIN ev.a}
             cb == UNION {{w - ev.shift - (j - 1) : w \in LWeights(st, ev.b[j])} : j \in DOMAIN ev.b}
             fits(w0) == /\ w0 >= 0
                         /\ \A i \in DOMAIN ev.a : (w0 + i - 1) \in LWeights(st, ev.a[i]) \/ ev.a[i] \in st.zeros
                         /\ \A j \in DOMAIN ev.b : (w0 + ev.shift + j - 1) \in LWeights(st, ev.b[j]) \/ ev.b[j] \in st.zeros
             W == {w0 \in ca \cup cb : fits(w0)}
         IN IF W = {} THEN LFail(st, "numbers-added-are-not-live-at-consecutive-weights-with-the-given-shift", at)
            ELSE LET w0 == MinOf(W) IN
                 LProduce(LConsumeAll(LConsumeAll(st, [i \in DOMAIN ev.a |-> <<ev.a[i], w0 + i - 1>>], at),
                                      [j \in DOMAIN ev.b |-> <<ev.b[j], w0 + ev.shift + j - 1>>], at),
                          [k \in DOMAIN ev.out |-> <<ev.out[k], w0 + k - 1>>])
    [] ev.e = "wsum" ->
         LProduce(LConsumeAll(st, [i \in DOMAIN ev.ins |-> <<ev.ins[i][2], ev.ins[i][1]>>], at),
                  [k \in DOMAIN ev.outs |-> <<ev.outs[k][2], ev.outs[k][1]>>])
    [] OTHER -> st

LFinal(st, R, A, B, at) ==
  IF ~st.ok THEN st
  ELSE LET s2 == LConsumeAll(st, [k \in DOMAIN R |-> <<R[k], k - 1>>], at) IN
       IF ~s2.ok THEN LFail(st, "a-returned-bit-is-not-live-at-its-position", at)
       ELSE IF Cardinality(s2.used) # (IF A = B THEN (Len(A) * (Len(A) - 1)) \div 2 ELSE Len(A) * Len(B))
            THEN LFail(s2, "not-every-partial-product-was-placed", at)
       ELSE IF \E i \in DOMAIN s2.live : s2.live[i][2] < Len(R) /\ s2.live[i][1] \notin s2.zeros
            THEN LFail(s2, "a-live-bit-inside-the-result-width-was-dropped", at)
       ELSE s2

LedgerRun(t) ==     \* t = [A, B, ev, R]
  LET n == Len(t.ev)
      \* squaring (A = B): the diagonal products a_i a_i = a_i are live from the start, at weight 2 (i - 1)
      init == IF t.A = t.B THEN [LInit EXCEPT !.live = [i \in DOMAIN t.A |-> <<t.A[i], 2 * (i - 1)>>]] ELSE LInit
      run == FoldLeft(LAMBDA acc, k : LStep(acc, t.ev[k], k, t.A, t.B), init, [k \in 1 .. n |-> k])
  IN LFinal(run, t.R, t.A, t.B, n + 1)
=============================================================================
