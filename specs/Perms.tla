-------------------------------- MODULE Perms --------------------------------
(* Role G: all permutations of 1..K (the line orders of a bench document with K lines). *)
EXTENDS Naturals, Sequences, Json, TLC
CONSTANT K
VARIABLE p
Init == p = <<>>
Next == Len(p) < K /\ \E x \in (1 .. K) \ {p[j] : j \in DOMAIN p} : p' = Append(p, x)
Spec == Init /\ [][Next]_p
Emit == (Len(p) = K) => PrintT(ToJson(p))
=============================================================================
