------------------------------ MODULE Traversal ------------------------------
(***************************************************************************)
(* Role D for C20: the CODE-SHAPED traversals of circuit.py                *)
(*   - _traverse_circuit: one work list used as a stack (DFS) or queue     *)
(*     (BFS), node states UNVISITED / ENTERED / VISITED, hooks;            *)
(*   - top_sort: Kahn's algorithm with an in-degree map and a LIFO list    *)
(* are transcribed as state machines over ALL DAGs with N nodes (node k    *)
(* reads at most two earlier nodes, repetition allowed), all start         *)
(* sequences of length <= 2, both directions, both modes.  When a run      *)
(* terminates, the events it produced must be accepted by the ABSTRACT     *)
(* traversal specification of JudgeC20 - the very predicates that judge    *)
(* the recorded runs of the real code.                                     *)
(***************************************************************************)
EXTENDS JudgeC20
CONSTANT N
Nodes == 1 .. N
VARIABLES ops, mode, inv, start, queue, st, ev, pc, indeg, order
vars == <<ops, mode, inv, start, queue, st, ev, pc, indeg, order>>

OpSeqs(k) == UNION {[1 .. n -> 1 .. (k - 1)] : n \in 0 .. 2}
Circuit == [g |-> [k \in Nodes |-> [t |-> IF ops[k] = <<>> THEN "INPUT" ELSE "AND", o |-> ops[k]]],
            i |-> <<>>, o |-> <<>>, u |-> <<>>, b |-> <<>>]
UsersSeq(k) ==   \* users of k with multiplicity, in node order (what get_gate_users returns)
  FoldLeft(LAMBDA acc, w : acc \o SelectSeq(ops[w], LAMBDA x : x = k) , <<>>, [w \in Nodes |-> w])
UsersList(k) == FoldLeft(LAMBDA acc, w : acc \o [j \in 1 .. Occ(ops[w], k) |-> w], <<>>, [w \in Nodes |-> w])
NextOf(k) == IF inv THEN UsersList(k) ELSE ops[k]

Init == /\ ops \in {f \in [Nodes -> UNION {OpSeqs(k) : k \in Nodes}] : \A k \in Nodes : f[k] \in OpSeqs(k)}
        /\ mode \in {"DFS", "BFS", "KAHN"}
        /\ inv \in BOOLEAN
        /\ start \in UNION {[1 .. n -> Nodes] : n \in 0 .. 2}
        /\ (mode = "KAHN" => start = <<>>)
        /\ queue = start
        /\ st = [k \in Nodes |-> "U"]
        /\ ev = <<>>
        /\ pc = IF mode = "KAHN" THEN "kahn-init" ELSE "loop"
        /\ indeg = [k \in Nodes |-> 0]
        /\ order = <<>>

(*************************** _traverse_circuit ******************************)
PopIdx == IF mode = "BFS" THEN 1 ELSE Len(queue)
RmAt(q, j) == SubSeq(q, 1, j - 1) \o SubSeq(q, j + 1, Len(q))
Step ==
  /\ pc = "loop" /\ queue # <<>>
  /\ LET cur == queue[PopIdx] IN
     CASE st[cur] = "U" ->
            LET kids == SelectSeq(NextOf(cur), LAMBDA x : (IF x = cur THEN "E" ELSE st[x]) = "U")
                q1 == queue \o kids
            IN /\ ev' = ev \o <<[e |-> "enter", l |-> cur], [e |-> "yield", l |-> cur]>>
               /\ IF mode = "BFS"
                  THEN st' = [st EXCEPT ![cur] = "V"] /\ queue' = RmAt(q1, 1)
                  ELSE st' = [st EXCEPT ![cur] = "E"] /\ queue' = q1
       [] st[cur] = "E" ->
            /\ ev' = Append(ev, [e |-> "exit", l |-> cur])
            /\ st' = [st EXCEPT ![cur] = "V"]
            /\ queue' = RmAt(queue, PopIdx)
       [] OTHER ->
            /\ queue' = RmAt(queue, PopIdx) /\ UNCHANGED <<st, ev>>
  /\ UNCHANGED <<ops, mode, inv, start, pc, indeg, order>>
Finish ==
  /\ pc = "loop" /\ queue = <<>>
  /\ ev' = ev \o [j \in 1 .. Len(SelectSeq([k \in Nodes |-> k], LAMBDA k : st[k] = "U")) |->
                    [e |-> "unvisited", l |-> SelectSeq([k \in Nodes |-> k], LAMBDA k : st[k] = "U")[j]]]
  /\ pc' = "done"
  /\ UNCHANGED <<ops, mode, inv, start, queue, st, indeg, order>>

(******************************** top_sort **********************************)
Pred(k) == IF inv THEN Len(ops[k]) ELSE Len(UsersList(k))
Succs(k) == IF inv THEN UsersList(k) ELSE ops[k]
KahnInit ==
  /\ pc = "kahn-init"
  /\ indeg' = [k \in Nodes |-> Pred(k)]
  /\ queue' = SelectSeq([k \in Nodes |-> k], LAMBDA k : Pred(k) = 0)
  /\ pc' = "kahn"
  /\ UNCHANGED <<ops, mode, inv, start, st, ev, order>>
KahnStep ==
  /\ pc = "kahn" /\ queue # <<>>
  /\ LET cur == queue[Len(queue)]
         q0 == SubSeq(queue, 1, Len(queue) - 1)
         r == FoldLeft(LAMBDA acc, s :
                 LET d == acc.d[s] - 1
                 IN [d |-> [acc.d EXCEPT ![s] = d], q |-> IF d = 0 THEN Append(acc.q, s) ELSE acc.q],
               [d |-> indeg, q |-> q0], Succs(cur))
     IN /\ indeg' = r.d /\ queue' = r.q /\ order' = Append(order, cur)
  /\ UNCHANGED <<ops, mode, inv, start, st, ev, pc>>
KahnFinish ==
  /\ pc = "kahn" /\ queue = <<>> /\ pc' = "done"
  /\ UNCHANGED <<ops, mode, inv, start, queue, st, ev, indeg, order>>

Next == Step \/ Finish \/ KahnInit \/ KahnStep \/ KahnFinish
Spec == Init /\ [][Next]_vars

(* refinement obligations at termination: the abstract specification accepts the run *)
AbstractAccepts ==
  pc = "done" =>
    IF mode = "KAHN"
    THEN C20TopFails([c |-> Circuit, inv |-> inv, order |-> order, exc |-> ""]) = {}
    ELSE C20TravFails([c |-> Circuit, mode |-> mode, inverse |-> inv, start |-> start, topo |-> FALSE,
                       hooks |-> <<"enter", "exit", "unvisited">>, ev |-> ev, exc |-> ""]) = {}
Terminates == Len(ev) <= 4 * N + 2 /\ Len(queue) <= 2 + 2 * N * N
=============================================================================
