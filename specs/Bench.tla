-------------------------------- MODULE Bench --------------------------------
(***************************************************************************)
(* Bench documents as sequences of line records and what they denote.      *)
(*   [k |-> "in",  l]            INPUT(l)                                   *)
(*   [k |-> "out", l]            OUTPUT(l)                                  *)
(*   [k |-> "gate", l, t, ops]   l = t(ops)   (t an upper-case operator     *)
(*                               token; BUFF and VDD are aliases)           *)
(*   [k |-> "comment"], [k |-> "blank"]                                     *)
(* Declaration order is free (use before definition is allowed).  The      *)
(* rendering of a document as text (letter case of operator names, spaces  *)
(* around "=", "," and inside parentheses) is done by the harness.          *)
(***************************************************************************)
EXTENDS CircuitSem

Canon(t) == CASE t = "BUFF" -> "IFF" [] t = "VDD" -> "ALWAYS_TRUE" [] OTHER -> t
LinesOf(doc, kind) == SelectSeq(doc, LAMBDA ln : ln.k = kind)
Denote(doc) ==
  LET ins == LinesOf(doc, "in")
      gs == LinesOf(doc, "gate")
      outs == LinesOf(doc, "out")
      labs == {ins[j].l : j \in DOMAIN ins} \cup {gs[j].l : j \in DOMAIN gs}
  IN [g |-> [x \in labs |->
              IF \E j \in DOMAIN gs : gs[j].l = x
              THEN LET j == CHOOSE j \in DOMAIN gs : gs[j].l = x
                   IN [t |-> Canon(gs[j].t), o |-> gs[j].ops]
              ELSE [t |-> "INPUT", o |-> <<>>]],
      i |-> [j \in DOMAIN ins |-> ins[j].l],
      o |-> [j \in DOMAIN outs |-> outs[j].l],
      u |-> <<>>, b |-> <<>>]
(* a document is well formed when labels are declared once and everything used is declared *)
DocWF(doc) ==
  LET d == Denote(doc)
      decl == LinesOf(doc, "in") \o LinesOf(doc, "gate")
  IN /\ NoDup([j \in DOMAIN decl |-> decl[j].l])
     /\ WF1(d) /\ WF2(d) /\ ArityWF(d)

(* Format(c): the line records the printer is expected to produce (inputs, gates in storage
   order, outputs); design-level lemma Denote(Format(c)) = c is checked in BenchLemma.tla *)
FormatDoc(c) ==
  [j \in DOMAIN c.i |-> [k |-> "in", l |-> c.i[j]]]
  \o LET gl == SelectSeq(c.ord, LAMBDA x : c.g[x].t # "INPUT")
     IN [j \in DOMAIN gl |-> [k |-> "gate", l |-> gl[j],
                              t |-> IF c.g[gl[j]].t = "IFF" THEN "BUFF" ELSE c.g[gl[j]].t,
                              ops |-> c.g[gl[j]].o]]
  \o [j \in DOMAIN c.o |-> [k |-> "out", l |-> c.o[j]]]
=============================================================================
