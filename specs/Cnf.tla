--------------------------------- MODULE Cnf ---------------------------------
(***************************************************************************)
(* The circuit-to-CNF reduction as a specification (C05, role D): clause   *)
(* templates per gate type, the allocation of variables (inputs 1..n, then *)
(* gates in depth-first post-order from the selected outputs), the encoder *)
(* Tseytin(c, sel), and the statement of exactness.  CnfLemmas.tla checks  *)
(* with TLC that the templates force  top <=> GateFn  for every type and   *)
(* arity <= 4, and that Tseytin(c, sel) is exact for every circuit of a    *)
(* small universe.                                                         *)
(***************************************************************************)
EXTENDS JudgeCnf

Neg(l) == 0 - l
(* all sign patterns of the operands: one clause per operand assignment, forcing top *)
ParityClauses(top, lits, negated) ==
  LET n == Len(lits)
      pats == [1 .. n -> BOOLEAN]
  IN {[j \in 1 .. (n + 1) |->
         IF j <= n THEN (IF p[j] THEN Neg(lits[j]) ELSE lits[j])
         ELSE LET odd == Cardinality({x \in 1 .. n : p[x]}) % 2 = 1
              IN IF odd # negated THEN top ELSE Neg(top)] : p \in pats}

TemplateClauses(t, top, lits) ==      \* a SET of clauses (sequences of literals)
  LET n == Len(lits)
      each(f(_)) == {f(lits[j]) : j \in 1 .. n}
  IN CASE t = "ALWAYS_TRUE"  -> {<<top>>}
       [] t = "ALWAYS_FALSE" -> {<<Neg(top)>>}
       [] t \in {"NOT", "LNOT"} -> {<<lits[1], top>>, <<Neg(lits[1]), Neg(top)>>}
       [] t = "RNOT" -> {<<lits[2], top>>, <<Neg(lits[2]), Neg(top)>>}
       [] t \in {"IFF", "LIFF"} -> {<<lits[1], Neg(top)>>, <<Neg(lits[1]), top>>}
       [] t = "RIFF" -> {<<lits[2], Neg(top)>>, <<Neg(lits[2]), top>>}
       [] t = "AND"  -> each(LAMBDA l : <<l, Neg(top)>>) \cup {<<top>> \o [j \in 1 .. n |-> Neg(lits[j])]}
       [] t = "NAND" -> each(LAMBDA l : <<l, top>>) \cup {<<Neg(top)>> \o [j \in 1 .. n |-> Neg(lits[j])]}
       [] t = "OR"   -> each(LAMBDA l : <<Neg(l), top>>) \cup {<<Neg(top)>> \o lits}
       [] t = "NOR"  -> each(LAMBDA l : <<Neg(l), Neg(top)>>) \cup {<<top>> \o lits}
       [] t = "XOR"  -> ParityClauses(top, lits, FALSE)
       [] t = "NXOR" -> ParityClauses(top, lits, TRUE)
       [] t = "GT"   -> {<<lits[1], Neg(top)>>, <<Neg(lits[2]), Neg(top)>>, <<Neg(lits[1]), lits[2], top>>}
       [] t = "LT"   -> {<<Neg(lits[1]), Neg(top)>>, <<lits[2], Neg(top)>>, <<lits[1], Neg(lits[2]), top>>}
       [] t = "GEQ"  -> {<<Neg(lits[1]), top>>, <<lits[2], top>>, <<lits[1], Neg(lits[2]), Neg(top)>>}
       [] t = "LEQ"  -> {<<lits[1], top>>, <<Neg(lits[2]), top>>, <<Neg(lits[1]), lits[2], Neg(top)>>}
       [] t = "INPUT" -> {}

(* the encoder: clause set of the gates reachable from the selected outputs + unit clauses *)
Tseytin(c, sel) ==
  LET m == Alloc(c, sel)
      enc == DOMAIN m \ SeqSet(c.i)
  IN (UNION {TemplateClauses(c.g[l].t, m[l], [j \in DOMAIN c.g[l].o |-> m[c.g[l].o[j]]]) : l \in enc})
       \cup {<<m[c.o[sel[j] + 1]]>> : j \in DOMAIN sel}
AsSet(cl) == {cl[j] : j \in DOMAIN cl}
ClauseSets(cnf) == {AsSet(cl) : cl \in cnf}
(* DRIFT: the recorded clause list is not (as a set of literal sets) what this encoder produces *)
C05EncoderDrift(c) ==
  IF c.exc = "" /\ Dev = "" /\ WF1(c.c) /\ WF5(c.c)
     /\ ClauseSets(SeqSet(c.cnf)) # ClauseSets(Tseytin(c.c, c.sel))
  THEN {"cnf-differs-from-the-model-encoder"} ELSE {}
=============================================================================
