----------------------------- MODULE FuncUniverse -----------------------------
(* Role G: ALL Boolean functions {0,1}^N -> {0,1}^M as initial states (truth tables as row sets). *)
EXTENDS Naturals, Sequences, FiniteSets, SequencesExt, Json, TLC
CONSTANTS N, M
VARIABLE f
Rows == 0 .. (2 ^ N - 1)
Init == f \in [1 .. M -> SUBSET Rows]
Next == UNCHANGED f
Spec == Init /\ [][Next]_f
Emit == PrintT(ToJson([k \in 1 .. M |-> SetToSeq(f[k])]))
=============================================================================
