------------------------------ MODULE StackEval ------------------------------
(***************************************************************************)
(* Role D for C01 / C15: the CODE-SHAPED evaluators of circuit.py as state  *)
(* machines, over every circuit of a small universe and every partial      *)
(* three-valued input assignment:                                          *)
(*  - evaluate_circuit: an explicit stack seeded with the requested outputs; *)
(*    the top gate is evaluated once all its operands have a value,         *)
(*    otherwise the missing operands are pushed; untouched gates end up     *)
(*    Undefined;                                                           *)
(*  - evaluate_full_circuit: one pass along a topological order.            *)
(* At termination both must agree with the denotational three-valued        *)
(* semantics EvalPoint3 on the gates they are obliged to evaluate, and      *)
(* (soundness) every defined value is the Boolean value under every         *)
(* completion of the assignment.                                           *)
(***************************************************************************)
EXTENDS CircuitSem
CONSTANTS NI, NG, Types, AMAX
VARIABLES gs, outs, asg, stack, val, pc
vars == <<gs, outs, asg, stack, val, pc>>

Arities(t) == CASE t \in NullaryTypes -> {0} [] t \in UnaryTypes -> {1} [] t \in BinaryTypes -> {2} [] OTHER -> 2 .. AMAX
N == NI + Len(gs)
Lab(k) == "n" \o ToString(k)
Circ ==
  [g |-> [l \in {Lab(k) : k \in 1 .. N} |->
            LET k == CHOOSE k \in 1 .. N : Lab(k) = l
            IN IF k <= NI THEN [t |-> "INPUT", o |-> <<>>]
               ELSE [t |-> gs[k - NI].t, o |-> [j \in DOMAIN gs[k - NI].o |-> Lab(gs[k - NI].o[j])]]],
   i |-> [k \in 1 .. NI |-> Lab(k)], o |-> outs, u |-> <<>>, b |-> <<>>]

Init == /\ gs = <<>> /\ outs = <<>> /\ asg = <<>> /\ stack = <<>> /\ val = <<>> /\ pc = "build"
Build ==
  /\ pc = "build" /\ Len(gs) < NG
  /\ \E t \in Types : \E n \in Arities(t) : \E o \in [1 .. n -> 1 .. N] : gs' = Append(gs, [t |-> t, o |-> o])
  /\ UNCHANGED <<outs, asg, stack, val, pc>>
Start ==
  /\ pc = "build" /\ N >= 1
  /\ \E q \in UNION {[1 .. n -> 1 .. N] : n \in 1 .. 2} :
       /\ outs' = [j \in DOMAIN q |-> Lab(q[j])]
       /\ \E a \in [1 .. NI -> States3] :
            /\ asg' = [k \in {Lab(x) : x \in 1 .. NI} |-> a[CHOOSE x \in 1 .. NI : Lab(x) = k]]
            /\ val' = asg'
            \* queue_ = the requested outputs that are not inputs
            /\ stack' = SelectSeq(outs', LAMBDA l : l \notin {Lab(x) : x \in 1 .. NI})
  /\ pc' = "run"
  /\ UNCHANGED gs
Step ==
  /\ pc = "run" /\ stack # <<>>
  /\ LET c == Circ
         cur == stack[Len(stack)]
         missing == SelectSeq(Ops(c, cur), LAMBDA x : x \notin DOMAIN val)
     IN IF missing # <<>>
        THEN stack' = stack \o missing /\ val' = val
        ELSE /\ val' = (cur :> GateFn3(c.g[cur].t, [j \in DOMAIN Ops(c, cur) |-> val[Ops(c, cur)[j]]])) @@ val
             /\ stack' = SubSeq(stack, 1, Len(stack) - 1)
  /\ UNCHANGED <<gs, outs, asg, pc>>
Finish ==
  /\ pc = "run" /\ stack = <<>> /\ pc' = "done"
  /\ UNCHANGED <<gs, outs, asg, stack, val>>
Next == Build \/ Start \/ Step \/ Finish
Spec == Init /\ [][Next]_vars

(* refinement obligations *)
StackAgreesWithDenotation ==
  pc = "done" =>
    LET c == Circ
        ref == EvalPoint3(c, asg)
    IN /\ \A l \in Reach(c, SeqSet(outs)) : l \in DOMAIN val /\ val[l] = ref[l]
       /\ \A l \in DOMAIN val : val[l] = ref[l]
FullPassSound ==      \* evaluate_full_circuit = EvalPoint3; its defined values hold under every completion
  pc = "done" =>
    LET c == Circ
        ref == EvalPoint3(c, asg)
        bools == {b \in [DOMAIN asg -> BOOLEAN] : \A k \in DOMAIN asg : Refines(asg[k], b[k])}
    IN \A b \in bools : LET ev == EvalPoint(c, b) IN \A l \in Labels(c) : Refines(ref[l], ev[l])
StackBounded == Len(stack) <= 2 + N * (1 + AMAX)
=============================================================================
