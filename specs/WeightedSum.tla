----------------------------- MODULE WeightedSum -----------------------------
(***************************************************************************)
(* Role D for C07: level-by-level carry propagation of the weighted-sum    *)
(* generators (add_sum_n_weighted_bits(_naive): work lists sorted by       *)
(* level, full / half adders, carries one level up) with EVERY order in    *)
(* which bits of one level can be grouped.  A bit is the set of rows (input *)
(* assignments) on which it is TRUE.  For every weight vector of WVS:       *)
(*   SumPreserved      sum of live bits * 2^level = sum of in_j * 2^w_j     *)
(*   TerminalDistinct  when no adder applies, the levels are pairwise       *)
(*                     distinct - the two halves of the C07 identity        *)
(*   GateBound         at the end 5 * (full adders) + 2 * (half adders) is   *)
(*                     within the documented 5 n - 2 m (a half adder is     *)
(*                     only applied to the last two bits of a level)        *)
(***************************************************************************)
EXTENDS Naturals, FiniteSets, Sequences, Bags, TLC
CONSTANTS MaxLen, MaxWeight

WVS == UNION {[1 .. n -> 0 .. MaxWeight] : n \in 1 .. MaxLen}
VARIABLES wv, live, fa, ha
vars == <<wv, live, fa, ha>>
N == Len(wv)
Rows == 0 .. (2 ^ N - 1)
InBit(j) == {r \in Rows : (r \div 2 ^ (j - 1)) % 2 = 1}
One(e) == SetToBag({e})
BagOfSeq(s) == [e \in {s[i] : i \in DOMAIN s} |-> Cardinality({i \in DOMAIN s : s[i] = e})]
Init == /\ wv \in WVS
        /\ live = BagOfSeq([j \in 1 .. Len(wv) |-> <<{r \in 0 .. (2 ^ Len(wv) - 1) : (r \div 2 ^ (j - 1)) % 2 = 1}, wv[j]>>])
        /\ fa = 0 /\ ha = 0
Xor(x, y) == (x \ y) \cup (y \ x)
Maj(x, y, z) == (x \cap y) \cup (x \cap z) \cup (y \cap z)
AtLevel(w) == {e \in BagToSet(live) : e[2] = w}
CountAt(w) == LET S == AtLevel(w) IN
              LET RECURSIVE C(_)
                  C(T) == IF T = {} THEN 0 ELSE LET e == CHOOSE e \in T : TRUE IN CopiesIn(e, live) + C(T \ {e})
              IN C(S)
Full == \E x \in BagToSet(live) :
          \E y \in BagToSet(live (-) One(x)) :
            \E z \in BagToSet((live (-) One(x)) (-) One(y)) :
               /\ x[2] = y[2] /\ y[2] = z[2]
               /\ live' = (((live (-) One(x)) (-) One(y)) (-) One(z))
                            (+) One(<<Xor(Xor(x[1], y[1]), z[1]), x[2]>>) (+) One(<<Maj(x[1], y[1], z[1]), x[2] + 1>>)
               /\ fa' = fa + 1 /\ UNCHANGED <<wv, ha>>
(* the generators apply a half adder only when exactly two bits are left on a level *)
Half == \E x \in BagToSet(live) :
          \E y \in BagToSet(live (-) One(x)) :
               /\ x[2] = y[2] /\ CountAt(x[2]) = 2
               /\ live' = ((live (-) One(x)) (-) One(y)) (+) One(<<Xor(x[1], y[1]), x[2]>>) (+) One(<<x[1] \cap y[1], x[2] + 1>>)
               /\ ha' = ha + 1 /\ UNCHANGED <<wv, fa>>
Next == Full \/ Half
Spec == Init /\ [][Next]_vars /\ WF_vars(Next)

ValueAt(r) ==
  LET RECURSIVE S(_)
      S(T) == IF T = {} THEN 0 ELSE LET e == CHOOSE e \in T : TRUE IN
              (IF r \in e[1] THEN CopiesIn(e, live) * 2 ^ e[2] ELSE 0) + S(T \ {e})
  IN S(BagToSet(live))
Target(r) == LET RECURSIVE S(_)
                 S(j) == IF j = 0 THEN 0 ELSE (IF r \in InBit(j) THEN 2 ^ wv[j] ELSE 0) + S(j - 1)
             IN S(N)
SumPreserved == \A r \in Rows : ValueAt(r) = Target(r)
Terminal == ~ENABLED Next
TerminalDistinct == Terminal => \A e \in BagToSet(live) : CopiesIn(e, live) = 1 /\ \A f \in BagToSet(live) : f # e => f[2] # e[2]
(* the documented bound of the naive generator in its weakest form: 5 gates per full adder, 2 per half adder *)
GateBound == Terminal => 5 * fa + 2 * ha <= 5 * N - 2 * BagCardinality(live)
Terminates == <>Terminal
=============================================================================
