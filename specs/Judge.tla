-------------------------------- MODULE Judge --------------------------------
(***************************************************************************)
(* Role O: batch trace validation.  The recorder (harness/vf) writes what  *)
(* the real library did as a JSON list of cases; TLC consumes one step of  *)
(* one case per transition and judges it with the property predicates.     *)
(* Verdicts are total: a failing step prints the names of the failing      *)
(* clauses and the run goes on; Consumed (POSTCONDITION) demands that      *)
(* every step of every case was judged.                                    *)
(***************************************************************************)
EXTENDS JudgeC01, JudgeHist, Json, IOUtils, TLCExt

Cases == JsonDeserialize(IOEnv.CASES)

VARIABLES k, l
vars == <<k, l>>

NSteps(c) == IF "steps" \in DOMAIN c THEN Len(c.steps) ELSE 1
TotalSteps == FoldLeft(LAMBDA a, c : a + NSteps(c), 0, Cases)

HistFails(c, s) ==
  CASE c.prop = "C02" -> C02StepFails(c, s)

Fails(c, s) ==
  CASE c.kind = "eval"    -> C01EvalFails(c)
    [] c.kind = "optable" -> C01OpTableFails(c)
    [] c.kind = "ttcode"  -> C01TTCodeFails(c)
    [] c.kind = "hist"    -> HistFails(c, s)

Drift(c, s) == IF c.kind = "hist" THEN HistDrift(c, s) ELSE {}

Init == k = 1 /\ l = 1
Next == /\ k <= Len(Cases)
        /\ LET f == Fails(Cases[k], l)
               d == Drift(Cases[k], l)
           IN  /\ IF f = {} THEN TRUE ELSE PrintT(<<"VERDICT", Cases[k].id, l, f>>)
               /\ IF d = {} THEN TRUE ELSE PrintT(<<"DRIFT", Cases[k].id, l, d>>)
        /\ IF l < NSteps(Cases[k]) THEN l' = l + 1 /\ k' = k
                                    ELSE l' = 1 /\ k' = k + 1
Spec == Init /\ [][Next]_vars
Consumed == TLCGet("stats").diameter - 1 = TotalSteps
=============================================================================
