-------------------------------- MODULE Judge --------------------------------
(***************************************************************************)
(* Role O: batch trace validation.  The recorder (harness/vf) writes what  *)
(* the real library did as a JSON list of cases; TLC consumes one step of  *)
(* one case per transition and judges it with the property predicates.     *)
(* Verdicts are total: a failing step prints the names of the failing      *)
(* clauses and the run goes on; Consumed (POSTCONDITION) demands that      *)
(* every step of every case was judged.                                    *)
(***************************************************************************)
EXTENDS JudgeC01, JudgeHist, JudgeC15, JudgeC20, Passes, Cnf, JudgeFn, JudgeBench, JudgeCodec, JudgeSynth, JudgeArith, Json, IOUtils, TLCExt

(* The case file is deserialised ONCE (in Init, into TLC register 7); TLC would otherwise
   re-read the JSON file at every reference of a zero-arity definition built on IOEnv. *)
CasesFromFile == JsonDeserialize(IOEnv.CASES)
Cases == TLCGet(7)

VARIABLES k, l, e
vars == <<k, l, e>>

NSteps(c) == IF "steps" \in DOMAIN c THEN Len(c.steps) ELSE 1
TotalSteps == FoldLeft(LAMBDA a, c : a + NSteps(c), 0, Cases)

HistFails(c, s) ==
  CASE c.prop = "C02" -> C02StepFails(c, s)
    [] c.prop = "C02H" -> C02HStepFails(c, s)
    [] c.prop = "C19" -> C19StepFails(c, s)
    [] c.prop = "C10" -> C10StepFails(c, s)
    [] c.prop = "C14" -> C14StepFails(c, s)

Fails(c, s) ==
  CASE c.kind = "eval"    -> C01EvalFails(c)
    [] c.kind = "evaldeep" -> C01DeepFails(c)
    [] c.kind = "optable" -> C01OpTableFails(c)
    [] c.kind = "ttcode"  -> C01TTCodeFails(c)
    [] c.kind = "pattern" -> C01PatternFails(c)
    [] c.kind = "opcode"  -> C01OpCodeFails(c)
    [] c.kind = "hist"    -> HistFails(c, s)
    [] c.kind = "connectwide" -> C10WideFails(c)
    [] c.kind = "partial" -> C15Fails(c)
    [] c.kind = "partialdeep" -> C15DeepFails(c)
    [] c.kind = "minimize" -> C04Fails(c)
    [] c.kind = "arith"   -> ArithFails(c)
    [] c.kind = "synth"   -> C06Fails(c)
    [] c.kind = "codec"   -> C16CodecFails(c)
    [] c.kind = "codecdeep" -> C16DeepFails(c)
    [] c.kind = "bitio"   -> C16BitIOFails(c)
    [] c.kind = "dict"    -> C16DictFails(c)
    [] c.kind = "dbentry" -> C17EntryFails(c)
    [] c.kind = "lookup"  -> C17LookupFails(c)
    [] c.kind = "mlookup" -> C17ModelLookupFails(c)
    [] c.kind = "bench-rt"  -> C11RoundTripFails(c)
    [] c.kind = "bench-doc" -> C11DocFails(c)
    [] c.kind = "fn"      -> C12FnFails(c)
    [] c.kind = "model"   -> C12ModelFails(c)
    [] c.kind = "intfn"   -> C12IntFails(c)
    [] c.kind = "intfnwide" -> C12IntWideFails(c)
    [] c.kind = "cnf"     -> C05CnfFails(c)
    [] c.kind = "cnfdeep" -> C05DeepFails(c)
    [] c.kind = "csatdeep" -> C05DeepSatFails(c)
    [] c.kind = "csat"    -> C05SatFails(c)
    [] c.kind = "miter"   -> C13Fails(c)
    [] c.kind = "miterdeep" -> C13DeepFails(c)
    [] c.kind = "pass"    -> IF c.prop = "C03" THEN C03Fails(c) ELSE C18Fails(c)
    [] c.kind = "transformdeep" -> DeepTransformFails(c)
    [] c.kind = "trav"    -> C20TravFails(c)
    [] c.kind = "topsort" -> C20TopFails(c)
    [] c.kind = "travdeep" -> C20DeepFails(c)
    [] c.kind = "cycle"   -> C20CycleFails(c)
    [] c.kind = "draw"    -> C14DrawFails(c)
    [] c.kind = "same"    -> FailSet(<< <<c.what, c.a = c.b /\ c.exc = "">> >>)

Drift(c, s) == IF c.kind = "hist" THEN HistDrift(c, s)
               ELSE IF c.kind = "pass" THEN PassDrift(c)
               ELSE IF c.kind = "lookup" THEN C17LookupDrift(c)
               ELSE IF c.kind = "cnf" THEN C05CnfDrift(c) \cup C05EncoderDrift(c)
               ELSE IF c.kind = "cnfdeep" THEN C05DeepDrift(c)
               ELSE IF c.kind = "evaldeep" THEN C01DeepDrift(c)
               ELSE IF c.kind = "transformdeep" THEN DeepTransformDrift(c)
               ELSE IF c.kind = "arith" THEN ArithDrift(c)
               ELSE IF c.kind = "minimize" THEN C04ConeDrift(c) ELSE {}

(* The cases are cut into NCH contiguous chains; each chain is an independent linear
   behaviour (its own initial state), so that one JVM with several workers judges them in
   parallel.  A state is (k, l, e): case index, step index, last case of the chain. *)
NCH == IF "NCHAINS" \in DOMAIN IOEnv THEN atoi(IOEnv.NCHAINS) ELSE 1
ChainStart(c) == ((c - 1) * Len(Cases)) \div NCH + 1
ChainEnd(c) == (c * Len(Cases)) \div NCH

Init == /\ TLCSet(7, CasesFromFile)
        /\ \E c \in 1 .. NCH : k = ChainStart(c) /\ e = ChainEnd(c)
        /\ l = 1
Next == /\ k <= e
        /\ LET f == Fails(Cases[k], l)
               d == Drift(Cases[k], l)
           IN  /\ IF f = {} THEN TRUE ELSE PrintT(<<"VERDICT", Cases[k].id, l, f>>)
               /\ IF d = {} THEN TRUE ELSE PrintT(<<"DRIFT", Cases[k].id, l, d>>)
        /\ IF l < NSteps(Cases[k]) THEN l' = l + 1 /\ k' = k
                                    ELSE l' = 1 /\ k' = k + 1
        /\ e' = e
Spec == Init /\ [][Next]_vars
(* every step of every case was judged: one state per step plus one terminal state per chain *)
Consumed == TLCGet("distinct") = TotalSteps + NCH
=============================================================================
