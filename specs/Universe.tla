------------------------------ MODULE Universe ------------------------------
(***************************************************************************)
(* Role G (generation): the reachable states of this specification are     *)
(* exactly the netlists with NI inputs and at most NG non-input gates over *)
(* the gate types Types, where gate number k reads nodes 1 .. NI+k-1       *)
(* (nodes 1..NI are the inputs), operands chosen with repetition, n-ary    *)
(* gates of arity 2..AMAX.  TLC enumerates them exhaustively and prints    *)
(* each as one JSON line; the harness turns every line into real circuits  *)
(* (all labelings / storage orders / output choices are the harness's).    *)
(***************************************************************************)
EXTENDS GateSemantics, Json, TLC
CONSTANTS NI, NG, Types, AMAX

VARIABLE gs          \* Seq of [t |-> type, o |-> Seq(node index)]

Arities(t) == CASE t \in NullaryTypes -> {0}
                [] t \in UnaryTypes   -> {1}
                [] t \in BinaryTypes  -> {2}
                [] OTHER              -> 2 .. AMAX

Init == gs = <<>>
Next == /\ Len(gs) < NG
        /\ \E t \in Types : \E n \in Arities(t) :
             \E o \in [1 .. n -> 1 .. (NI + Len(gs))] :
                gs' = Append(gs, [t |-> t, o |-> o])
Spec == Init /\ [][Next]_gs

\* evaluated once per distinct state
Emit == PrintT(ToJson(gs))
=============================================================================
