------------------------------ MODULE JudgeSynth ------------------------------
(* C06 soundness: kind "synth" - whatever circuit search returns obeys the request. *)
EXTENDS JudgeCore

(* node numbers of the request (inputs 0..n-1, gates n..n+r-1) are mapped to labels through the
   order in which the returned circuit stores its gates (inputs first, then the gates in the
   order they were added) - no assumption about how labels are spelled *)
CodeOfGate(g) == TTCode(g.t)

RECURSIVE C06Fails(_)
C06Fails(c) ==
  IF c.result = "nosolution"
  THEN \* completeness of such claims is decided by Synth.tla - except for a planted instance, which carries a circuit
       \* (c.witness) that is checked against the request by the very clauses a returned circuit is checked by
       IF Has(c, "witness") /\ C06Fails([result |-> "circuit", c |-> c.witness] @@ [x \in DOMAIN c \ {"witness"} |-> c[x]]) = {}
       THEN {"no-solution-reported-although-the-planted-circuit-is-one"} ELSE {}
  \* under a time limit the search may give up: neither a circuit nor a claim
  ELSE IF c.result = "SolverTimeOutError" /\ Has(c, "time_limit") /\ c.time_limit > 0 THEN {}
  ELSE IF c.result # "circuit" THEN {"find_circuit-raised:" \o c.result}
  ELSE
  LET ck == c.c   n == c.n   r == c.r
      shape0 == Len(ck.ord) = n + r /\ Len(ck.i) = n /\ Cardinality(DOMAIN ck.g) = n + r /\ NoDup(ck.ord)
                  /\ SeqSet(ck.ord) = DOMAIN ck.g
      NodeLabel(nn, x) == ck.ord[x + 1]
      gates == [x \in n .. (n + r - 1) |-> NodeLabel(n, x)]
      nodeOf(l) == CHOOSE x \in 0 .. (n + r - 1) : NodeLabel(n, x) = l
      shape == /\ shape0
               /\ ck.i = [j \in 1 .. n |-> NodeLabel(n, j - 1)]
               /\ NonInputSet(ck) = {gates[x] : x \in n .. (n + r - 1)}
               /\ InputSet(ck) = {NodeLabel(n, x) : x \in 0 .. (n - 1)}
      \* evaluated only when the shape is right; the clauses below that look INTO the gates are evaluated only when
      \* every gate is binary over existing nodes (the verdicts are total: an ill-formed result is reported, not a crash)
      binOK == \A x \in n .. (n + r - 1) :
                 LET g == ck.g[gates[x]] IN
                 /\ Len(g.o) = 2 /\ g.o[1] # g.o[2]
                 /\ g.o[1] \in Labels(ck) /\ g.o[2] \in Labels(ck)
                 /\ nodeOf(g.o[1]) < x /\ nodeOf(g.o[2]) < x
  IN IF ~shape THEN {"exactly-the-requested-number-of-gates-and-inputs"}
  ELSE FailSet(<<
    <<"gates-binary-over-two-distinct-earlier-nodes", binOK>>,
    <<"gate-type-outside-basis",
        \A x \in n .. (n + r - 1) : ck.g[gates[x]].t \in SeqSet(c.basis)>>,
    <<"output-count-and-outputs-at-gates",
        Len(ck.o) = c.m /\ \A k \in DOMAIN ck.o : ck.o[k] \in Labels(ck) /\ ck.o[k] \in NonInputSet(ck)>>,
    <<"disagrees-with-the-model-on-a-defined-entry",
        Len(ck.o) # c.m \/ ~binOK \/ ~WF1(ck) \/ ~WF5(ck) \/ ~(SeqSet(ck.o) \subseteq Labels(ck)) \/
        LET tt == TT(ck) IN
        \A o \in 1 .. c.m : \A row \in AllRows(n) :
           c.mtt[o][row + 1] = 2 \/ ((c.mtt[o][row + 1] = 1) <=> (row \in tt[o]))>>,
    <<"normalisation-violated",
        ~c.norm \/ \A x \in n .. (n + r - 1) : SubSeq(CodeOfGate(ck.g[gates[x]]), 1, 1) = "0">>,
    <<"fixed-gate-constraint-violated",
        ~binOK \/ \A j \in DOMAIN c.fix :
           LET f == c.fix[j]
               g == ck.g[NodeLabel(n, f.g)]
               ops == {nodeOf(g.o[1]), nodeOf(g.o[2])}
           IN /\ f.p1 >= 0 => f.p1 \in ops
              /\ f.p2 >= 0 => f.p2 \in ops
              /\ f.t # "" => CodeOfGate(g) = TTCode(f.t)>>,
    <<"forbidden-wire-used",
        ~binOK \/ \A j \in DOMAIN c.forbid :
           LET g == ck.g[NodeLabel(n, c.forbid[j].to)]
           IN NodeLabel(n, c.forbid[j].from) \notin {g.o[1], g.o[2]}>>
  >>)
=============================================================================
