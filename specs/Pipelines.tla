------------------------------ MODULE Pipelines ------------------------------
(* Role G: all sequences of simplification passes of length <= MaxLen. *)
EXTENDS Naturals, Sequences, Json, TLC
CONSTANT MaxLen
(* UPOST / UNEST: user-defined passes with implied post / nested pre+post passes (harness/vf/drivers/_passes.py) *)
Leaves == {"RRG", "RRGI", "MUO", "MDG", "MEG", "UPOST", "UNEST"}
VARIABLE p
Init == p = <<>>
Next == Len(p) < MaxLen /\ \E x \in Leaves : p' = Append(p, x)
Spec == Init /\ [][Next]_p
Emit == PrintT(ToJson(p))
=============================================================================
