------------------------------ MODULE Pipelines ------------------------------
(* Role G: all sequences of simplification passes of length <= MaxLen. *)
EXTENDS Naturals, Sequences, Json, TLC
CONSTANT MaxLen
Leaves == {"RRG", "RRGI", "MUO", "MDG", "MEG"}
VARIABLE p
Init == p = <<>>
Next == Len(p) < MaxLen /\ \E x \in Leaves : p' = Append(p, x)
Spec == Init /\ [][Next]_p
Emit == PrintT(ToJson(p))
=============================================================================
