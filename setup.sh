#!/bin/sh
# setup_cmd: offline; verifies the toolchain and parses every specification module.
set -e
DIR="$(cd "$(dirname "$0")" && pwd)"
cd "$DIR/specs"
command -v java >/dev/null
test -f /opt/veriftools/tla/tla2tools.jar
test -x /usr/bin/z3
for m in *.tla; do
  out=$(java -cp /opt/veriftools/tla/tla2tools.jar:/opt/veriftools/tla/CommunityModules-deps.jar tla2sany.SANY "$m" 2>&1) || { echo "$out"; echo "SANY failed on $m"; exit 1; }
  if echo "$out" | grep -qiE "^\*\*\* Errors|Fatal errors|Could not|Cannot find"; then echo "$out"; echo "SANY errors in $m"; exit 1; fi
done
cd "$DIR"
/venv/bin/python -c "import sys; sys.path.insert(0, 'harness'); import vf; import cirbo.core, cirbo.sat, cirbo.synthesis; print('cirbo importable from', vf.REPO)"
mkdir -p evidence
echo "setup ok"
