#!/bin/sh
# developer artifact (not a registered check): re-checks the TLAPS proofs (tlapm is pre-installed)
cd "$(dirname "$0")" && tlapm --cleanfp AdderProofs.tla 2>&1 | tail -3
