---------------------------- MODULE AdderProofs ----------------------------
(***************************************************************************)
(* TLAPS-checked lemmas behind the width-independent reading of            *)
(* Compress.tla, WeightedSum.tla and Ledger.tla: one full / half adder     *)
(* step preserves the weighted sum of the bits it touches, for arbitrary   *)
(* weights - so the sum invariant of those machines is inductive at any    *)
(* width, not only at the widths TLC enumerates.                           *)
(***************************************************************************)
EXTENDS Naturals, TLAPS

B(x) == IF x THEN 1 ELSE 0
Xor(x, y) == (x /\ ~y) \/ (~x /\ y)
Maj(x, y, z) == (x /\ y) \/ (x /\ z) \/ (y /\ z)

THEOREM FullAdder ==
  \A a, b, c \in BOOLEAN : B(a) + B(b) + B(c) = B(Xor(Xor(a, b), c)) + 2 * B(Maj(a, b, c))
  BY DEF B, Xor, Maj

THEOREM HalfAdder ==
  \A a, b \in BOOLEAN : B(a) + B(b) = B(Xor(a, b)) + 2 * B(a /\ b)
  BY DEF B, Xor

(* the step at weight w: p is 2^w, any natural number *)
THEOREM FullAdderAtWeight ==
  \A a, b, c \in BOOLEAN : \A p \in Nat :
     p * B(a) + p * B(b) + p * B(c) = p * B(Xor(Xor(a, b), c)) + (2 * p) * B(Maj(a, b, c))
  <1> SUFFICES ASSUME NEW a \in BOOLEAN, NEW b \in BOOLEAN, NEW c \in BOOLEAN, NEW p \in Nat
               PROVE  p * B(a) + p * B(b) + p * B(c) = p * B(Xor(Xor(a, b), c)) + (2 * p) * B(Maj(a, b, c))
      OBVIOUS
  <1>1. CASE a = TRUE /\ b = TRUE /\ c = TRUE
        BY <1>1 DEF B, Xor, Maj
  <1>2. CASE a = TRUE /\ b = TRUE /\ c = FALSE
        BY <1>2 DEF B, Xor, Maj
  <1>3. CASE a = TRUE /\ b = FALSE /\ c = TRUE
        BY <1>3 DEF B, Xor, Maj
  <1>4. CASE a = TRUE /\ b = FALSE /\ c = FALSE
        BY <1>4 DEF B, Xor, Maj
  <1>5. CASE a = FALSE /\ b = TRUE /\ c = TRUE
        BY <1>5 DEF B, Xor, Maj
  <1>6. CASE a = FALSE /\ b = TRUE /\ c = FALSE
        BY <1>6 DEF B, Xor, Maj
  <1>7. CASE a = FALSE /\ b = FALSE /\ c = TRUE
        BY <1>7 DEF B, Xor, Maj
  <1>8. CASE a = FALSE /\ b = FALSE /\ c = FALSE
        BY <1>8 DEF B, Xor, Maj
  <1> QED BY <1>1, <1>2, <1>3, <1>4, <1>5, <1>6, <1>7, <1>8

(* the borrow cell of the subtractors: a - b - bal = d - 2 * borrow, written without negative numbers *)
THEOREM Sub3Cell ==
  \A a, b, c \in BOOLEAN :
     LET x3 == Xor(a, b)  x4 == Xor(b, c)  x5 == x3 \/ x4  d == Xor(c, x3)  bo == Xor(a, x5)
     IN B(a) + 2 * B(bo) = B(d) + B(b) + B(c)
  BY DEF B, Xor
=============================================================================
