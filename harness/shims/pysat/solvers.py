import os
import subprocess
import tempfile

Z3 = '/usr/bin/z3'


def _dpll(clauses, nv):
    """Tiny complete DPLL with unit propagation (iterative on a trail copy)."""
    assign = {}

    def simplify(cls, lit):
        out = []
        for c in cls:
            if lit in c:
                continue
            if -lit in c:
                c2 = [x for x in c if x != -lit]
                if not c2:
                    return None
                out.append(c2)
            else:
                out.append(c)
        return out

    def rec(cls, asg):
        while True:
            unit = None
            for c in cls:
                if len(c) == 1:
                    unit = c[0]
                    break
            if unit is None:
                break
            asg = dict(asg)
            asg[abs(unit)] = unit > 0
            cls = simplify(cls, unit)
            if cls is None:
                return None
        if not cls:
            return asg
        lit = cls[0][0]
        for choice in (lit, -lit):
            c2 = simplify(cls, choice)
            if c2 is not None:
                a2 = dict(asg)
                a2[abs(choice)] = choice > 0
                r = rec(c2, a2)
                if r is not None:
                    return r
        return None

    for c in clauses:
        if len(c) == 0:
            return None
    res = rec([list(dict.fromkeys(c)) for c in clauses], assign)
    if res is None:
        return None
    return [v if res.get(v, False) else -v for v in range(1, nv + 1)]


def solve_clauses(clauses):
    """-> model (list of signed ints for variables 1..maxvar) or None if unsatisfiable."""
    nv = 0
    for c in clauses:
        for lit in c:
            if abs(lit) > nv:
                nv = abs(lit)
    if any(len(c) == 0 for c in clauses):
        return None
    if nv <= 24 and len(clauses) <= 400:
        return _dpll(clauses, nv)
    fd, path = tempfile.mkstemp(suffix='.cnf', prefix='vfsat')
    try:
        with os.fdopen(fd, 'w') as f:
            f.write(f'p cnf {nv} {len(clauses)}\n')
            f.write('\n'.join(' '.join(map(str, c)) + ' 0' for c in clauses))
            f.write('\n')
        p = subprocess.run([Z3, '-dimacs', path], capture_output=True, text=True)
    finally:
        os.unlink(path)
    out = p.stdout
    if 's UNSATISFIABLE' in out:
        return None
    if 's SATISFIABLE' not in out:
        raise RuntimeError('solver shim: unexpected z3 output: ' + out[:200] + p.stderr[:200])
    model = {}
    for ln in out.split('\n'):
        if ln.startswith('v'):
            for tok in ln[1:].split():
                x = int(tok)
                if x != 0:
                    model[abs(x)] = x > 0
    return [v if model.get(v, False) else -v for v in range(1, nv + 1)]


class SolverNames:
    cadical195 = ('cd19', 'cd195', 'cdl19', 'cdl195', 'cadical195')


class Solver:
    def __init__(self, name='cadical195', bootstrap_with=None, **kwargs):
        self.name = name
        self.clauses = []
        self._model = None
        self._status = None
        if bootstrap_with is not None:
            self.append_formula(bootstrap_with)

    def add_clause(self, clause, no_return=True):
        self.clauses.append(list(clause))

    def append_formula(self, formula, no_return=True):
        for c in formula:
            self.clauses.append(list(c))

    def solve(self, assumptions=()):
        cls = self.clauses + [[a] for a in assumptions]
        self._model = solve_clauses(cls)
        self._status = self._model is not None
        return self._status

    def get_model(self):
        return self._model if self._status else None

    def delete(self):
        self.clauses = []

    def __enter__(self):
        return self

    def __exit__(self, *a):
        self.delete()
        return False
