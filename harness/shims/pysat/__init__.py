"""Minimal stand-in for the `pysat` package (python-sat), used only when the real package
is not installed.  Implements exactly the subset cirbo calls.  Backed by a small in-process
DPLL for tiny formulas and by `/usr/bin/z3 -dimacs` otherwise: a sound and complete solver,
which is all the properties C05/C06/C13/C04 quantify over."""
