class CNF:
    def __init__(self, from_clauses=None):
        self.clauses = []
        self.nv = 0
        if from_clauses is not None:
            self.extend(from_clauses)

    def append(self, clause):
        cl = list(clause)
        for lit in cl:
            if abs(lit) > self.nv:
                self.nv = abs(lit)
        self.clauses.append(cl)

    def extend(self, clauses):
        for cl in clauses:
            self.append(cl)

    def __iter__(self):
        return iter(self.clauses)

    def __len__(self):
        return len(self.clauses)


class IDPool:
    def __init__(self, start_from=1):
        self.top = start_from - 1
        self.obj2id = {}
        self.id2obj = {}

    def id(self, obj=None):
        if obj is None:
            self.top += 1
            return self.top
        if obj not in self.obj2id:
            self.top += 1
            self.obj2id[obj] = self.top
            self.id2obj[self.top] = obj
        return self.obj2id[obj]

    def obj(self, vid):
        return self.id2obj.get(vid)
