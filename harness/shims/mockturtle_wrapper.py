"""Pure-Python stand-in for the C++ extension `mockturtle_wrapper` (used only when the
real extension is not installed).  enumerate_cuts(bench_text, cut_size, cut_limit,
fanout_size) returns, for every node, its k-feasible cuts (lists of leaf labels, leaves in
topological order) with the trivial cut [node] last - the output shape of the real wrapper.

C04 is quantified over "whatever valid family of cuts the cut enumerator supplies"; with
the environment variable VF_CUT_SEED set, the family is perturbed (random order, random
sub-family that always keeps the trivial cut) under that seed.
"""

import itertools
import os
import random


def _parse(bench_text):
    from cirbo.core.circuit import Circuit

    return Circuit.from_bench_string(bench_text)


def enumerate_cuts(bench_text, cut_size=5, cut_limit=25, fanout_size=10000):
    c = _parse(bench_text)
    order = [g.label for g in c.top_sort(inverse=True)]
    pos = {l: i for i, l in enumerate(order)}
    cuts = {}
    for label in order:
        g = c.get_gate(label)
        if not g.operands:
            cuts[label] = [(label,)]
            continue
        ops = list(dict.fromkeys(g.operands))
        merged = set()
        for combo in itertools.product(*[cuts[o] for o in ops]):
            s = frozenset(x for cut in combo for x in cut)
            if len(s) <= cut_size:
                merged.add(s)
        # drop dominated cuts (a proper superset of another cut)
        keep = [s for s in merged if not any(o < s for o in merged)]
        keep.sort(key=lambda s: (len(s), sorted(pos[x] for x in s)))
        keep = keep[: max(0, cut_limit - 1)]
        cuts[label] = [tuple(sorted(s, key=lambda x: pos[x])) for s in keep] + [(label,)]
    seed = os.environ.get('VF_CUT_SEED')
    if seed not in (None, '', '0'):
        rng = random.Random(int(seed))
        for label in cuts:
            body = cuts[label][:-1]
            rng.shuffle(body)
            if body and rng.random() < 0.3:
                body = body[: rng.randint(1, len(body))]
            cuts[label] = body + [cuts[label][-1]]
    return {label: [list(cut) for cut in cuts[label]] for label in order}
