# Developer tool (not a registered check): PYTHONPATH=harness /venv/bin/python harness/totality.py Cnn
"""Judge totality: library-produced circuit projections inside recorded cases are corrupted (dangling operand,
used gate dropped, self-loop, operand list emptied) and the judge must still complete (verdicts, no crash)."""
import copy, importlib, json, random, sys
import vf
from vf import tlc
from vf.runner import strip_src

INPUT_FIELDS = {'pre', 'orig', 'l', 'r', 'init', 'a', 'other', 'sub', 'other_before'}

def circuits_in(obj, path=()):
    if isinstance(obj, dict):
        if {'g', 'ord', 'i', 'o'} <= set(obj) and isinstance(obj['g'], dict):
            yield path, obj
        else:
            for k, v in obj.items():
                yield from circuits_in(v, path + (k,))
    elif isinstance(obj, list):
        for j, v in enumerate(obj):
            yield from circuits_in(v, path + (j,))

def corrupt(circ, how, rng):
    g = circ['g']
    labs = [l for l in g if g[l]['o']]
    if not labs:
        return False
    l = rng.choice(labs)
    if how == 0:
        g[l]['o'][0] = 'missing'
    elif how == 1:
        victim = g[l]['o'][0]
        g.pop(victim, None)
        if victim in circ['ord']:
            circ['ord'].remove(victim)
    elif how == 2:
        g[l]['o'][0] = l
    else:
        g[l]['o'] = []
    return True

def main(prop, n=25):
    drv = importlib.import_module(f'vf.drivers.{prop.lower()}')
    ctx = {}
    srcs = drv.sources('quick', 0, ctx)
    rng = random.Random(1)
    rng.shuffle(srcs)
    cases = []
    for s in srcs[:n]:
        try:
            r = drv.record(s)
        except Exception as e:
            continue
        cases.extend(r if isinstance(r, list) else [r])
    bad = []
    for c in cases[:60]:
        targets = [(p, x) for p, x in circuits_in(c) if p and p[0] != 'src' and p[-1] not in INPUT_FIELDS and not (len(p) >= 2 and p[-2] == 'steps' and False)]
        for how in range(4):
            cc = copy.deepcopy(c)
            done = False
            for p, _ in targets:
                node = cc
                for k in p:
                    node = node[k]
                done |= corrupt(node, how, rng)
            if done:
                bad.append(cc)
    for j, c in enumerate(bad):
        c['id'] = f'tot-{j}'
    if not bad:
        print(prop, 'no library-produced circuits found')
        return 0
    try:
        v, st = tlc.run_judge([strip_src(c) for c in bad], tag=f'tot-{prop}', jobs=4)
        print(prop, len(bad), 'corrupted cases judged,', len(v), 'with verdicts')
        return 0
    except Exception as e:
        msg = str(e)
        print(prop, 'JUDGE CRASH on corrupted observations:', msg[-900:])
        return 1

if __name__ == '__main__':
    sys.exit(main(sys.argv[1]))
