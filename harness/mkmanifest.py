"""Regenerates /verif/MANIFEST.json from the table below (keeps it schema-valid)."""
import json, os
V = os.path.dirname(os.path.dirname(os.path.abspath(__file__)))
BASE = 'cd /repo && /venv/bin/python -m pytest -ra -q -p no:cacheprovider --timeout=900 --continue-on-collection-errors'
ALL = [f'C{n:02d}' for n in range(1, 21)]
CHECKS = {
 'C01': dict(cat='model_checking', ref='5 (C01)',
   text='Bounded-exhaustive: TLC enumerates every netlist of the universe U(2,2,18 types,arity<=3) (thorough: also U(3,3,T6,2), U(3,2,18,3)); each is built in the real library (plain / relabelled / non-topological storage), all 2^n rows are pushed through all seven evaluation entry points and TLC judges every recorded value against the denotational semantics (GateSet/GateTT of the specification); plus seeded random circuits up to 6 inputs / 30 gates / arity 5 and per-type operator tables. GateLemmas.tla proves (exhaustively, arity<=4) that the row-set, three-valued, bench-rewrite and truth-table-code renderings denote the one GateFn.',
   note='Trusted: TLC, the specification modules GateSemantics/CircuitSem, the recorder (transcribes return values only). CNF templates, synthesis codes and pattern simulation are bound in C05/C06/C04 rather than here.',
   tech='TLA+ reference semantics; TLC-enumerated circuits replayed into cirbo; recorded evaluations validated by a TLC trace specification'),
}
PENDING = 'check not built yet in this round (work in progress; see DESIGN.md section 5)'
m = {
 'version': 1,
 'setup_cmd': './setup.sh',
 'hooks': {'guard': 'CIRBO_VERIF_TRACE', 'enable': 'no source hooks: the harness wraps public Circuit methods from outside when CIRBO_VERIF_TRACE=1; checks import cirbo from /repo working tree', 'baseline_off_cmd': BASE, 'source_commits': [], 'add_only': True},
 'engines': [{'name': 'tla-judge', 'path': 'specs/ + harness/vf', 'serves_properties': sorted(CHECKS), 'kind_free_text': 'TLA+ specification checked by TLC; TLC-generated circuits/behaviours replayed into cirbo; recorded cirbo behaviour validated by TLC trace specifications (Judge.tla)'}],
 'checks': [],
 'notes': 'All checks: ./check <id> --tier quick|thorough; exit 0 held / 1 VIOLATION / 2 machinery failure. VERIF_SEED seeds every random choice.',
 'not_applicable': [{'property_id': p, 'reason': PENDING} for p in ALL if p not in CHECKS],
}
for p in sorted(CHECKS):
    c = CHECKS[p]
    m['checks'].append({
        'property_id': p,
        'quick_cmd': f'./check {p} --tier quick',
        'thorough_cmd': f'./check {p} --tier thorough',
        'evidence_file': f'evidence/{p}.json',
        'replay_cmd_template': f'./check {p} --replay {{path}}',
        'engine': 'tla-judge',
        'level_claimed': {'category': c['cat'], 'text': c['text'], 'design_ref': c['ref']},
        'level_note': c['note'],
        'technique': c['tech'],
    })
json.dump(m, open(os.path.join(V, 'MANIFEST.json'), 'w'), indent=1)
print('MANIFEST.json written:', len(m['checks']), 'checks,', len(m['not_applicable']), 'not_applicable')
