"""Regenerates /verif/MANIFEST.json from the table below (keeps it schema-valid)."""
import json, os
V = os.path.dirname(os.path.dirname(os.path.abspath(__file__)))
BASE = 'cd /repo && /venv/bin/python -m pytest -ra -q -p no:cacheprovider --timeout=900 --continue-on-collection-errors'
ALL = [f'C{n:02d}' for n in range(1, 21)]
CHECKS = {
 'C01': dict(cat='model_checking', ref='5 (C01)',
   text='Bounded-exhaustive: TLC enumerates every netlist of the universe U(2,2,18 types,arity<=3) (thorough: also U(3,3,T6,2), U(3,2,18,3)); each is built in the real library (plain / relabelled / non-topological storage), all 2^n rows are pushed through all seven evaluation entry points and TLC judges every recorded value against the denotational semantics (GateSet/GateTT of the specification); plus seeded random circuits up to 6 inputs / 30 gates / arity 5 and per-type operator tables. GateLemmas.tla proves (exhaustively, arity<=4) that the row-set, three-valued, bench-rewrite and truth-table-code renderings denote the one GateFn. The CNF template of every gate type is judged for exactness on one-gate circuits, the pattern simulation of the subcircuit minimiser on all 16 x 16 operand patterns; what the library raises while a gate table is read is an observation.',
   note='Trusted: TLC, the specification modules GateSemantics/CircuitSem, the recorder (transcribes return values only). CNF templates, synthesis codes and pattern simulation are bound in C05/C06/C04 rather than here.',
   tech='TLA+ reference semantics; TLC-enumerated circuits replayed into cirbo; recorded evaluations validated by a TLC trace specification'),

 'C02': dict(cat='model_checking', ref='5 (C02)',
   text='CircuitAPI.tla models every public mutator (validation = enabling condition, users index updated incrementally exactly where the code does); TLC checks WF1-WF6 in every reachable state within the bounds and prints every transition as the call history reaching it; each history (plus tlc -simulate behaviours over 18 types and seeded adaptive random histories with invalid arguments, right-connection, replace_subcircuit, slices, copy) is replayed call by call into cirbo, and a TLC trace specification judges WF1-WF6, both top_sort directions and copy equality/independence on the projected real state after every call; agreement of the real next state with the model is reported as drift.',
   note='Trusted: TLC, projection (public accessors only), replay glue. Bounded exhaustive (Pool5, T6, <=3(+2) gates, depth 3 quick / 4 thorough), sampled beyond.',
   tech='TLA+ state machine of the Circuit API model-checked by TLC; every TLC transition replayed into cirbo; recorded states validated by a TLC trace specification'),
 'C10': dict(cat='model_checking', ref='5 (C10)',
   text='All connect transitions of the CircuitAPI exploration, thousands of TLC-enumerated circuit pairs with seed-chosen connectors (internal gates, repeated connectors, partial lists, six entry points, naming/prefix) and random repeated compositions are replayed into cirbo; TLC evaluates the two-stage denotational composition (independent of how the code splices) and judges interface, truth table, non-modification of the attached circuit and block re-extraction. A composition the documentation allows (the enabling condition of the CircuitOps model holds) must be carried out: a raise is a verdict; calls outside the quantifier are not judged.',
   note='Trusted: TLC, CircuitSem/JudgeHist.C10Expected, projection. Region left unjudged: right-connection pairing one primary input of the attached circuit with several base inputs; block re-extraction only for repeat-free connectors.',
   tech='TLA+ denotational composition evaluated by TLC on recorded connect calls generated from the TLC-explored API model'),
 'C14': dict(cat='model_checking', ref='5 (C14)',
   text='into_bench is replayed on every TLC-enumerated universe circuit over all 18 types (with blocks, repeated outputs) and on API-model transitions and random histories; TLC judges interface, truth tables of all original gates, remaining type set, well-formedness (users index) and block membership of helper gates; into_graphviz_digraph(as_bench=True) must leave its receiver unchanged. GateLemmas.RewriteKeeps proves the rewrite table at the gate level. The dot text of into_graphviz_digraph(as_bench=True) is parsed: only bench symbols, every helper gate inside each block cluster of the gate it feeds.',
   note='Trusted: TLC, CircuitSem, projection. Circuits with constants but no input are outside the property.',
   tech='TLC-enumerated circuits replayed into cirbo; recorded conversions validated by a TLC trace specification'),
 'C19': dict(cat='model_checking', ref='5 (C19)',
   text='rename_gate / replace_inputs / remove_gate transitions of the exhaustive CircuitAPI exploration, universe circuits with one rewrite each, and random histories rich in replace_subcircuit (cut-bounded cones replaced by equivalent relabelled copies) are replayed into cirbo; TLC judges isomorphism under the label substitution, the cofactor identity over the remaining inputs, the removal rule, and function + well-formedness (or a documented error) after replacement.',
   note='Trusted: TLC, CircuitOps.DoRename as the meaning of "every reference follows", projection. Replacement subcircuits are equivalent by construction.',
   tech='TLA+ action properties evaluated by TLC on recorded rewrite calls generated from the TLC-explored API model'),

 'C03': dict(cat='model_checking', ref='5 (C03)',
   text='Every pass (RRG with/without input removal, MUO, MDG, MEG, cleanup light/heavy) and random pipelines are applied to TLC-enumerated universe circuits over all 18 types (relabelled, non-topological storage, repeated/input/zero outputs) and seeded random circuits; TLC judges: argument projection unchanged, result is a new object, interface, truth table over the remaining inputs, size, well-formedness.',
   note='Trusted: TLC, CircuitSem, projection. Bounded universe (2-3 inputs, <=3 gates) + random circuits up to 5 inputs / 24 gates.',
   tech='TLC-enumerated circuits replayed into cirbo passes; recorded results validated by a TLC trace specification'),
 'C15': dict(cat='model_checking', ref='5 (C15)',
   text='For TLC-enumerated universe circuits and random circuits with <=4 inputs ALL 3^n partial assignments are pushed through the three entry points; TLC judges soundness against every completion, one-step monotonicity and totality. GateLemmas.tla proves the same three statements exhaustively for the three-valued gate tables (arity<=4), so the circuit-level check only has to bind the tables and the traversal to the code.',
   note='Trusted: TLC, GateSemantics/CircuitSem. Exhaustive over assignments, bounded over circuits.',
   tech='TLA+ Kleene lemmas model-checked by TLC; recorded three-valued evaluations validated by a TLC trace specification'),
 'C18': dict(cat='model_checking', ref='5 (C18)',
   text='Each pass is judged on its own postcondition by TLC (RRG: exactly the reachable gates + idempotence; MDG: no structural duplicates; MEG: no two non-input gates with one truth table; MUO: the two hedged clauses); all pipeline leaf sequences up to length 3 (quick) / 4 (thorough) enumerated by TLC (Pipelines.tla) are built in five composition shapes and compared with applying the constituents one after another.',
   note='Trusted: TLC, JudgePass. Pipeline equality is Circuit.__eq__.',
   tech='TLC-enumerated circuits and pipelines replayed into cirbo; postconditions evaluated by a TLC trace specification'),
 'C20': dict(cat='model_checking', ref='5 (C20)',
   text='dfs/bfs (both directions, default and explicit start sets, hook combinations, topsort_unvisited) and both top_sort directions are run on TLC-enumerated DAGs and random circuits, check_circuit_has_no_cycles on deliberately cyclic netlists; the recorded event sequences are accepted or rejected by the abstract traversal specification (reachable set once, enter before exit, post-order exits, unvisited = complement in topological order) evaluated by TLC.',
   note='Trusted: TLC, JudgeC20, event recording by hook closures.',
   tech='abstract traversal specification in TLA+; recorded hook/yield traces validated by TLC'),

 'C05': dict(cat='model_checking', ref='5 (C05)',
   text='Clause lists produced by tseytin_transformation / Cnf.from_circuit for TLC-enumerated universe circuits (18 types, arity<=3, all kinds of output selections) and random circuits with <=12 CNF variables are judged by TLC by brute force over ALL assignments of the CNF variables (strictly under the allocation model inputs-first/DFS-post-order, else mapping-free: satisfiable iff all selected outputs true, unique extension); is_circuit_satisfiable answers and models are judged against the truth table.',
   note='Trusted: TLC, JudgeCnf, the solver shim (a sound and complete solver is inside the property quantifier). Exhaustive over assignments, bounded over circuits.',
   tech='brute-force CNF exactness evaluated by TLC on recorded Tseytin encodings of TLC-enumerated circuits'),
 'C13': dict(cat='model_checking', ref='5 (C13)',
   text='build_miter is run on thousands of equal-shape and mismatched pairs of TLC-enumerated circuits (1-3 outputs, shared labels, repeated/input outputs, equivalent pairs); TLC judges the miter projection (interface, one output, true exactly where the operand truth tables differ), the real evaluation of the miter on all rows, operands unchanged, the dedicated error, and satisfiable <=> not equivalent.',
   note='Trusted: TLC, JudgeCnf.C13Fails, solver shim.',
   tech='TLC-enumerated circuit pairs replayed into build_miter; recorded miters validated by a TLC trace specification'),

 'C12': dict(cat='model_checking', ref='5 (C12)',
   text='TLC enumerates ALL functions for (n,m) in {(1,1),(2,1),(2,2),(3,1)} (FuncUniverse.tla; larger shapes sampled); each is realised as TruthTable, PyFunction (sequence and positional callables) and Circuit (DNF) and every protocol query with every index argument / output subset is asked; TLC judges every answer against the mathematical definitions in FuncProps.tla, hence the three representations agree. All don\'t-care patterns of (2,1) (sampled beyond) are completed through TruthTableModel / PyFunctionModel.define and integer wrappers are decoded in both bit orders.',
   note='Trusted: TLC, FuncProps definitions (monotone = documented canonical-order definition). For the negation query only existence and validity of the returned vector are compared.',
   tech='TLC-enumerated Boolean functions replayed into three representations; recorded protocol answers validated against TLA+ definitions by TLC'),

 'C11': dict(cat='model_checking', ref='5 (C11)',
   text='Round trip: TLC-enumerated universe circuits over all 18 types (labels drawn from an identifier alphabet with keyword-like labels, non-topological storage, repeated outputs) and random circuits are formatted and re-parsed (string and file); TLC compares gates/operand order, input order and output order. Parser fidelity: line records of such netlists in a permuted order (use before definition) with comments, blank lines, BUFF/vdd aliases, random letter case and spacing are rendered to text and parsed; TLC compares the parsed projection and its truth table with Bench.Denote(doc).',
   note='Trusted: TLC, Bench.Denote, the 20-line renderer of token records to text. Text-level fidelity is judged through spec-level meaning; the specification is not a lexer (least natural fit of the technique). Tabs, trailing comments and a space between a keyword and "(" are not generated.',
   tech='TLA+ denotation of bench documents; recorded parse / print results validated by TLC'),

 'C16': dict(cat='model_checking', ref='5 (C16)',
   text='encode_circuit / decode_circuit on TLC-enumerated universes: in-format circuits (14 types, format arities, 0-3 inputs, zero outputs, shuffled storage) must encode and decode; circuits with n-ary gates, L*/R* types or operand-less constants must raise a codec error or round-trip. Every produced byte string is decoded twice - by decode_circuit and by the independent TLA+ decoder Codec.DecodeBytes written from the documented format - and TLC compares counts, output truth tables and the bag of gate truth tables with the original. CircuitsDatabase add/save/open/get_by_label, BitWriter/BitReader and the binary dictionary writer/reader (non-ASCII keys, boundaries, every truncation, trailing bytes) are judged as inverses.',
   note='Trusted: TLC, Codec.tla (format as documented; constants carry two ignored operands as in the repository tests), recorder. Byte-level fidelity is judged through decoded meaning - the least natural fit of the technique.',
   tech='independent TLA+ decoder of the documented binary format evaluated by TLC on bytes recorded from cirbo; TLC-enumerated circuits'),

 'C17': dict(cat='exploration', ref='5 (C17)',
   text='The raw stored bytes of the shipped AIG and XAIG databases are decoded by the independent TLA+ decoder (Codec.DecodeBytes) and by get_by_label; TLC checks every examined entry for well-formedness, truth table = key and gate types within the database basis (quick: all 1-/2-output entries + a seeded sample of 3-output entries; thorough: all 2 x 349,724 entries, exhaustive over the finite data set). Lookups of all fully defined 2-input 1-2-output and 3-input 1-output tables and sampled 3-output tables (equal / complementary outputs) must compute the requested table in order, or be absent from the key set under an independent normalisation; model lookups must agree with every defined entry and be no larger than the lookup of any completion.',
   note='Trusted: TLC, Codec.tla, an 8-line independent normalisation for key presence. Exploration level in the quick tier (sampled entries); the thorough tier enumerates the finite data set completely.',
   tech='independent TLA+ decoder evaluated by TLC on the raw database bytes; recorded lookups validated by TLC'),

 'C06': dict(cat='model_checking', ref='5 (C06)',
   text='Soundness: every circuit returned by CircuitFinderSat.find_circuit for all 81 (2,1) models and sampled (2,2),(3,1),(3,2) models x budgets x bases (enum / string / custom lists) x need_normalized x fix_gate / forbid_wire combinations (with and without the forked solver path) is judged by TLC: exactly r binary gates over two distinct earlier nodes, types in the basis, outputs at gates, agreement with the model off don\'t-cares, every imposed constraint. Completeness: Synth.tla is the search space itself as a state machine; TLC explores the program space of every configuration for which NoSolutionError was reported and refutes the claim iff a complete reachable program matches the model (one exploration decides all claims of a configuration).',
   note='Trusted: TLC, Synth.tla / JudgeSynth, the solver shim. Budgets <= 3 (4 in thorough for 2 inputs); calls that use the circuit database shortcut are outside the property.',
   tech='TLA+ state machine of straight-line programs model-checked by TLC decides NoSolution claims; returned circuits validated by a TLC trace specification'),

 'C07': dict(cat='exploration', ref='5 (C07)',
   text='Hundreds of generator calls (bit-count sums, efficient/naive weighted sums over all short weight vectors, two-number and shifted adders over all small length/shift combinations, add_sum_pow2_m1 up to 70 inputs; bases as enum and in several string spellings; both endiannesses; fresh inputs or arbitrary repeated gates of random host circuits) are recorded; TLC evaluates each resulting circuit on all 2^n rows (n <= 10) or on sampled rows and judges the weighted-sum identity with pairwise distinct levels, a + b*2^shift, returned labels are gates, pre-existing gates keep their function, host inputs/outputs untouched, basis, and the weakest documented gate-count bound. ArithLemmas.tla checks the bit-sequence reference arithmetic against integers. ArithAlgoLemmas.tla model-checks the bit-count machine step by step (level invariant on every operand value, termination, minimal width, documented bound) and the adder builders; the netlist each call emitted is compared gate by gate with the model netlist (drift).',
   note='Trusted: TLC, Arith.tla / JudgeArith (executable reference semantics - the "transcribed function" use of the technique), recorder (endianness contract). Exhaustive inside small widths, sampled beyond.',
   tech='TLA+ reference arithmetic and algorithm-level state-machine models (ArithAlgo: MDFA bit-count machine with its level invariant) checked by TLC; circuits and emitted netlists recorded from the generators validated against them'),

 'C08': dict(cat='exploration', ref='5 (C08)',
   text='generate_mul / add_mul* in all six modes and generate_square / add_square* in both modes, both endiannesses, operands as primary inputs or arbitrary gates of host circuits: all width pairs up to (5,5) (thorough (6,6)) and squares up to 8 (10) bits on ALL operand values; widths reaching the Karatsuba recursion / padding (18, 20, 21, 24x15, 40) and the squarer split (47..54) on sampled operand values. TLC evaluates the recorded netlists (thousands of gates, along a witness order it checks step by step), multiplies the operand bit sequences with Arith.BMul and compares with the returned bits; also result width, fresh gates only, pre-existing gates unchanged. The multipliers\' own steps (partial products, bit counters, shifted additions) are recorded from outside and validated as behaviours of Ledger.tla (drift); Compress.tla shows the weighted sum invariant for every full/half-adder schedule; sampled rows include mined counterexample candidates.',
   note='Trusted: TLC, Arith.tla (bit-sequence arithmetic checked against integers by ArithLemmas.tla), recorder. Exhaustive in small widths, sampled rows beyond.',
   tech='TLA+ reference arithmetic evaluated by TLC on recorded circuits; the call traces of the multipliers validated by the TLA+ weight-ledger trace specification (Ledger.tla); compression machine model-checked under every schedule (Compress.tla)'),
 'C09': dict(cat='exploration', ref='5 (C09)',
   text='Subtraction, subtract-with-compare, div-mod (incl. b = 0), integer square root, the equality gadget against every constant 0..2^(n+1), plus-one through generate_plus_one and add_plus_one (add_outputs F/T, result labels given or not), if-then-else and the pairwise gadgets are called for all small widths, both endiannesses, on fresh inputs and on arbitrary (repeated) gates of random host circuits; TLC evaluates the recorded circuit on ALL operand values and judges the integer identities, that outputs are extended iff asked, that returned labels exist and that pre-existing gates keep their function. ArithAlgoLemmas.tla checks the transcribed builders on every operand value for small widths; emitted netlists are compared gate by gate with the model (drift).',
   note='Trusted: TLC, Arith.tla / JudgeArith, recorder (endianness contract).',
   tech='TLA+ reference arithmetic and algorithm-level netlist-builder models (ArithAlgo: subtractors, restoring division, digit square root, gadgets) checked by TLC; recorded circuits and emitted netlists validated against them'),

 'C04': dict(cat='exploration', ref='5 (C04), 14.4',
   text='Seeded random circuits over the supported gate set (with and without functionally equivalent gates) x bases x size / cut / limit / time-limit / validation settings; every minimize_subcircuits call runs in its own interpreter under a seed-chosen PYTHONHASHSEED and a seed-perturbed cut family (shim enumerator, the supplied family is recorded). TLC judges the returned circuit against a deep copy of the argument: same inputs, same number of outputs, same truth table, not more non-trivial gates; FailedValidationError never; no internal error on circuits TLC finds free of equivalent gates. The function has ten listed known findings (DESIGN 14.4); a failure is attributed to one only if a named deviation operator of the specification explains it (wrong-result findings) or its call-site signature matches (internal errors); anything else is a VIOLATION. The truth tables with don\'t-cares derived for the cones are observed from outside and compared by TLC with the working circuit on every reachable leaf pattern (drift).',
   note='Trusted: TLC, JudgePass.C04Fails and the deviation operators, the cut-enumerator and solver shims (inside the property quantifier). Exploration only: the input space is sampled.',
   tech='recorded minimisation calls validated by a TLC trace specification with named deviation operators for the known findings'),
}
PENDING = 'check not built yet in this round (work in progress; see DESIGN.md section 5)'
m = {
 'version': 1,
 'setup_cmd': './setup.sh',
 'hooks': {'guard': 'CIRBO_VERIF_TRACE', 'enable': 'no source hooks: the harness wraps public Circuit methods from outside when CIRBO_VERIF_TRACE=1; checks import cirbo from /repo working tree', 'baseline_off_cmd': BASE, 'source_commits': [], 'add_only': True},
 'engines': [{'name': 'tla-judge', 'path': 'specs/ + harness/vf', 'serves_properties': sorted(CHECKS), 'kind_free_text': 'TLA+ specification checked by TLC; TLC-generated circuits/behaviours replayed into cirbo; recorded cirbo behaviour validated by TLC trace specifications (Judge.tla)'}],
 'checks': [],
 'notes': 'All checks: ./check <id> --tier quick|thorough; exit 0 held / 1 VIOLATION / 2 machinery failure. VERIF_SEED seeds every random choice.',
 'not_applicable': [{'property_id': p, 'reason': PENDING} for p in ALL if p not in CHECKS],
}
# input classes added after the sixth and seventh seed waves (DESIGN 14.6), per property
EXTRA = {
 'C01': 'Also: chains of 1500 gates, single gates with 1200 operands, circuits with 9-11 inputs (kind evaldeep, linear clauses), blocks named like output gates, hostile label strings.',
 'C02': 'Also: a refusal matrix (37 scripted calls every mutator must refuse), generated-name clashes, 120-gate blocks removed as a whole, deep chains through copying and local mutators.',
 'C03': 'Also: chains of 1500 gates (mixed and purely unary) through every pass, operand labels that are ambiguous once joined.',
 'C04': 'Also: cuts of 6-7 leaves, circuits with 11-12 inputs, labels differing only in case / zero padding; call-site findings carry a precondition or a per-1000 bound (14.4).',
 'C05': 'Also: the explicit-stack gate walk as a TLC state machine (TseytinWalk), gates of arity 5-10, chains of 1200 gates judged by a linear clause that reads the CNF as a list of definitions (branching on unconstrained variables).',
 'C06': 'Also: planted instances decided by their witness: 13 gates over 6 inputs under a one-second limit, 11-13 outputs, fixed gates at node 12 and up.',
 'C07': 'Also: operands beyond 32 / 64 bits, bit counters over 257 / 300 operands, ambiguous operand names, host label styles and decoys for predictably named new gates.',
 'C08': 'Also: Karatsuba shapes with the narrow operand next to half of the wide one, host label styles and decoys.',
 'C09': 'Also: subtractors beyond 32 / 64 bits (bit-sequence clauses), equality gadgets of 33-64 bits with the rows on which the operand is the constant, host label styles and decoys.',
 'C10': 'Also: right-connections of 33 / 40 connector pairs (kind connectwide, linear clauses), the empty label as connector.',
 'C11': 'Also: trailing blanks, labels that ARE keywords, chains of 1500 / 5000 gates (files beyond 64 KiB) printed, saved and parsed back.',
 'C12': 'Also: a circuit representation with a 1200-gate path, inputs named out of text order, integer wrappers of 65-128 bits (bit-sequence clauses), copied / pickled don\'t-care markers.',
 'C13': 'Also: 33 / 65 / 129 outputs, output labels that are ambiguous once joined, operands with 1200-gate paths (kind miterdeep).',
 'C14': 'Also: helper-like and keyword labels, gates rebuilt under their old label between two conversions, chains of 1500 gates with nested and overlapping blocks.',
 'C15': 'Also: gates of arity 9-12, circuits restricted by one replace_inputs call before evaluation, chains of 1500 gates under all nine partial assignments (kind partialdeep).',
 'C16': 'Also: chains of 1200 gates, node / output counts around 256 / 512 (thorough: 1024), decoder-style labels with permuted inputs, encode-decode-reorder-encode histories.',
 'C17': 'Also: five exclusion lists for the don\'t-care lookup, models with 13 don\'t-cares, copied / pickled don\'t-care markers.',
 'C18': 'Also: chains of 1500 gates through pipelines of every shape, 17-input circuits through the heavy clean-up, equivalence groups containing the empty label.',
 'C19': 'Also: loop-closing equivalent replacements in hosts of 300 gates.',
 'C20': 'Also: circuits with a past, dense cones (work lists of thousands of entries), chains of 1500 gates (kind travdeep, linear clauses), netlists of 300 / 600 gates for the cycle check, pattern-like start labels.',
}
for p in sorted(CHECKS):
    c = CHECKS[p]
    c['text'] = c['text'].rstrip() + ' ' + EXTRA[p]
    m['checks'].append({
        'property_id': p,
        'quick_cmd': f'./check {p} --tier quick',
        'thorough_cmd': f'./check {p} --tier thorough',
        'evidence_file': f'evidence/{p}.json',
        'replay_cmd_template': f'./check {p} --replay {{path}}',
        'engine': 'tla-judge',
        'level_claimed': {'category': c['cat'], 'text': c['text'], 'design_ref': c['ref']},
        'level_note': c['note'],
        'technique': c['tech'],
    })
json.dump(m, open(os.path.join(V, 'MANIFEST.json'), 'w'), indent=1)
print('MANIFEST.json written:', len(m['checks']), 'checks,', len(m['not_applicable']), 'not_applicable')
