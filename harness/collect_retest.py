"""Developer tool: `vp run` executes on a snapshot of /verif, so the regression results of seedtool retest /
benign-retest stay in the run's log.  This copies them into seeded/<id>/meta.json and benign/<id>/meta.json.
usage: collect_retest.py <log> [<log> ...]"""
import json, os, re, sys
V = os.path.dirname(os.path.dirname(os.path.abspath(__file__)))
seen = {'seeded': 0, 'benign': 0}
for path in sys.argv[1:]:
    for line in open(path, errors='replace'):
        m = re.match(r'^(benign )?(C\d\d-\d+): (C\d\d) rc=(\d+)', line)
        if not m:
            continue
        kind = 'benign' if m.group(1) else 'seeded'
        mp = os.path.join(V, kind, m.group(2), 'meta.json')
        if not os.path.exists(mp):
            continue
        meta = json.load(open(mp))
        meta.setdefault('retest', {})[m.group(3)] = {'rc': int(m.group(4))}
        json.dump(meta, open(mp, 'w'), indent=1)
        seen[kind] += 1
print(seen)
