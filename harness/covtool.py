"""Developer tool (not a registered check): line coverage of the cirbo sources reached by the
recorders of the quick tier, to find regions of the anchored files no driver exercises.

  PYTHONPATH=/verif/harness /venv/bin/python harness/covtool.py C07 [max_sources]
Writes /tmp/cov/<prop>.txt (coverage report with missing lines for the property's anchored files)."""
import json
import os
import random
import sys
import time

import coverage


def main():
    prop = sys.argv[1]
    limit = int(sys.argv[2]) if len(sys.argv) > 2 else 4000
    import vf
    import importlib

    drv = importlib.import_module(f'vf.drivers.{prop.lower()}')
    ctx = {}
    srcs = drv.sources('quick', 0, ctx)
    if hasattr(drv, 'probes'):
        srcs = list(drv.probes()) + srcs
    if len(srcs) > limit:
        random.Random(0).shuffle(srcs)
        srcs = srcs[:limit]
    anchors = []
    for ln in open(os.path.join(vf.VERIF, 'properties.jsonl')):
        p = json.loads(ln)
        if p['id'] == prop:
            anchors = [os.path.join(vf.REPO, f) for f in p['anchors']['files'] if f.endswith('.py')]
    cov = coverage.Coverage(data_file=f'/tmp/cov/.coverage.{prop}', include=[os.path.join(vf.REPO, 'cirbo', '*')], branch=True)
    cov.erase()
    t0 = time.time()
    cov.start()
    n_exc = 0
    if prop == 'C04':
        import io
        from vf import c04worker

        for s in srcs:
            try:
                c04worker.run(s) if hasattr(c04worker, 'run') else None
            except BaseException:
                n_exc += 1
    else:
        for s in srcs:
            try:
                drv.record(s)
            except BaseException:
                n_exc += 1
    cov.stop()
    cov.save()
    with open(f'/tmp/cov/{prop}.txt', 'w') as f:
        cov.report(include=anchors, show_missing=True, file=f)
    print(prop, len(srcs), 'sources', n_exc, 'recorder exceptions', f'{time.time() - t0:.0f}s')
    print(open(f'/tmp/cov/{prop}.txt').read())


if __name__ == '__main__':
    main()
