#!/bin/sh
# developer tool: run every registered quick check under several seeds on the unchanged tree
# usage: harness/sweep.sh "1 2 3" [checks...]
cd "$(dirname "$0")/.."
SEEDS="${1:-1 2 3}"; shift
CHECKS="${*:-C01 C02 C03 C04 C05 C06 C07 C08 C09 C10 C11 C12 C13 C14 C15 C16 C17 C18 C19 C20}"
export VERIF_EVIDENCE_DIR=/tmp/sweep_evidence VERIF_REPLAY_DIR=/tmp/sweep_replays
for s in $SEEDS; do for c in $CHECKS; do
  out=$(VERIF_SEED=$s ./check $c --tier quick 2>&1); rc=$?
  echo "seed=$s $c rc=$rc $(echo "$out" | tail -1)"
  [ $rc -ne 0 ] && echo "$out" | grep -E "VIOLATION|failing|MACHINERY|Error" | head -6
done; done
