"""Validate MANIFEST.json and evidence files against the given schemas."""
import json, sys, glob, os
import jsonschema
V = os.path.dirname(os.path.dirname(os.path.abspath(__file__)))
ok = True
def chk(path, schema):
    global ok
    try:
        jsonschema.validate(json.load(open(path)), json.load(open(schema)))
        print('valid  ', path)
    except Exception as e:
        ok = False
        print('INVALID', path, str(e)[:300])
if os.path.exists(f'{V}/MANIFEST.json'):
    chk(f'{V}/MANIFEST.json', '/root/.vp/MANIFEST.schema.json')
for p in sorted(glob.glob(f'{V}/evidence/*.json')):
    chk(p, '/root/.vp/EVIDENCE.schema.json')
sys.exit(0 if ok else 1)
