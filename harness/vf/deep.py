"""Deep circuits: one path of more than a thousand gates (the interpreter's recursion limit), for the drivers whose
property is "for every circuit".  The judge clauses for these cases are linear (witness orders checked on the way)."""
from .project import project

MIX = ('NOT', 'XOR')
BENCHY = ('NOT', 'XOR', 'LT', 'GEQ', 'AND', 'NXOR', 'NAND', 'LT')   # every gate injective in its chain operand when y = 1


def chain(depth, types=MIX, rev=False, outputs=None):
    """x -> g0 -> g1 -> ...; binary gates read (previous, y), unary ones the previous gate.  Returns (circuit, witness
    order).  rev: users before operands in storage order (every gate renamed from the top down, label + '_')."""
    from cirbo.core.circuit import Circuit, gate as G

    unary = {'NOT', 'IFF'}
    c = Circuit()
    c.add_inputs(['x', 'y'])
    names = []
    prev = 'x'
    for k in range(depth):
        t = types[k % len(types)]
        c.emplace_gate(f'g{k}', getattr(G, t), (prev,) if t in unary else (prev, 'y'))
        prev = f'g{k}'
        names.append(prev)
    c.set_outputs(outputs or [names[-1], names[depth // 2]])
    if rev:
        for l in names[::-1]:
            c.rename_gate(l, l + '_')
        names = [l + '_' for l in names]
    return c, ['x', 'y'] + names


def transform_case(prop, what, src, fn, types=MIX, not_larger=True, allowed=(), prepare=None):
    """Records  res = fn(circuit)  on a deep chain as a case of kind transformdeep.  prepare(circuit, order): optional set-up
    (blocks) before the projection of the original is taken."""
    c, order = chain(src['depth'], types, rev=src.get('rev', False))
    blocks = False
    if prepare is not None:
        prepare(c, order)
        blocks = True
    case = {'kind': 'transformdeep', 'prop': prop, 'what': what, 'orig': project(c, users=False, blocks=blocks), 'order': order,
            'exc': '', 'not_larger': bool(not_larger), 'types': list(allowed), 'src': src}
    if blocks:
        case['check_helper_blocks'] = True
    try:
        res = fn(c)
        case['res'] = project(res, users=False, blocks=blocks)
        case['res_order'] = [g.label for g in res.top_sort(inverse=True)]
    except Exception as e:
        case['exc'] = type(e).__name__
        case['res'], case['res_order'] = case['orig'], order
    return case
