"""C06 - exact synthesis is sound and complete for the requested size and basis."""
import itertools
import json
import os
import random

from .. import tlc
from ..project import project

PROP = 'C06'
LEVEL = 'model_checking'
RULE = ('function models over {0,1,*}: all 81 (2,1) models and seeded samples of (2,2), (3,1), (3,2) x gate budgets 0..3 (4 in thorough) x '
        'bases AIG / XAIG / FULL (enum, string, custom operation lists) x need_normalized x fix_gate (first / second / both predecessors, '
        'gate type) x forbid_wire, with and without time_limit (forked solver); soundness of every returned circuit is judged by TLC '
        '(JudgeSynth); every NoSolutionError claim is decided by TLC exploring the program space of its configuration (Synth.tla) - a '
        'claim is refuted iff some complete reachable program matches the model; non-trivial = budget >= 1 and a non-constant defined entry')
ASSUMPTIONS = ['SAT solver = shim (any sound and complete solver is inside the quantifier)', 'no circuit database shortcut (circuit_db=None)',
               'fix_gate with a single predecessor means: that node is one of the two operands']
BASES = {
    'AIG': ['LNOT', 'AND', 'OR', 'NAND', 'NOR', 'GT', 'LT', 'GEQ', 'LEQ'],
    'XAIG': ['LNOT', 'AND', 'OR', 'NAND', 'NOR', 'GT', 'LT', 'GEQ', 'LEQ', 'XOR', 'NXOR'],
    'FULL': ['ALWAYS_FALSE', 'ALWAYS_TRUE', 'LNOT', 'RNOT', 'RIFF', 'LIFF', 'AND', 'OR', 'NAND', 'NOR', 'GT', 'LT', 'GEQ', 'LEQ', 'XOR', 'NXOR'],
}
CUSTOM = [['AND', 'LNOT'], ['XOR', 'AND'], ['NAND'], ['OR', 'NXOR', 'GT'], ['LIFF', 'AND', 'RNOT']]


def _config(rng, n, m, mtt, rmax):
    r = rng.choice([0, 1, 1, 2, 2, 2, 3, 3] + ([4] if rmax >= 4 and n <= 2 else []))
    r = min(r, rmax)
    kind = rng.choice(['AIG', 'XAIG', 'FULL', 'FULL', 'custom'])
    basis = BASES[kind] if kind != 'custom' else rng.choice(CUSTOM)
    spelled = rng.choice(['enum', 'str', 'lower', 'list']) if kind != 'custom' else 'list'
    norm = rng.random() < 0.2
    fix, forbid = [], []
    if r >= 1 and rng.random() < 0.45:
        g = n + rng.randrange(r)
        mode = rng.choice(['first', 'second', 'both', 'type', 'first+type', 'both+type'])
        p1 = p2 = -1
        t = ''
        if 'first' in mode:
            p1 = rng.randrange(g)
        if 'second' in mode:
            p2 = rng.randrange(g)
        if 'both' in mode and g >= 2:
            p1, p2 = sorted(rng.sample(range(g), 2))
        if 'type' in mode or (p1 < 0 and p2 < 0):
            t = rng.choice(basis if rng.random() < 0.8 else BASES['FULL'])
            if mode == 'type' or (p1 < 0 and p2 < 0):
                p1 = rng.randrange(g)  # at least one predecessor is required by the API
        fix.append({'g': g, 'p1': p1, 'p2': p2, 't': t})
    if r >= 1 and rng.random() < 0.3:
        to = n + rng.randrange(r)
        forbid.append({'from': rng.randrange(to), 'to': to})
    tl = 20 if rng.random() < 0.15 else 0
    return {'k': 'synth', 'n': n, 'm': m, 'mtt': mtt, 'r': r, 'basis': basis, 'basis_kind': kind, 'spelled': spelled, 'norm': norm,
            'fix': fix, 'forbid': forbid, 'time_limit': tl}


def sources(tier, seed, ctx):
    rng = random.Random(seed + 6)
    srcs = []
    rmax = 3 if tier == 'quick' else 4
    models21 = [[list(p)] for p in itertools.product((0, 1, 2), repeat=4)]
    reps = 3 if tier == 'quick' else 8
    for mtt in models21:
        for _ in range(reps):
            srcs.append(_config(rng, 2, 1, mtt, rmax))
    nsamp = 300 if tier == 'quick' else 3000
    for j in range(nsamp):
        n, m = rng.choice([(2, 2), (3, 1), (3, 1), (3, 2)])
        mtt = [[rng.choice([0, 1, 0, 1, 2]) for _ in range(2 ** n)] for _ in range(m)]
        srcs.append(_config(rng, n, m, mtt, 3))
    # several outputs that are written differently but are ONE function once their don't-cares are filled in
    # (so fewer gates than outputs suffice)
    for j in range(40 if tier == 'quick' else 400):
        n = rng.choice([2, 2, 3])
        f = [rng.randint(0, 1) for _ in range(2 ** n)]
        m = rng.choice([2, 2, 3])
        mtt = []
        for _ in range(m):
            row = list(f)
            for t in rng.sample(range(2 ** n), rng.randint(1, 2 ** n - 1)):
                row[t] = 2
            mtt.append(row)
        cfg = _config(rng, n, m, mtt, 3)
        cfg['r'] = rng.choice([1, 1, 2]) if n == 2 else rng.choice([1, 2, 2, 3])
        cfg['fix'], cfg['forbid'], cfg['norm'] = [], [], False
        srcs.append(cfg)
    # histories: a finder for a neighbouring model (some rows don't-care on every output) runs first in the same process
    for j, s in enumerate(srcs):
        if j % 3 == 1:
            n = s['n']
            rows = [t for t in range(2 ** n) if rng.random() < 0.4] or [rng.randrange(2 ** n)]
            pm = [[2 if t in rows else v for t, v in enumerate(row)] for row in s['mtt']]
            pre = dict(s)
            pre.update({'mtt': pm, 'r': min(s['r'], 2), 'fix': [], 'forbid': [], 'time_limit': 0})
            s['prelude'] = pre
    for j, s in enumerate(srcs):
        if j % 5 == 4 and any(2 in row for row in s['mtt']) and not s.get('prelude'):
            s['shared_model'] = True
    for j, s in enumerate(srcs):
        if j % 4 == 2 and s['r'] >= 1 and not s['time_limit']:
            s['again'] = 1 + j % 5
        if j % 4 == 3 and s['r'] >= 1:
            s['rejected_fix'] = True
    # planted instances under a time limit: a 13-gate XAIG chain over 6 inputs is drawn, its truth table is the model, the
    # budget is 13 gates and the solver gets one second - a circuit exists by construction, so the call may return one, or
    # give up with the time-out error, but must not report that there is no solution
    for j in range(2 if tier == 'quick' else 6):
        srcs.append({'k': 'planted', 'seed': rng.randrange(10**6), 'n': 6, 'r': 13, 'time_limit': 1})
    # planted instances beyond the sizes the exhaustive program-space model can decide: more than ten outputs (every output
    # position must carry ITS row of the model), and a gate with more than 64 candidate predecessor pairs (node 12 and up)
    # that is fixed to read the two inputs
    for j in range(3 if tier == 'quick' else 10):
        srcs.append({'k': 'planted', 'seed': rng.randrange(10**6), 'n': 2, 'r': 3 + j % 2, 'm': 11 + j, 'time_limit': 0})
        srcs.append({'k': 'planted', 'seed': rng.randrange(10**6), 'n': 2, 'r': 11 + j % 2, 'm': 2, 'last_reads_inputs': True,
                     'fix_last': 'typed' if j % 2 else 'plain', 'time_limit': 0})
    ctx['gen_note'] = f'{len(srcs)} synthesis calls (a third of them after another finder ran in the same process)'
    return srcs


def probes():
    return [{'k': 'synth', 'n': 2, 'm': 1, 'mtt': [[0, 1, 1, 0]], 'r': 2, 'basis': BASES['FULL'], 'basis_kind': 'FULL', 'spelled': 'enum',
             'norm': False, 'fix': [{'g': 3, 'p1': -1, 'p2': 2, 't': ''}], 'forbid': [], 'time_limit': 0, 'probe': 'fix-gate-second-only'}]


_BINOPS = {'AND': lambda a, b: a & b, 'OR': lambda a, b: a | b, 'XOR': lambda a, b: a ^ b, 'NAND': lambda a, b: 1 - (a & b),
           'NOR': lambda a, b: 1 - (a | b), 'NXOR': lambda a, b: 1 - (a ^ b), 'GT': lambda a, b: a & (1 - b), 'LT': lambda a, b: (1 - a) & b,
           'GEQ': lambda a, b: a | (1 - b), 'LEQ': lambda a, b: (1 - a) | b}


def _planted(src):
    """(source of an ordinary synthesis call, witness circuit record) for a planted instance."""
    rng = random.Random(src['seed'])
    n, r = src['n'], src['r']
    gates = []
    for k in range(r):
        a = n + k - 1 if k else 0
        b = rng.randrange(n + k)
        while b == a:
            b = rng.randrange(n + k)
        if src.get('last_reads_inputs') and k == r - 1:
            a, b = 0, 1
        gates.append((rng.choice(sorted(_BINOPS)), a, b))
    m = src.get('m', 1)
    # output j is taken at a gate (the last one first, then spread over the others)
    onodes = [n + r - 1] + [n + (5 * j + 1) % r for j in range(1, m)]
    cols = []
    for row in range(2 ** n):
        v = [(row >> (n - 1 - j)) & 1 for j in range(n)]
        for t, a, b in gates:
            v.append(_BINOPS[t](v[a], v[b]))
        cols.append(v)
    mtt = [[cols[row][o] for row in range(2 ** n)] for o in onodes]
    names = [f'i{j}' for j in range(n)] + [f's{k}' for k in range(r)]
    wit = {'g': {names[j]: {'t': 'INPUT', 'o': []} for j in range(n)}, 'ord': list(names), 'i': names[:n], 'o': [names[o] for o in onodes], 'u': {}, 'b': {}}
    for k, (t, a, b) in enumerate(gates):
        wit['g'][names[n + k]] = {'t': t, 'o': [names[a], names[b]]}
    fix = []
    if src.get('fix_last'):
        t, a, b = gates[-1]
        fix = [{'g': n + r - 1, 'p1': min(a, b), 'p2': max(a, b), 't': t if src['fix_last'] == 'typed' else ''}]
    call = {'k': 'synth', 'n': n, 'm': m, 'mtt': mtt, 'r': r, 'basis': BASES['XAIG'], 'basis_kind': 'XAIG', 'spelled': 'str', 'norm': False,
            'fix': fix, 'forbid': [], 'time_limit': src['time_limit']}
    return call, wit


def record(src):
    if src['k'] == 'planted':
        call, wit = _planted(src)
        case = _run(call)
        case['witness'] = wit
        case['time_limit'] = src['time_limit']
        case['src'] = src
        return case
    # an earlier finder of the same process (another model, typically with rows that are don't-care on every
    # output) must not influence this one
    if src.get('prelude'):
        _run(src['prelude'])
    return _run(src)


def _run(src):
    from cirbo.core.circuit import gate as G
    from cirbo.core.logic import DontCare
    from cirbo.core.truth_table import TruthTableModel
    from cirbo.synthesis.circuit_search import Basis, CircuitFinderSat, Operation
    from cirbo.synthesis.exception import NoSolutionError

    op = lambda t: Operation[t.lower() + '_']
    if src['spelled'] == 'enum':
        basis = Basis[src['basis_kind']]
    elif src['spelled'] == 'str':
        basis = src['basis_kind']
    elif src['spelled'] == 'lower':
        basis = src['basis_kind'].lower()
    else:
        basis = [op(t) for t in src['basis']]
    model = TruthTableModel([[DontCare if v == 2 else bool(v) for v in row] for row in src['mtt']])
    if src.get('shared_model'):
        # ONE model object serves two finders: a normalised search (whatever it finds) runs first on it - the caller's
        # model is an argument, not scratch space
        try:
            pre = CircuitFinderSat(model, max(1, src['r']), basis=basis, need_normalized=True)
            pre.get_cnf()
            pre.find_circuit(time_limit=src['time_limit'] or None)
        except Exception:
            pass
    case = {'kind': 'synth', 'n': src['n'], 'm': src['m'], 'mtt': src['mtt'], 'r': src['r'], 'basis': src['basis'], 'norm': src['norm'],
            'fix': src['fix'], 'forbid': src['forbid'], 'result': '', 'src': src}
    try:
        kw = {'basis': basis, 'need_normalized': src['norm']}
        # keywords left out where the documented default says the same (basis XAIG, no normalisation)
        if src['basis_kind'] == 'XAIG' and src['spelled'] == 'enum':
            del kw['basis']
        if not src['norm'] and src['r'] % 2 == 0:
            del kw['need_normalized']
        f = CircuitFinderSat(model, src['r'], **kw)
        for fx in src['fix']:
            kw = {}
            if fx['p1'] >= 0:
                kw['first_predecessor'] = fx['p1']
            if fx['p2'] >= 0:
                kw['second_predecessor'] = fx['p2']
            if fx['t']:
                kw['gate_type'] = getattr(G, fx['t'])
            f.fix_gate(fx['g'], **kw)
        for fb in src['forbid']:
            f.forbid_wire(fb['from'], fb['to'])
        if src.get('rejected_fix') and src['r'] >= 1:
            # a constraint the finder REFUSES (a predecessor that is not an earlier node) is not imposed
            g_ = src['n'] + src['r'] - 1
            try:
                f.fix_gate(g_, first_predecessor=g_, gate_type=getattr(G, src['basis'][0]))
            except Exception:
                pass
        c = f.find_circuit(time_limit=src['time_limit'] or None)
        case['result'] = 'circuit'
        case['c'] = project(c)
    except NoSolutionError:
        case['result'] = 'nosolution'
        return case
    except Exception as e:
        case['result'] = type(e).__name__
        return case
    if not src.get('again') or src['r'] < 1 or src.get('probe'):
        return case
    # the SAME finder is constrained further and asked again: a wire the first answer uses is forbidden
    # (node numbers = position in the returned circuit: inputs first, then the gates as added)
    try:
        order = case['c']['ord']
        pos = {l: j for j, l in enumerate(order)}
        g = src['n'] + (src.get('again', 1) - 1) % src['r']
        ops = case['c']['g'][order[g]]['o']
        a = pos[ops[(src.get('again', 1) // 2) % len(ops)]]
    except Exception:
        return case
    # (the replay source is the original one: replaying it reproduces the whole history)
    case2 = {'kind': 'synth', 'n': src['n'], 'm': src['m'], 'mtt': src['mtt'], 'r': src['r'], 'basis': src['basis'], 'norm': src['norm'],
             'fix': src['fix'], 'forbid': list(src['forbid']) + [{'from': a, 'to': g}], 'result': '', 'src': src,
             'history': 'second answer of one finder object after forbid_wire'}
    try:
        f.forbid_wire(a, g)
        c2 = f.find_circuit(time_limit=src['time_limit'] or None)
        case2['result'] = 'circuit'
        case2['c'] = project(c2)
    except NoSolutionError:
        case2['result'] = 'nosolution'
    except Exception as e:
        case2['result'] = type(e).__name__
    return [case, case2]


def post_judge(cases, tier, seed):
    """Completeness: group the NoSolutionError claims by configuration and let TLC explore the
    program space of every configuration (Synth.tla) in ONE run. Returns extra verdicts."""
    groups = {}
    for c in cases:
        if c['result'] != 'nosolution' or 'witness' in c:     # a planted instance is decided by its witness (JudgeSynth)
            continue
        key = json.dumps([c['n'], c['r'], c['basis'], c['norm'], c['fix'], c['forbid']], sort_keys=True)
        groups.setdefault(key, []).append(c)
    if not groups:
        return [], {'states': 0, 'transitions': 0, 'note': 'no NoSolutionError claims'}
    configs = []
    index = {}
    for gi, (key, cs) in enumerate(groups.items()):
        c0 = cs[0]
        if c0['r'] == 0:
            continue  # no program of size 0 has its outputs at gates: trivially justified
        configs.append({'id': gi + 1, 'n': c0['n'], 'r': c0['r'], 'basis': c0['basis'], 'norm': c0['norm'], 'fix': c0['fix'],
                        'forbid': c0['forbid'], 'claims': [c['mtt'] for c in cs]})
        index[gi + 1] = cs
    if not configs:
        return [], {'states': 0, 'transitions': 0, 'note': 'only size-0 claims'}
    wd = tlc.workdir('C06-synth')
    path = os.path.join(wd, 'claims.json')
    with open(path, 'w') as f:
        json.dump(configs, f)
    res = tlc.run_model('Synth', 'Synth.cfg', env={'CLAIMS': path}, workers=16, tag='C06-synth-run', xmx='16g', timeout=3000)
    refuted = set()
    for v in tlc.printed_values(res['stdout']):
        if isinstance(v, list) and v and v[0] == 'REFUTED':
            refuted.add((v[1], v[2]))
    tlc.cleanup(wd)
    tlc.cleanup(res['workdir'])
    verdicts = []
    for (gid, k) in sorted(refuted):
        case = index[gid][k - 1]
        verdicts.append((case['id'], 1, ['no-solution-reported-although-a-circuit-exists']))
    nclaims = sum(len(c['claims']) for c in configs)
    return verdicts, {'states': res['distinct'], 'transitions': res['generated'],
                      'note': f'Synth.tla: {len(configs)} configurations, {nclaims} NoSolutionError claims decided, {res["distinct"]} distinct program states, {res["wall_s"]:.0f}s'}


def nontrivial(case):
    return case['r'] >= 1 and any(0 in row and 1 in row for row in case['mtt'])


def features(case):
    yield 'result-' + case['result']
    yield f'shape=({case["n"]},{case["m"]}) r={case["r"]}'
    if case['fix']:
        yield 'fix_gate'
    if case['forbid']:
        yield 'forbid_wire'
    if case['norm']:
        yield 'need_normalized'
    if case['src']['time_limit']:
        yield 'time_limit(forked solver)'
    if case['src'].get('k') == 'planted':
        yield 'planted-instance'
        return
    yield 'basis-' + case['src']['basis_kind'] + '-' + case['src']['spelled']
