"""C20 - traversals visit exactly the reachable gates in a valid order."""
import itertools
import random

from .. import gen
from ..project import project
from .c01 import build

PROP = 'C20'
LEVEL = 'model_checking'
RULE = ('TLC-enumerated universe DAGs (sharing, repeated operands, disconnected parts) and seeded random circuits; for each: dfs/bfs x '
        'both directions x default and explicit start sets (size <= 2) x hook combinations x topsort_unvisited, both top_sort '
        'directions; plus deliberately cyclic netlists (built through the bench parser) for the cycle check; the recorded event '
        'sequences are accepted or rejected by the abstract traversal specification evaluated by TLC; non-trivial = >= 1 non-input gate')
ASSUMPTIONS = ['events are recorded by hook closures in call order', 'cyclic netlists are only used for check_circuit_has_no_cycles']


def design(tier, seed):
    from .. import tlc

    r = tlc.run_model('Traversal', 'Traversal.cfg', workers=16, tag='C20-trav', xmx='6g')
    tlc.cleanup(r['workdir'])
    return {'states': r['distinct'], 'transitions': r['generated'],
            'runs': [f'Traversal.tla (code-shaped DFS/BFS work list and Kahn top_sort refine the abstract traversal specification on ALL DAGs with 4 nodes, all start sequences <= 2, both directions): {r["distinct"]} states, {r["wall_s"]:.1f}s']}


def sources(tier, seed, ctx):
    rng = random.Random(seed + 20)
    nets, st = gen.universe(2, 2, gen.T6, 2, tag='C20-U')
    n3, st3 = gen.universe(2, 3, ['NOT', 'AND', 'GT'], 2, tag='C20-U3')
    nets += n3
    note = [f'U(2,2,T6,2)+U(2,3,{{NOT,AND,GT}},2)={len(nets)} netlists']
    ctx['gen_states'] = st['distinct'] + st3['distinct']
    ctx['gen_transitions'] = st['generated'] + st3['generated']
    rng.shuffle(nets)
    take = 2500 if tier == 'quick' else len(nets)
    srcs = []
    for n, net in enumerate(nets[:take]):
        ni, gs = net
        r = random.Random(seed * 29 + n)
        outs = gen.pick_outputs(r, ni, len(gs), kind=['last', 'some', 'dup', 'withinput', 'none'][n % 5])
        srcs.append({'k': 'trav', 'net': [ni, gs], 'outs': outs, 'variant': ['plain', 'shuffle'][n % 2], 'vs': n + seed, 'ts': r.randrange(10**6)})
    # the smallest circuits: nothing at all, a single input, a single constant, two unrelated inputs
    for net, outs in (((0, []), []), ((1, []), [1]), ((1, []), []), ((0, [('ALWAYS_TRUE', [])]), [1]), ((2, []), [2]), ((1, [('NOT', [1])]), [2])):
        for v in ('plain',):
            srcs.append({'k': 'trav', 'net': [net[0], [list(g) for g in net[1]]], 'outs': outs, 'variant': v, 'vs': 1, 'ts': len(srcs)})
            srcs.append({'k': 'trav', 'net': [net[0], [list(g) for g in net[1]]], 'outs': outs, 'variant': v, 'vs': 2, 'ts': len(srcs) + 7})
    nrand = 300 if tier == 'quick' else 5000
    for j in range(nrand):
        net = gen.random_netlist(rng, ni=rng.randint(1, 5), ng=rng.randint(1, 14))
        srcs.append({'k': 'trav', 'net': [net[0], net[1]], 'outs': gen.pick_outputs(rng, net[0], len(net[1])), 'variant': rng.choice(['plain', 'shuffle']), 'vs': rng.randrange(10**6), 'ts': rng.randrange(10**6)})
    # labels are the user's: start sets given by labels that contain the characters of glob patterns, brackets, blanks, or that
    # differ from another label only by such characters - a start label names exactly the gate that carries it
    pat_labels = ['a[0]', 'a0', 'x*', 'xy', '?', 'q', 'b.c', 'bxc', '[ab]', 'a', ' ', '']
    pat_net = [3, [['AND', [1, 2]], ['OR', [2, 3]], ['XOR', [4, 5]], ['NOT', [1]], ['AND', [6, 7]], ['NOT', [5]], ['OR', [8, 9]], ['NOT', [3]], ['AND', [10, 11]]]]
    for shift in range(4):
        labs = pat_labels[shift:] + pat_labels[:shift]
        for l in labs:
            srcs.append({'k': 'trav', 'net': pat_net, 'outs': [12, 9], 'variant': 'plain', 'labels': labs, 'start': [l], 'vs': shift, 'ts': shift * 31 + len(l)})
        srcs.append({'k': 'trav', 'net': pat_net, 'outs': [12, 9], 'variant': 'plain', 'labels': labs, 'start': [labs[0], labs[5]], 'vs': shift, 'ts': shift})
    # circuits with a past: reached by a random history of public mutators (replace_subcircuit, connect, rename, remove,
    # blocks, into_bench, ...), then traversed - what a mutator leaves in the users index is what the traversals walk
    for j in range(250 if tier == 'quick' else 4000):
        srcs.append({'k': 'trav', 'past': {'seed': rng.randrange(10**9), 'n': rng.randint(4, 12)}, 'vs': j, 'ts': rng.randrange(10**6)})
    # dense cones: every gate reads every earlier node, so the work list of a traversal holds thousands of entries
    # (operand order: nearest gate last / first / alternating - it decides how deep a depth-first walk dives before it unwinds)
    for ng in ((60, 120) if tier == 'quick' else (60, 120, 200)):
        for order in ('near-last', 'near-first', 'alternating'):
            srcs.append({'k': 'trav', 'dense': ng, 'order': order, 'vs': ng, 'ts': ng + len(order)})
    # deep circuits: one path longer than the interpreter's recursion limit, stored in and against topological order
    for depth in ([1500] if tier == 'quick' else [1500, 4000]):
        srcs.append({'k': 'deep', 'depth': depth})
        srcs.append({'k': 'deep', 'depth': depth, 'rev': True})
    for big in ([300, 600] if tier == 'quick' else [250, 300, 520, 600, 1100, 2000]):
        for loop in ('none', 'beside', 'consumes-output', 'under-outputs', 'self-beside'):
            srcs.append({'k': 'cycle', 'big': big, 'loop': loop})
    ncyc = 600 if tier == 'quick' else 8000
    for j in range(ncyc):
        srcs.append({'k': 'cycle', 'seed': rng.randrange(10**9)})
    ctx['gen_note'] = '; '.join(note) + f'; {min(take, len(nets))} replayed x ~6 traversal configurations; {ncyc} cyclic/acyclic netlists for the cycle check'
    return srcs


def _trav(c, mode, inverse, start, hooks, topo, interleave=None):
    """interleave: 'lockstep' - another traversal of the SAME circuit is consumed one step per step of this one;
    'nested' - the exit / enter hook runs a complete traversal of its own.  Traversals are generators: several may be alive."""
    ev = []
    kw = {}
    if 'enter' in hooks:
        kw['on_enter_hook'] = lambda g, st: ev.append({'e': 'enter', 'l': g.label})
    if 'discover' in hooks:
        kw['on_discover_hook'] = lambda g, st: ev.append({'e': 'discover', 'l': g.label})
    if 'exit' in hooks and mode == 'DFS':
        kw['on_exit_hook'] = lambda g, st: ev.append({'e': 'exit', 'l': g.label})
    if 'unvisited' in hooks:
        kw['unvisited_hook'] = lambda g, st: ev.append({'e': 'unvisited', 'l': g.label})
    if 'end' in hooks:
        kw['on_traversal_end_hook'] = lambda st: ev.append({'e': 'end', 'l': ''})
    exc = ''
    try:
        fn = c.dfs if mode == 'DFS' else c.bfs
        # keywords whose value is the documented default (forward direction, unvisited gates in storage order) are
        # left out on every other call
        if not inverse and (len(ev) + len(c.gates)) % 2 == 0:
            pass
        else:
            kw['inverse'] = inverse
        if not topo and len(c.gates) % 2 == 1:
            pass
        else:
            kw['topsort_unvisited'] = topo
        other = None
        if interleave == 'lockstep':
            other = (c.bfs if mode == 'DFS' else c.dfs)()
        if interleave == 'nested':
            inner = kw.get('on_enter_hook')

            def nested_enter(g, st, _inner=inner):
                if _inner is not None:
                    _inner(g, st)
                for _ in itertools.islice(c.bfs([g.label]), 4 * len(c.gates) + 4):     # a complete traversal of its own (bounded)
                    pass
            kw['on_enter_hook'] = nested_enter
        steps = 0
        for g in fn(start, **kw):
            ev.append({'e': 'yield', 'l': g.label})
            if other is not None:
                next(other, None)
            steps += 1
            if steps > 4 * len(c.gates) + 4:
                exc = 'traversal-does-not-terminate'
                break
    except Exception as e:
        exc = type(e).__name__
    return ev, exc


def record(src):
    from cirbo.core.circuit import Circuit
    from cirbo.core.circuit.validation import check_circuit_has_no_cycles
    from cirbo.core.circuit.exceptions import CircuitValidationError

    if src['k'] == 'cycle' and src.get('big'):
        # hundreds of gates: a chain under the outputs plus, by choice, a loop beside it (not reachable from the outputs), a loop
        # that only CONSUMES an output, a loop under the outputs, a self-loop
        n = src['big']
        lines = ['INPUT(x)', 'INPUT(y)'] + [f'g{k} = {"XOR" if k % 2 else "AND"}({"x" if k == 0 else f"g{k - 1}"}, y)' for k in range(n)]
        kind = src['loop']
        if kind == 'beside':
            lines += ['p = AND(q, x)', 'q = OR(p, y)']
        elif kind == 'consumes-output':
            lines += [f'p = AND(q, g{n - 1})', 'q = NOT(p)']
        elif kind == 'under-outputs':
            lines[2 + n // 2] = f'g{n // 2} = AND(g{n // 2 - 1}, g{n // 2 + 3})'
        elif kind == 'self-beside':
            lines += ['p = AND(p, x)']
        lines += [f'OUTPUT(g{n - 1})', f'OUTPUT(g{n // 3})']
        c = Circuit.from_bench_string('\n'.join(lines) + '\n')
        raised, other = False, ''
        try:
            check_circuit_has_no_cycles(c)
        except CircuitValidationError:
            raised = True
        except Exception as e:
            other = type(e).__name__
        case = {'kind': 'cycle', 'c': project(c, users=False, blocks=False), 'raised': raised, 'src': src}
        if other:
            case['raised'] = False
            case['other_exc'] = other
        return case
    if src['k'] == 'cycle':
        r = random.Random(src['seed'])
        n_in, n_g = r.randint(1, 3), r.randint(1, 7)
        labels = [f'x{j}' for j in range(n_in)] + [f'g{k}' for k in range(n_g)]
        lines = [f'INPUT(x{j})' for j in range(n_in)]
        gl = {}
        cyclic = r.random() < 0.6
        for k in range(n_g):
            t = r.choice(['AND', 'OR', 'NOT', 'XOR', 'NAND'])
            pool = labels if cyclic else labels[: n_in + k]
            ops = [r.choice(pool)] if t == 'NOT' else [r.choice(pool), r.choice(pool)]
            gl[f'g{k}'] = (t, ops)
            lines.append(f'g{k} = {t}({", ".join(ops)})')
        outs = [r.choice(labels) for _ in range(r.randint(0, 2))]
        for o in outs:
            lines.append(f'OUTPUT({o})')
        c = Circuit.from_bench_string('\n'.join(lines) + '\n')
        raised = False
        other = ''
        try:
            check_circuit_has_no_cycles(c)
        except CircuitValidationError:
            raised = True
        except Exception as e:
            other = type(e).__name__
        case = {'kind': 'cycle', 'c': project(c, users=False), 'raised': raised, 'src': src}
        if other:
            case['raised'] = False
            case['other_exc'] = other
        return case
    if src['k'] == 'deep':
        from cirbo.core.circuit import gate as G
        n = src['depth']
        c = Circuit()
        c.add_inputs(['x', 'y'])
        names = []
        for k in range(n):
            c.emplace_gate(f'g{k}', G.XOR if k % 2 else G.NOT, ('x',) if k == 0 else (f'g{k - 1}', 'y') if k % 2 else (f'g{k - 1}',))
            names.append(f'g{k}')
        c.set_outputs([f'g{n - 1}'])
        if src.get('rev'):
            for l in names[::-1]:
                c.rename_gate(l, l + '_')
        case = {'kind': 'travdeep', 'c': project(c, users=False, blocks=False), 'orders': [], 'travs': [], 'src': src}
        for inv in (False, True):
            try:
                case['orders'].append({'inv': inv, 'order': [g.label for g in c.top_sort(inverse=inv)], 'exc': ''})
            except Exception as e:
                case['orders'].append({'inv': inv, 'order': [], 'exc': type(e).__name__})
        for mode in ('DFS', 'BFS'):
            for inv in (False, True):
                ev, exc = _trav(c, mode, inv, None, {'enter', 'exit', 'unvisited', 'end'}, False)
                case['travs'].append({'mode': mode, 'inverse': inv, 'ev': ev, 'exc': exc})
        raised, other = False, ''
        try:
            check_circuit_has_no_cycles(c)
        except CircuitValidationError:
            raised = True
        except Exception as e:
            other = type(e).__name__
        if raised or other:
            case['travs'].append({'mode': 'DFS', 'inverse': False, 'ev': [], 'exc': 'cycle-check:' + (other or 'CircuitValidationError')})
        return case
    if src.get('past'):
        from .. import hist, histgen
        w = {'replace_subcircuit': 6, 'connect': 5, 'rename_gate': 3, 'remove_gate': 2, 'replace_inputs': 2, 'into_bench': 1.5, 'add_gate': 8}
        c = hist.evolve(histgen.Chooser(src['past']['seed'], w), src['past']['n'])
    elif src.get('dense'):
        from cirbo.core.circuit import gate as G
        c = Circuit.bare_circuit(8, prefix='x')
        for k in range(src['dense']):
            prev = list(c.gates)
            rev = {'near-last': False, 'near-first': True, 'alternating': bool(k % 2)}[src.get('order', 'alternating')]
            c.emplace_gate(f'd{k}', [G.AND, G.OR, G.XOR][k % 3], tuple(prev[::-1] if rev else prev))
        c.set_outputs([f'd{src["dense"] - 1}'])
    else:
        c = build(src)
    r = random.Random(src['ts'])
    labels = list(c.gates)
    proj = project(c)
    out = []
    for inv in (False, True):
        try:
            order = [g.label for g in c.top_sort(inverse=inv)]
            exc = ''
        except Exception as e:
            order, exc = [], type(e).__name__
        out.append({'kind': 'topsort', 'c': proj, 'inv': inv, 'order': order, 'exc': exc, 'src': src})
    configs = []
    for mode in ('DFS', 'BFS'):
        for inv in (False, True):
            configs.append((mode, inv))
    for mode, inv in configs:
        startkind = r.choice(['default', 'one', 'two', 'default', 'default', 'empty'])
        if src.get('start'):
            start = list(src['start'])
            start_arg = list(start)
        elif startkind == 'empty':
            start_arg, start = [], []        # the empty start set: nothing is reached, everything is unvisited
        elif startkind == 'default' or not labels:
            start_arg, start = None, (list(c.inputs) if inv else list(c.outputs))
        elif startkind == 'one':
            start = [r.choice(labels)]
            start_arg = list(start)
        else:
            start = [r.choice(labels), r.choice(labels)]
            start_arg = list(start)
        hooks = {'enter', 'exit', 'unvisited', 'end'} | ({'discover'} if r.random() < 0.5 else set())
        if r.random() < 0.25:
            hooks = set(r.sample(sorted(hooks), r.randint(0, len(hooks))))
        topo = r.random() < 0.5
        ev, exc = _trav(c, mode, inv, start_arg, hooks, topo, interleave={3: 'lockstep', 5: 'nested'}.get(src.get('ts', 0) % 7))
        out.append({'kind': 'trav', 'c': proj, 'mode': mode, 'inverse': inv, 'start': start, 'topo': topo,
                    'hooks': sorted(hooks), 'ev': [e for e in ev if e['e'] != 'discover'], 'exc': exc, 'src': src})
    if src.get('dense') or src.get('past'):
        # the cycle check on these (acyclic) circuits as well
        raised, other = False, ''
        try:
            check_circuit_has_no_cycles(c)
        except CircuitValidationError:
            raised = True
        except Exception as e:
            other = type(e).__name__
        case = {'kind': 'cycle', 'c': project(c, users=False), 'raised': raised, 'src': src}
        if other:
            case['other_exc'] = other
        out.append(case)
    return out


def nontrivial(case):
    return any(g['t'] != 'INPUT' for g in case['c']['g'].values())


def features(case):
    yield case['kind']
    if case['kind'] == 'trav':
        yield case['mode'] + ('-inverse' if case['inverse'] else '')
        if case['topo']:
            yield 'topsort_unvisited'
    if case['kind'] == 'cycle':
        yield 'cycle-raised' if case['raised'] else 'cycle-clean'
