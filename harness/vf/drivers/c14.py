"""C14 - conversion to the bench basis preserves the function."""
import random

from .. import gen
from ..project import project
from . import _histcommon as H

PROP = 'C14'
LEVEL = 'model_checking'
RULE = ('into_bench on (a) every CircuitAPI transition ending in into_bench, (b) every TLC-enumerated universe circuit '
        '(all 18 types: comparison gates with identical operands, L*/R* gates, constants) with seed-chosen outputs and blocks, '
        '(c) seeded random circuits/histories; plus into_graphviz_digraph(as_bench=True) non-interference; TLC judges interface, '
        'truth tables of all original gates, type set, well-formedness and block membership of helper gates; '
        'non-trivial = the circuit contained at least one non-bench gate')
ASSUMPTIONS = ['circuits have at least one input whenever they contain a constant (outside that the call may raise)']


def design(tier, seed):
    from .. import tlc

    r = tlc.run_model('GateLemmas', 'GateLemmas.cfg', workers=8, tag='C14-lemma', xmx='4g')
    tlc.cleanup(r['workdir'])
    return {'states': r['distinct'], 'transitions': r['generated'],
            'runs': [f'GateLemmas.RewriteKeeps (bench rewrite table denotes GateFn, all argument tuples): {r["distinct"]} states, {r["wall_s"]:.1f}s']}


def sources(tier, seed, ctx):
    rng = random.Random(seed + 14)
    note = []
    srcs = H.bfs_filtered(3 if tier == 'quick' else 4, {'into_bench'}, 'C14-bfs', ctx, note)
    nets, st = gen.universe(2, 2, gen.ALL18, 3, tag='C14-U')
    if tier != 'quick':
        n2, st2 = gen.universe(3, 2, gen.ALL18, 3, tag='C14-U2')
        nets += n2
        st = {k: st[k] + st2[k] for k in st}
    ctx['gen_states'] += st['distinct']
    ctx['gen_transitions'] += st['generated']
    rng.shuffle(nets)
    take = 8000 if tier == 'quick' else 120000
    for n, net in enumerate(nets[:take]):
        ni, gs = net
        r = random.Random(seed * 41 + n)
        outs = gen.pick_outputs(r, ni, len(gs), kind=['dup', 'some', 'many', 'last', 'withinput'][n % 5])
        labels = gen.default_labels(ni, len(gs))
        blocks = {}
        if gs and r.random() < 0.6:
            members = r.sample(labels[ni:], r.randint(1, len(gs)))
            blocks['blkA'] = {'i': [], 'g': members, 'o': members[:1]}
            if r.random() < 0.4:
                blocks['blkB'] = {'i': [], 'g': [labels[-1]], 'o': []}
        init = H.rec_from_net(net, outs, blocks=blocks)
        acts = [{'a': 'into_bench'}]
        if r.random() < 0.2:
            acts.append({'a': 'copy'})
            acts.append({'a': 'into_bench'})
        srcs.append({'k': 'hist', 'init': init, 'acts': acts, 'from': 'universe'})
        if n % 10 == 0:
            srcs.append({'k': 'graphviz', 'init': init, 'from': 'graphviz'})
    note.append(f'{min(take, len(nets))} of {len(nets)} universe circuits')
    nrand = 600 if tier == 'quick' else 8000
    w = {'into_bench': 4, 'add_gate': 12, 'make_block': 3, 'connect': 2}
    for j in range(nrand):
        srcs.append({'k': 'rand', 'seed': rng.randrange(10**9), 'n': rng.randint(5, 14), 'w': w, 'from': 'rand'})
    ctx['gen_note'] = '; '.join(note)
    return srcs


def record(src):
    if src['k'] == 'graphviz':
        from .. import hist

        c = hist.build(src['init'])
        before = project(c)
        exc = ''
        try:
            c.into_graphviz_digraph(as_bench=True)
        except Exception as e:
            exc = type(e).__name__
        return {'kind': 'same', 'what': 'into_graphviz_digraph(as_bench=True)-modified-its-receiver', 'a': before, 'b': project(c), 'exc': exc, 'src': src}
    return H.record_hist(src, PROP)


def nontrivial(case):
    if case['kind'] == 'same':
        return True
    bench = set(gen.BENCH_TYPES) | {'INPUT'}
    first = case['init']
    return any(g['t'] not in bench for g in first['g'].values()) or any(
        s['act']['a'] == 'into_bench' and s['ret'] == 'ok' for s in case['steps'][1:])


def features(case):
    if case['kind'] == 'same':
        return {'graphviz-as-bench'}
    seen = H.step_features(case, {'into_bench'})
    if case['init']['b']:
        seen.add('with-blocks')
    for g in case['init']['g'].values():
        if g['t'] in ('GT', 'LT', 'GEQ', 'LEQ') and len(set(g['o'])) == 1:
            seen.add('comparison-with-identical-operands')
        if g['t'] in gen.NULLARY:
            seen.add('constant')
    return seen
