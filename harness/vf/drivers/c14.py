"""C14 - conversion to the bench basis preserves the function."""
import random

from .. import gen
from ..project import project
from . import _histcommon as H

PROP = 'C14'
LEVEL = 'model_checking'
RULE = ('into_bench on (a) every CircuitAPI transition ending in into_bench, (b) every TLC-enumerated universe circuit '
        '(all 18 types: comparison gates with identical operands, L*/R* gates, constants) with seed-chosen outputs and blocks, '
        '(c) seeded random circuits/histories; plus into_graphviz_digraph(as_bench=True) non-interference; TLC judges interface, '
        'truth tables of all original gates, type set, well-formedness and block membership of helper gates; '
        'non-trivial = the circuit contained at least one non-bench gate')
ASSUMPTIONS = ['circuits have at least one input whenever they contain a constant (outside that the call may raise)']


def design(tier, seed):
    from .. import tlc

    r = tlc.run_model('GateLemmas', 'GateLemmas.cfg', workers=8, tag='C14-lemma', xmx='4g')
    tlc.cleanup(r['workdir'])
    return {'states': r['distinct'], 'transitions': r['generated'],
            'runs': [f'GateLemmas.RewriteKeeps (bench rewrite table denotes GateFn, all argument tuples): {r["distinct"]} states, {r["wall_s"]:.1f}s']}


def sources(tier, seed, ctx):
    rng = random.Random(seed + 14)
    note = []
    srcs = H.bfs_filtered(3 if tier == 'quick' else 4, {'into_bench'}, 'C14-bfs', ctx, note)
    nets, st = gen.universe(2, 2, gen.ALL18, 3, tag='C14-U')
    if tier != 'quick':
        n2, st2 = gen.universe(3, 2, gen.ALL18, 3, tag='C14-U2')
        nets += n2
        st = {k: st[k] + st2[k] for k in st}
    ctx['gen_states'] += st['distinct']
    ctx['gen_transitions'] += st['generated']
    rng.shuffle(nets)
    take = 8000 if tier == 'quick' else 120000
    for n, net in enumerate(nets[:take]):
        ni, gs = net
        r = random.Random(seed * 41 + n)
        outs = gen.pick_outputs(r, ni, len(gs), kind=['dup', 'some', 'many', 'last', 'withinput'][n % 5])
        labels = gen.default_labels(ni, len(gs))
        blocks = {}
        if gs and r.random() < 0.6:
            members = r.sample(labels[ni:], r.randint(1, len(gs)))
            blocks['blkA'] = {'i': [], 'g': members, 'o': members[:1]}
            if r.random() < 0.4:
                blocks['blkB'] = {'i': [], 'g': [labels[-1]], 'o': []}
        HELPERS = ('LT', 'LEQ', 'GT', 'GEQ', 'ALWAYS_TRUE', 'ALWAYS_FALSE')
        if n % 7 == 3 and len(gs) >= 2:
            # labels are the user's: a gate may be called what the conversion would like to call a helper of ANOTHER gate
            # (with and without a suffix), or carry the prefixes the library generates elsewhere
            k0 = r.randrange(len(gs))
            style = r.randrange(3)
            for k in range(len(gs)):
                if k == k0:
                    continue
                if style == 0 and gs[k0][0] in HELPERS:
                    labels[ni + k] = f'new_gate_{gs[k0][0]}_for_{labels[ni + k0]}'
                    break
                if style == 1:
                    labels[ni + k] = r.choice(['not_', 'new_', 'tmp_', 'gate_', 'new_gate_NOT_for_']) + labels[ni + k0]
                    break
                if style == 2:
                    labels[ni + k] = r.choice(['10', '2', 'INPUT', 'vdd', 'x0@g', 'NOT'])
                    break
            if blocks:
                old = gen.default_labels(ni, len(gs))
                ren = dict(zip(old, labels))
                blocks = {b: {f: [ren[x] for x in v[f]] for f in ('i', 'g', 'o')} for b, v in blocks.items()}
        init = H.rec_from_net(net, outs, labels=labels, blocks=blocks)
        acts = [{'a': 'into_bench'}]
        if n % 7 == 5 and gs and gs[-1][0] in HELPERS and (ni + len(gs)) in outs:
            # converted; the last gate (an output, no users) is dropped and built again under its old label with a type
            # that needs a helper; converted again - the first conversion's helper is still in the circuit
            lab = labels[-1]
            newouts = [labels[o - 1] for o in outs if o != ni + len(gs)]
            t2 = r.choice(['LT', 'GEQ', 'ALWAYS_TRUE'])
            acts += [{'a': 'set_outputs', 'q': newouts}, {'a': 'remove_gate', 'l': lab},
                     {'a': 'add_gate', 'l': lab, 't': t2, 'ops': [] if t2 == 'ALWAYS_TRUE' else [labels[0], labels[ni - 1]]},
                     {'a': 'mark_as_output', 'l': lab}, {'a': 'into_bench'}]
            srcs.append({'k': 'hist', 'init': init, 'acts': acts, 'from': 'universe-rebuilt'})
            continue
        if r.random() < 0.2:
            acts.append({'a': 'copy'})
            acts.append({'a': 'into_bench'})
        elif ni >= 2 and r.random() < 0.25:
            # converted, then an input is fixed to a constant (a new out-of-basis gate appears), then converted again
            fixed = labels[r.randrange(ni)]
            acts.append({'a': 'replace_inputs', 'T': [fixed] if r.random() < 0.5 else [], 'F': []})
            if not acts[-1]['T']:
                acts[-1]['F'] = [fixed]
            acts.append({'a': 'into_bench'})
        srcs.append({'k': 'hist', 'init': init, 'acts': acts, 'from': 'universe'})
        if n % 10 == 0:
            srcs.append({'k': 'graphviz', 'init': init, 'from': 'graphviz'})
        if n % 10 == 5 and blocks:
            srcs.append({'k': 'copy-first', 'init': init, 'how': ['copy', 'deepcopy'][n % 2], 'via': ['into_bench', 'graphviz'][(n // 10) % 2], 'from': 'copy-first'})
    note.append(f'{min(take, len(nets))} of {len(nets)} universe circuits')
    nrand = 600 if tier == 'quick' else 8000
    w = {'into_bench': 4, 'add_gate': 12, 'make_block': 3, 'connect': 2}
    for j in range(nrand):
        srcs.append({'k': 'rand', 'seed': rng.randrange(10**9), 'n': rng.randint(5, 14), 'w': w, 'from': 'rand'})
    # deep circuits: one path longer than the interpreter's recursion limit, comparison gates all along it
    for depth in ([1500] if tier == 'quick' else [1500, 4000]):
        srcs.append({'k': 'deep', 'depth': depth})
        srcs.append({'k': 'deep', 'depth': depth, 'rev': True})
        srcs.append({'k': 'deep', 'depth': depth, 'blocks': True})
        srcs.append({'k': 'deep', 'depth': 600, 'blocks': True, 'rev': True})
    ctx['gen_note'] = '; '.join(note)
    return srcs


# the symbols Circuit.into_graphviz_digraph draws for gate types (trusted 20-line translation of what
# a reader of the picture sees; a symbol not listed here is not judged)
SYMBOL_CLASS = {'': 'INPUT', '1': 'ALWAYS_TRUE', '0': 'ALWAYS_FALSE', '\u2227': 'AND', '\u2265': 'GEQ', '>': 'GT', 'IFF': 'IFF',
                '\u2264': 'LEQ', 'LIFF': 'LIFF', '\u00ac': 'NOT', '<': 'LT', '\u00ac\u2227': 'NAND', '\u00ac\u2228': 'NOR',
                '\u00ac\u2295': 'NXOR', '\u2228': 'OR', 'RIFF': 'RIFF', '\u2295': 'XOR'}


def _unq(tok):
    tok = tok.strip()
    if len(tok) >= 2 and tok[0] == '"' and tok[-1] == '"':
        return tok[1:-1].replace('\\"', '"')
    return tok


def parse_dot(dot):
    """Nodes (id -> symbol after the colon of the label), edges and cluster membership (a node
    statement inside nested `subgraph cluster_X { }` belongs to all enclosing clusters) of the dot text."""
    import re

    nodes, edges, clusters, stack = {}, [], {}, []
    for raw in dot.split('\n')[1:]:
        line = raw.strip()
        if not line:
            continue
        m = re.match(r'subgraph\s+("?)cluster_(.*?)\1\s*\{$', line)
        if m:
            stack.append(m.group(2))
            clusters.setdefault(m.group(2), [])
            continue
        if line == '}':
            if stack:
                stack.pop()
            continue
        body = re.sub(r'\s*\[[^\]]*\]\s*$', '', line)
        attrs = re.search(r'\[(.*)\]\s*$', line)
        if '->' in body:
            a, b = body.split('->', 1)
            edges.append([_unq(a), _unq(b)])
            continue
        if '=' in body and not attrs:
            continue            # graph attribute such as color=blue / label=...
        nid = _unq(body)
        if attrs:
            lm = re.search(r'label="((?:[^"\\]|\\.)*)"', attrs.group(1)) or re.search(r'label=([^\s\]]+)', attrs.group(1))
            if lm and nid not in nodes:
                lab = lm.group(1)
                nodes[nid] = SYMBOL_CLASS.get(lab.rsplit(': ', 1)[1] if ': ' in lab else '', 'unknown-symbol')
            nodes.setdefault(nid, '')
        else:
            nodes.setdefault(nid, '')
        for cl in stack:
            if nid not in clusters[cl]:
                clusters[cl].append(nid)
    return {'nodes': nodes, 'edges': edges, 'clusters': clusters}


def _bench_copy(c):
    import copy
    cb = copy.copy(c)
    cb.into_bench()
    return cb


def _copy_converted_first(src):
    """A copy of the circuit is converted (or drawn as bench): the circuit itself, blocks included, stays as it was."""
    import copy as _copy
    from .. import hist

    c = hist.build(src['init'])
    before = project(c)
    exc = ''
    try:
        cp = {'copy': _copy.copy, 'deepcopy': _copy.deepcopy}[src['how']](c)
        if src['via'] == 'into_bench':
            cp.into_bench()
        else:
            cp.into_graphviz_digraph(as_bench=True)
            c.into_graphviz_digraph(as_bench=True)
    except Exception as e:
        exc = type(e).__name__
    return {'kind': 'same', 'what': 'converting-a-copy-changed-the-original', 'a': before, 'b': project(c), 'exc': exc, 'src': src}


def record(src):
    if src['k'] == 'copy-first':
        return _copy_converted_first(src)
    if src['k'] == 'deep':
        from .. import deep
        # helper gates are allowed: more gates than before, all of bench types
        def blocks(c, order):
            # nested and overlapping blocks over hundreds of gates (a gate held by several blocks gets its helper into each)
            if src.get('blocks'):
                g = order[2:]
                c.make_block('outer', g[50:400], [g[399]])
                c.make_block('inner', g[120:260], [g[259]])
                c.make_block('overlap', g[200:500], [g[499]])
                c.make_block('tiny', g[130:133], [])
        return deep.transform_case(PROP, 'into_bench', src, _bench_copy, types=deep.BENCHY, not_larger=False, allowed=sorted(set(gen.BENCH_TYPES) | {'INPUT'}),
                                   prepare=blocks if src.get('blocks') else None)
    if src['k'] == 'graphviz':
        from .. import hist

        c = hist.build(src['init'])
        before = project(c)
        exc = ''
        try:
            c.into_graphviz_digraph(as_bench=True)
        except Exception as e:
            exc = type(e).__name__
        case = {'kind': 'draw', 'what': 'into_graphviz_digraph(as_bench=True)-modified-its-receiver', 'a': before, 'b': project(c), 'exc': exc, 'src': src,
                'nodes': {}, 'edges': [], 'clusters': {}, 'drawn': False}
        if not exc:
            # a second drawing with gate names in the node labels; its dot text is what a user sees
            try:
                dot = c.into_graphviz_digraph(as_bench=True, draw_labels=True).source
                case.update(parse_dot(dot))
                case['drawn'] = True
            except Exception as e:
                case['exc'] = type(e).__name__
        return case
    return H.record_hist(src, PROP)


def nontrivial(case):
    if case['kind'] in ('draw', 'transformdeep', 'same'):
        return True
    bench = set(gen.BENCH_TYPES) | {'INPUT'}
    first = case['init']
    return any(g['t'] not in bench for g in first['g'].values()) or any(
        s['act']['a'] == 'into_bench' and s['ret'] == 'ok' for s in case['steps'][1:])


def features(case):
    if case['kind'] == 'transformdeep':
        return {'deep:into_bench'}
    if case['kind'] == 'same':
        return {'copy-converted-first'}
    if case['kind'] == 'draw':
        return {'graphviz-as-bench'} | ({'graphviz-with-block-clusters'} if case['clusters'] else set())
    seen = H.step_features(case, {'into_bench'})
    if case['init']['b']:
        seen.add('with-blocks')
    for g in case['init']['g'].values():
        if g['t'] in ('GT', 'LT', 'GEQ', 'LEQ') and len(set(g['o'])) == 1:
            seen.add('comparison-with-identical-operands')
        if g['t'] in gen.NULLARY:
            seen.add('constant')
    return seen
