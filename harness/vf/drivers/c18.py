"""C18 - simplification passes achieve their stated effect; pipelines equal sequencing."""
import json
import os

from .. import tlc
from . import _passes as P

PROP = 'C18'
LEVEL = 'model_checking'
RULE = ('same circuits as C03 x each pass judged on its own postcondition (RRG: exactly the reachable gates and idempotence; '
        'MDG: no structural duplicates; MEG: no two non-input gates with one truth table; MUO: the two hedged clauses) plus ALL '
        'pipeline leaf sequences of length <= 3 (quick) / 4 (thorough) over the five passes, enumerated by TLC (Pipelines.tla), in '
        'five composition shapes, compared with applying the constituents one after another; non-trivial = argument has a non-input gate')
ASSUMPTIONS = ['pipeline equality is Circuit.__eq__ (gates, inputs, outputs)']


def pipelines(maxlen):
    wd = tlc.workdir('C18-pipes')
    cfg = os.path.join(wd, 'p.cfg')
    with open(cfg, 'w') as f:
        f.write(f'SPECIFICATION Spec\nINVARIANT Emit\nCHECK_DEADLOCK FALSE\nCONSTANTS\n MaxLen = {maxlen}\n')
    res = tlc.run_model('Pipelines', cfg, workers=1, tag='C18-pipes-run', xmx='2g')
    out = [json.loads(json.loads(ln)) for ln in res['stdout'].split('\n') if ln.startswith('"[')]
    tlc.cleanup(wd)
    tlc.cleanup(res['workdir'])
    return [p for p in out if p], res


def design(tier, seed):
    from .. import tlc

    r = tlc.run_model('PassLemmas', 'PassLemmas.cfg', workers=16, tag='C18-lemma', xmx='6g')
    tlc.cleanup(r['workdir'])
    return {'states': r['distinct'], 'transitions': r['generated'],
            'runs': [f'PassLemmas (algorithm models RRG/RRGI/MUO/MDG/MEG of Passes.tla satisfy the C03 and C18 predicates on every circuit of U(2,2,10 types,3) x 3 output choices): {r["distinct"]} states, {r["wall_s"]:.1f}s']}


def sources(tier, seed, ctx):
    circs, rng = P.circuit_sources(tier, seed, ctx, 18, 4000, 50000, 400, 6000)
    pipes, res = pipelines(3 if tier == 'quick' else 4)
    ctx['gen_states'] += res['distinct']
    ctx['gen_transitions'] += res['generated']
    ctx['gen_note'] += f'; {len(pipes)} pipeline leaf sequences enumerated by TLC'
    srcs = []
    for n, cs in enumerate(circs):
        fam = cs.get('family')
        plist = (['MUO', 'cleanup'] if fam in ('F0', 'F1') else ['MDG', 'MEG', 'cleanup_heavy']) if fam else (P.PASSES if n % 4 == 0 else [P.PASSES[n % len(P.PASSES)]])
        for name in plist:
            s = dict(cs)
            s['pass'] = name
            srcs.append(s)
    # every pipeline sequence on a few circuits, in every shape over the run
    k = 0
    dupes = [c for c in circs if c.get('family') == 'F2']
    for pn, leaves in enumerate(pipes):
        for rep in range(2 if tier == 'quick' else 6):
            pool = circs
            if dupes and any(x.startswith('U') for x in leaves) and rep % 2 == 0:
                pool = dupes     # user passes imply duplicate merging: circuits that do contain duplicate gates
            s = dict(pool[(pn * 7 + rep * 13) % len(pool)])
            s['pass'] = 'pipeline'
            s['leaves'] = leaves
            s['shape'] = P.SHAPES[k % len(P.SHAPES)]
            k += 1
            srcs.append(s)
    # three equivalent gates, one of them carrying the empty label (or a label that is falsy / looks like a number), in every
    # labelling and output order: the representative of an equivalence group is a LABEL, whatever it looks like
    import itertools as _it
    for trio in (('', 'p', 'q'), ('0', 'p', 'q'), ('', '0', ' ')):
        for perm in _it.permutations(trio):
            for outs in ([7, 8], [8, 7], [6, 8, 7]):
                # inputs a, b, c; e1 = AND(a, b); e2 = NOR(NOT a, NOT b) via n1, n2; e3 = AND(b, a, b); users u1 = OR(e?, c) ...
                gs = [['AND', [1, 2]], ['NAND', [2, 1]], ['AND', [2, 1, 2]], ['NOT', [5]], ['OR', [4, 3]], ['XOR', [6, 7]], ['AND', [7, 3]], ['OR', [8, 9]]]
                labels = ['a', 'b', 'c', perm[0], 'nn', perm[1], perm[2], 'u1', 'u2', 'u3', 'u4'][:3 + len(gs)]
                # e-gates: node 4 (perm[0]), node 7 = NOT(NAND) (perm[2]), node 6 = AND(b,a,b) (perm[1])
                for name in ('MEG', 'cleanup_heavy'):
                    srcs.append({'net': [3, gs], 'outs': [o + 2 for o in outs], 'variant': 'plain', 'vs': 0, 'pass': name, 'labels': labels})
    # many inputs (17, 18): equivalent but not duplicate gates (OR(a, b) and NAND(NOT a, NOT b)) under the heavy clean-up, the
    # equivalence pass alone and in a pipe - "heavy" means the same thing at every size
    for ni in ([17] if tier == 'quick' else [16, 17, 18, 20]):
        gs = [['OR', [1, 2]], ['NOT', [1]], ['NOT', [2]], ['NAND', [ni + 2, ni + 3]], ['AND', [ni + 1, 3]], ['XOR', [ni + 4, 4]]]
        for name, extra in (('cleanup_heavy', {}), ('MEG', {}), ('pipeline', {'leaves': ['MDG', 'MEG'], 'shape': 'pipe'})):
            srcs.append(dict({'net': [ni, gs], 'outs': [ni + 5, ni + 6], 'variant': 'plain', 'vs': 0, 'pass': name}, **extra))
    # deep circuits through pipelines of every shape
    for depth in ([1500] if tier == 'quick' else [1500, 4000]):
        for j, shape in enumerate(P.SHAPES):
            srcs.append({'k': 'deep', 'depth': depth, 'pass': 'pipeline', 'leaves': [['MDG', 'MUO'], ['MUO', 'RRG', 'MDG'], ['MEG', 'MUO']][j % 3],
                         'shape': shape, 'rev': bool(j % 2)})
    return srcs


def record(src):
    if src.get('k') == 'deep':
        from .. import deep
        return deep.transform_case(PROP, 'pipeline-' + src['shape'], src, lambda c: P.run_pass('pipeline', c, src['leaves'], src['shape']),
                                   types=('NOT', 'XOR', 'NOT', 'NOT', 'AND', 'XOR'))
    return P.record_pass(src, PROP)


def nontrivial(case):
    if case['kind'] == 'transformdeep':
        return True
    return any(g['t'] != 'INPUT' for g in case['pre']['g'].values())


def features(case):
    if case['kind'] == 'transformdeep':
        yield 'deep:' + case['what']
        return
    yield from P.pass_features(case)
    if case['pass'] == 'pipeline':
        yield 'shape-' + case['shape']
