"""Shared pieces of the history-based drivers (C02, C10, C14, C19)."""
import random

from .. import apigen, gen, hist, histgen


def rec_from_net(net, outs, labels=None, blocks=None):
    gates, ins, outl = gen.netlist_data(net, labels, outs)
    return {'g': {l: {'t': t, 'o': o} for l, t, o in gates}, 'ord': [g[0] for g in gates], 'i': ins, 'o': outl, 'b': blocks or {}}


def record_hist(src, prop):
    if src['k'] == 'hist':
        case = hist.run_history(src['acts'], prop, init=src.get('init'))
    else:
        case = histgen.random_history(src['seed'], src['n'], prop, weights=src.get('w'), init=src.get('init'))
    case['src'] = src
    return case


def bfs_filtered(depth, last_actions, tag, ctx, note):
    hs, st = apigen.bfs_transitions({'Depth': depth}, tag=tag)
    ctx['gen_states'] = ctx.get('gen_states', 0) + st['distinct']
    ctx['gen_transitions'] = ctx.get('gen_transitions', 0) + st['generated']
    sel = [h for h in hs if h[-1]['a'] in last_actions]
    note.append(f'CircuitAPI BFS depth {depth}: {st["distinct"]} states / {st["generated"]} transitions, {len(sel)} end in {sorted(last_actions)} and are replayed')
    return [{'k': 'hist', 'acts': h, 'from': 'bfs'} for h in sel]


def step_features(case, names):
    seen = set()
    for s in case['steps']:
        a = s['act']
        if a['a'] in names:
            seen.add(a['a'] + (':raised' if s['ret'] != 'ok' else ''))
    seen.add('from-' + case['src'].get('from', '?'))
    return seen


def finding_probes(prop):
    """Regression probes of the listed findings of `prop` (fixed entries suppress nothing)."""
    from ..runner import load_findings

    out = []
    for f in load_findings(prop):
        pr = f.get('probe')
        if isinstance(pr, dict) and 'acts' in pr:
            src = {'k': 'hist', 'acts': pr['acts'], 'from': 'finding-probe'}
            if 'init' in pr:
                src['init'] = pr['init']
            if f.get('status') == 'known':
                src['probe'] = f['key']
            out.append(src)
    return out
