"""C04 - SAT-based subcircuit minimization returns an equivalent, not larger circuit."""
import json
import os
import random
import subprocess
import sys

from .. import VERIF, gen

PROP = 'C04'
LEVEL = 'exploration'
SUPPORTED = ['NOT', 'AND', 'NAND', 'OR', 'NOR', 'XOR', 'NXOR', 'GEQ', 'GT', 'LEQ', 'LT']
RULE = ('seeded random circuits over the supported gate set (2-5 inputs, 3-12 gates; with and without functionally equivalent gates) x bases '
        'AIG / XAIG / FULL (string and enum) x max_subcircuit_size 2..6 x cut_size 2..5 x cut_limit x solver_time_limit (in-process and forked '
        'solver) x enable_validation, each call in its own interpreter under a seed-chosen PYTHONHASHSEED and a seed-perturbed cut family '
        '(shim enumerator); TLC judges interface, truth table, non-trivial gate count, no FailedValidationError, and - on circuits TLC finds '
        'free of equivalent gates - no internal error; non-trivial = the circuit has >= 3 non-trivial gates')
ASSUMPTIONS = ['cut enumerator and SAT solver are the shims (a valid family of cuts / a sound and complete solver are inside the quantifier)',
               'each call runs in a fresh interpreter so that hash-seed dependent set orders vary']


def sources(tier, seed, ctx):
    rng = random.Random(seed + 4)
    n = 640 if tier == 'quick' else 5000
    srcs = []
    for j in range(n):
        big = j % 4 == 0            # larger circuits with reconvergent fan-out (correlated cut leaves), default-like parameters
        ni = rng.randint(4, 7) if big else rng.randint(2, 5)
        ng = rng.randint(6, 14) if big else rng.randint(3, 12 if tier != 'quick' else 9)
        net = gen.random_netlist(rng, ni=ni, ng=ng, types=SUPPORTED, amax=2, locality=0.7 if big else 0.5)
        outs = gen.pick_outputs(rng, ni, ng, kind=rng.choice(['last', 'some', 'some', 'many', 'dup']))
        outs = [o for o in outs if o > ni] or [ni + ng]
        srcs.append({'net': [net[0], net[1]], 'outs': outs, 'basis': rng.choice(['AIG', 'XAIG', 'FULL', 'xaig']), 'basis_enum': rng.random() < 0.4,
                     'validation': rng.random() < 0.5, 'max_size': rng.choice([4, 5, 6, 7] if big else [2, 3, 4, 5, 6]),
                     'cut_size': rng.choice([4, 5] if big else [2, 3, 4, 5]),
                     'cut_limit': rng.choice([8, 25] if big else [3, 8, 25]), 'time_limit': rng.choice([0, 0, 0, 15]),
                     'hashseed': rng.choice([0, 1, 2, 7, 42]), 'cutseed': rng.choice([0, 0, rng.randrange(1, 10**6)]),
                     # storage order of the argument: as built / non-topological (bench text with forward references)
                     'storage': rng.choice(['built', 'built', 'shuffled']),
                     # minimise the result of the first call once more (its storage order is not topological any more)
                     'twice': rng.random() < 0.25, 'ss': rng.randrange(10**6)})
    # labels that differ only in letter case / zero padding on every sixth source (whatever order leaves are put in, it has to be
    # the same order everywhere)
    for j, s_ in enumerate(srcs):
        if j % 6 == 1 and s_['storage'] == 'built':
            s_['twins'] = True
    # many inputs (11, 12): more input assignments than any batch a simulation may be cut into
    for j in range(4 if tier == 'quick' else 30):
        ni = 11 + j % 2
        net = gen.random_netlist(rng, ni=ni, ng=rng.randint(8, 14), types=SUPPORTED, amax=2, locality=0.6)
        outs = [ni + len(net[1]), ni + len(net[1]) - 1]
        srcs.append({'net': [net[0], net[1]], 'outs': outs, 'basis': rng.choice(['XAIG', 'AIG']), 'basis_enum': False, 'validation': j % 2 == 0,
                     'max_size': 5, 'cut_size': 4, 'cut_limit': 8, 'time_limit': 0, 'hashseed': 0, 'cutseed': 0, 'storage': 'built', 'twice': False, 'ss': 0})
        # ... and the agent's shape: a product of the first inputs plus a later one
        gs = [['AND', [1, 2]], ['OR', [ni + 1, 3]]] + [['XOR', [ni + 2 + k, 4 + k]] for k in range(ni - 3)]
        srcs.append({'net': [ni, gs], 'outs': [ni + len(gs), ni + 2], 'basis': 'XAIG', 'basis_enum': False, 'validation': False,
                     'max_size': 5, 'cut_size': 4, 'cut_limit': 8, 'time_limit': 0, 'hashseed': 0, 'cutseed': 0, 'storage': 'built', 'twice': False, 'ss': 0})
    # cones that are already optimal but contain several negations (NOR written as AND(NOT a, NOT b), its three-input form, a
    # negated-input XOR), as built, deep-copied and pickled (ss selects the clone): nothing can be saved here, so nothing may grow
    for j in range(24 if tier == 'quick' else 96):
        three = j % 2
        t = ['AND', 'OR', 'XOR', 'NAND'][(j // 2) % 4]
        gs = [['NOT', [1]], ['NOT', [2]]] + ([['NOT', [3]]] if three else [])
        k = 2 + len(gs) - (0 if three else 0)
        base = 3 if three else 2
        gs.append([t, [base + 1, base + 2]])
        if three:
            gs.append([t, [base + 4, base + 3]])
        srcs.append({'net': [base, gs], 'outs': [base + len(gs)], 'basis': ['AIG', 'XAIG', 'FULL'][j % 3], 'basis_enum': False, 'validation': j % 4 == 0,
                     'max_size': 5, 'cut_size': 4, 'cut_limit': 8, 'time_limit': 0, 'hashseed': 0, 'cutseed': 0, 'storage': 'built', 'twice': False,
                     'ss': 1 + j % 2})
    # wide cuts: 6 and 7 leaves (beyond the default cut_size), cones that are wide AND-OR-XOR trees over 7 inputs so that a
    # 7-leaf cut exists and a smaller equivalent is found quickly; the solver runs under a time limit
    wrng = random.Random(seed * 7 + 404)          # its own stream: the shapes do not depend on what was generated before
    for j in range(12 if tier == 'quick' else 60):
        # the first ones are pure chains of one operation (a 7-leaf cone whose function is the 7-input AND / OR / XOR)
        ops = [['AND'] * 6, ['OR'] * 6, ['XOR'] * 6, ['NAND'] + ['AND'] * 5][j] if j < 4 else [wrng.choice(['AND', 'OR', 'XOR', 'NAND']) for _ in range(6)]
        order = list(range(1, 8))
        wrng.shuffle(order)
        gs = [[ops[0], [order[0], order[1]]]] + [[ops[k], [7 + k, order[k + 1]]] for k in range(1, 6)]
        # a redundant tail so that something can be saved: the chain output combined with one of its own leaves
        gs.append([wrng.choice(['AND', 'OR']), [13, order[wrng.randrange(7)]]])
        srcs.append({'net': [7, gs], 'outs': [14], 'basis': ['XAIG', 'FULL', 'AIG'][j % 3], 'basis_enum': False, 'validation': j % 2 == 0,
                     'max_size': 8, 'cut_size': 7 if j % 4 else 6, 'cut_limit': 25, 'time_limit': 8, 'hashseed': [0, 7][j % 2], 'cutseed': 0,
                     'storage': 'built', 'twice': False, 'ss': 0, 'wide': True})
    ctx['gen_note'] = f'{n} minimize_subcircuits calls (a quarter of them twice in a row), wide cuts (6-7 leaves)'
    return srcs


def record(src):
    env = dict(os.environ)
    env['PYTHONHASHSEED'] = str(src['hashseed'])
    env['VF_CUT_SEED'] = str(src['cutseed'])
    env['PYTHONPATH'] = os.path.join(VERIF, 'harness')
    try:
        p = subprocess.run([sys.executable, '-m', 'vf.c04worker'], input=json.dumps(src), env=env, capture_output=True, text=True, timeout=480)
    except subprocess.TimeoutExpired:
        # the call did not return (the solver paths used here answer within seconds): an observation, not a harness failure
        return {'kind': 'same', 'what': 'minimize_subcircuits-did-not-return-within-480s', 'a': 0, 'b': 1, 'exc': 'DidNotReturn', 'src': src}
    lines = [l for l in p.stdout.strip().split('\n') if l.startswith('{')]
    if p.returncode != 0 or not lines:
        raise RuntimeError('c04 worker failed: ' + p.stderr[-800:])
    obs = json.loads(lines[-1])
    case = {'kind': 'minimize', 'orig': obs['orig'], 'exc': obs['exc'], 'where': obs.get('where', ''), 'stmt': obs.get('stmt', ''),
            'chain': obs.get('chain', []), 'validation': src['validation'], 'src': src}
    case['cuts'] = obs.get('cuts', {})
    case['cones'] = obs.get('cones', [])
    if obs.get('first'):
        case['first'] = obs['first']
    case['res'] = obs.get('res', obs['orig'])
    case['has_res'] = bool(obs.get('has_res')) or not obs['exc']
    return case


def probes():
    from ..runner import load_findings

    out = []
    for f in load_findings(PROP):
        if f.get('status') == 'known' and isinstance(f.get('probe'), dict):
            s = dict(f['probe'])
            s['probe'] = f['key']
            out.append(s)
    return out


def _has_dead_gate(rec):
    """Some non-input gate of the circuit lies outside the cone of the outputs."""
    g = rec['g']
    seen = set()
    todo = [o for o in rec['o'] if o in g]
    while todo:
        x = todo.pop()
        if x in seen:
            continue
        seen.add(x)
        todo.extend(o for o in g[x]['o'] if o in g)
    return any(l not in seen and v['t'] != 'INPUT' for l, v in g.items())


# preconditions a call-site finding may name (`requires`): facts about the circuit handed to the failing pass that
# the defect needs - a failure at the same call site WITHOUT them is a different violation and is reported
REQUIRES = {
    'dead-gate': lambda case: _has_dead_gate(case.get('first') or case['orig']),
}


def attribute(case, clauses, finding):
    a = finding.get('attribution', {})
    if a.get('type') != 'callsite':
        return False
    if a.get('requires') and not REQUIRES[a['requires']](case):
        return False
    if not clauses or not all(cl.startswith('internal-error') for cl in clauses):
        return False
    if a.get('chain') and list(a['chain']) != list(case.get('chain', [])):
        return False
    return case['exc'] == a.get('exc') and case['where'] == a.get('where') and (not a.get('stmt') or a['stmt'] == case['stmt'])


def nontrivial(case):
    triv = {'INPUT', 'NOT', 'IFF'}
    return sum(1 for g in case['orig']['g'].values() if g['t'] not in triv) >= 3


def features(case):
    if case['exc']:
        yield f'raised:{case["exc"]}@{case["where"]}'
    else:
        a = sum(1 for g in case['orig']['g'].values() if g['t'] not in ('INPUT', 'NOT'))
        b = sum(1 for g in case['res']['g'].values() if g['t'] not in ('INPUT', 'NOT'))
        yield 'smaller' if b < a else 'same-size'
    yield f'basis={case["src"]["basis"]}'
    if case['src']['time_limit']:
        yield 'forked-solver'
