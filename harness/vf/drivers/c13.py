"""C13 - a miter is true exactly where the two circuits differ."""
import itertools
import random

from .. import gen
from ..project import project
from . import _histcommon as H

PROP = 'C13'
LEVEL = 'model_checking'
RULE = ('pairs of TLC-enumerated universe circuits of equal shape (1..3 outputs, shared labels between the operands, outputs that are '
        'inputs or repeated, equivalent and inequivalent pairs) and mismatched shapes; build_miter result is projected, evaluated on '
        'all rows and passed to is_circuit_satisfiable; TLC judges interface, the difference function, operands unchanged, the '
        'dedicated error, and satisfiable <=> not equivalent; non-trivial = at least one operand has a non-input gate')
ASSUMPTIONS = ['solver shim as in C05']


def sources(tier, seed, ctx):
    rng = random.Random(seed + 13)
    nets, st = gen.universe(2, 2, gen.T6 + ['OR', 'NXOR'], 2, tag='C13-U')
    n3, st3 = gen.universe(3, 2, ['AND', 'XOR', 'NOT', 'GEQ'], 2, tag='C13-U3')
    ctx['gen_states'] = st['distinct'] + st3['distinct']
    ctx['gen_transitions'] = st['generated'] + st3['generated']
    pools = {2: [n for n in nets if n[1]], 3: [n for n in n3 if n[1]]}
    npairs = 2500 if tier == 'quick' else 40000
    srcs = []
    for n in range(npairs):
        r = random.Random(seed * 97 + n)
        ni = r.choice([2, 2, 3])
        a, b = r.choice(pools[ni]), r.choice(pools[ni])
        if n % 7 == 0:
            b = a  # equivalent by construction
        nout = r.choice([1, 1, 2, 3])
        oa = [r.randint(1, ni + len(a[1])) for _ in range(nout)]
        ob = [r.randint(1, ni + len(b[1])) for _ in range(nout)] if n % 7 else list(oa)
        if n % 11 == 0:  # mismatched shapes
            if r.random() < 0.5:
                ob = ob + [ob[0]]
            else:
                b = r.choice(pools[5 - ni])
                ob = [r.randint(1, b[0] + len(b[1])) for _ in range(nout)]
        shared = n % 2 == 0
        srcs.append({'a': [a[0], a[1]], 'b': [b[0], b[1]], 'oa': oa, 'ob': ob, 'shared': shared,
                     # the same input labels declared in another order (inputs correspond by position)
                     'permute_right_inputs': shared and n % 5 == 0, 'ps': n,
                     # operands that are miters themselves (their labels and block names are the ones build_miter generates)
                     'nest': (n // 9) % 3 if n % 9 == 4 else 0,
                     # operands carrying a gate / block named like the ones build_miter generates
                     'names': (n // 13) % 4 if n % 13 == 6 else 0,
                     # the caller obtained and edited a pairwise-xor gadget of the same width before
                     'prelude': n % 17 == 3})
    # many outputs (the xor stage and the final OR at widths around 8, 9, 16, 17): every output is an input or its
    # negation; the two operands differ in exactly one output or not at all
    for w in ([8, 9, 17, 33, 65, 129] if tier == 'quick' else [7, 8, 9, 10, 15, 16, 17, 18, 25, 32, 33, 63, 64, 65, 66, 128, 129, 193, 257]):
        for diff in (0, 1, w):
            a = [3, [['NOT', [1]], ['NOT', [2]], ['NOT', [3]]]]
            oa = [1 + (j % 6) for j in range(w)]
            ob = list(oa)
            if diff:
                ob[diff - 1] = 1 + ((oa[diff - 1] + 2) % 6)
            srcs.append({'a': a, 'b': a, 'oa': oa, 'ob': ob, 'shared': diff == 1, 'permute_right_inputs': False, 'ps': w, 'nest': 0, 'names': 0, 'prelude': False})
    # output labels that become ambiguous once joined: (a_b, c) and (a, b_c) both spell a_b_c - for every separator the
    # library uses in names it generates ('_', '@', ' ', ''), both output orders, differing in the first / second pair only
    for sep in ('_', '@', ' ', '', '__'):
        for flip in (False, True):
            for which in (0, 1):
                A, B, C = 'a', 'b', 'c'
                lout = [A + sep + B, A] if not flip else [A, A + sep + B]
                rout = [C, B + sep + C] if not flip else [B + sep + C, C]
                if len(set(lout + rout)) < 4:
                    continue
                ga = [['AND', [1, 2]], ['OR', [1, 2]]]
                gb = [['AND', [1, 2]], ['OR', [1, 2]]]
                gb[which] = ['XOR', [1, 2]]          # the operands differ in output `which` only
                srcs.append({'a': [2, ga], 'b': [2, gb], 'oa': [3, 4], 'ob': [3, 4], 'shared': False, 'permute_right_inputs': False, 'ps': 0,
                             'nest': 0, 'names': 0, 'prelude': False, 'la': ['x', 'y'] + lout, 'lb': ['x', 'y'] + rout})
    # deep operands: one path longer than the interpreter's recursion limit on both sides, equal and differing in one gate
    for depth in ([1200] if tier == 'quick' else [1200, 3000]):
        for diff in (False, True):
            srcs.append({'k': 'deep', 'depth': depth, 'diff': diff, 'rev': diff})
    ctx['gen_note'] = f'{npairs} pairs from U(2,2,T6+OR+NXOR,2)={len(nets)} and U(3,2,4 types,2)={len(n3)}'
    return srcs


def probes():
    return [{'a': [2, [['AND', [1, 2]]]], 'b': [2, [['OR', [1, 2]]]], 'oa': [3], 'ob': [3], 'shared': True, 'probe': 'single-output-miter'}]


def record(src):
    from cirbo.sat import build_miter, is_circuit_satisfiable
    from .. import hist

    if src.get('k') == 'deep':
        from .. import deep
        from ..project import project as _p
        left, lo = deep.chain(src['depth'], ('NOT', 'XOR', 'AND', 'NXOR'), rev=src.get('rev', False))
        # the right operand: the same chain, or one with another gate type in the middle (NAND for AND: differs when y = 1)
        types = ['NOT', 'XOR', 'AND', 'NXOR'] * (src['depth'] // 4 + 1)
        if src.get('diff'):
            types[4 * (src['depth'] // 8) + 2] = 'NAND'
        right, ro = deep.chain(src['depth'], tuple(types[:src['depth']]))
        case = {'kind': 'miterdeep', 'l': _p(left, users=False, blocks=False), 'l_order': lo, 'r': _p(right, users=False, blocks=False), 'r_order': ro,
                'exc': '', 'sat': False, 'sat_exc': '', 'src': src}
        try:
            m = build_miter(left, right)
            case['m'] = _p(m, users=False, blocks=False)
            case['m_order'] = [g.label for g in m.top_sort(inverse=True)]
        except Exception as e:
            case['exc'] = type(e).__name__
            return case
        try:
            case['sat'] = bool(is_circuit_satisfiable(m).answer)
        except Exception as e:
            case['sat_exc'] = type(e).__name__
        return case

    la = None if src['shared'] else [f'L{j}' for j in range(src['a'][0] + len(src['a'][1]))]
    if la is not None and src.get('ps', 0) % 3 == 1:
        # input labels of the left operand whose declared order is NOT their sorted order
        ni_ = src['a'][0]
        la = [f'L{ni_ - 1 - j}' for j in range(ni_)] + la[ni_:]
    lb = None if src['shared'] else [f'R{j}' for j in range(src['b'][0] + len(src['b'][1]))]
    if src.get('la'):
        la, lb = list(src['la']), list(src['lb'])
    ra = H.rec_from_net((src['a'][0], [(t, o) for t, o in src['a'][1]]), src['oa'], labels=la)
    rb = H.rec_from_net((src['b'][0], [(t, o) for t, o in src['b'][1]]), src['ob'], labels=lb)
    left, right = hist.build(ra), hist.build(rb)
    # operands that went through copy.deepcopy / pickle (the minimisation pass itself hands build_miter a deep copy)
    from .. import gen as _gen
    left, right = _gen.clone(left, {2: 1, 5: 2}.get(src.get('ps', 0) % 7, 0)), _gen.clone(right, {1: 1, 3: 2, 5: 1}.get(src.get('ps', 0) % 7, 0))
    if src.get('permute_right_inputs') and right.input_size > 1:
        order = list(right.inputs)
        random.Random(src.get('ps', 0)).shuffle(order)
        if order == list(right.inputs):
            order.reverse()
        right.set_inputs(order)
    if src.get('prelude'):
        from cirbo.core.circuit import gate as G
        from cirbo.synthesis.generation import generate_pairwise_xor

        try:
            gadget = generate_pairwise_xor(max(1, len(src['oa'])))
            gadget.emplace_gate('all_equal', G.NOR if len(gadget.outputs) > 1 else G.NOT, tuple(gadget.outputs))
            gadget.set_outputs(['all_equal'])
        except Exception:
            pass   # the caller's edit itself is not what is judged
    if src.get('names'):
        k = src['names']
        tgt = left if k in (1, 2) else right
        inner = [l for l in tgt.gates if l not in tgt.inputs]
        if inner:
            if k in (2, 3):
                tgt.make_block('circuit2' if k == 2 else 'pairwise_xor', [inner[0]], [inner[0]])
            if k in (1, 3) and 'big_or' not in tgt.gates:
                tgt.rename_gate(inner[-1], 'big_or')
    if src.get('nest'):
        try:
            nl = build_miter(left, right)
            nr = build_miter(right, left) if src['nest'] == 1 else build_miter(left, left)
            left, right = nl, nr
        except Exception:
            pass
    case = {'kind': 'miter', 'l': project(left), 'r': project(right), 'exc': '', 'eval_exc': '', 'eval_rows': [], 'sat': False, 'sat_exc': '', 'src': src}
    try:
        m = build_miter(left, right)
        case['m'] = project(m)
    except Exception as e:
        case['exc'] = type(e).__name__
        m = None
    case['l_after'] = project(left)
    case['r_after'] = project(right)
    if m is not None:
        try:
            rows = []
            for r, x in enumerate(itertools.product((False, True), repeat=m.input_size)):
                v = m.evaluate(list(x))
                if len(v) == 1 and v[0] is True:
                    rows.append(r)
            case['eval_rows'] = rows
        except Exception as e:
            case['eval_exc'] = type(e).__name__
        try:
            case['sat'] = bool(is_circuit_satisfiable(m).answer)
        except Exception as e:
            case['sat_exc'] = type(e).__name__
    return case


def nontrivial(case):
    return any(g['t'] != 'INPUT' for g in case['l']['g'].values())


def features(case):
    if case['kind'] == 'miterdeep':
        yield 'deep-operands' + ('-differing' if case['src'].get('diff') else '-equal')
        return
    yield f'outputs={len(case["l"]["o"])}'
    if case['exc']:
        yield 'rejected:' + case['exc']
    if case['src']['shared']:
        yield 'shared-labels'
    if case['sat']:
        yield 'inequivalent'
    for k in ('nest', 'names', 'prelude'):
        if case['src'].get(k):
            yield 'operand-' + k
