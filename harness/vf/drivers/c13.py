"""C13 - a miter is true exactly where the two circuits differ."""
import itertools
import random

from .. import gen
from ..project import project
from . import _histcommon as H

PROP = 'C13'
LEVEL = 'model_checking'
RULE = ('pairs of TLC-enumerated universe circuits of equal shape (1..3 outputs, shared labels between the operands, outputs that are '
        'inputs or repeated, equivalent and inequivalent pairs) and mismatched shapes; build_miter result is projected, evaluated on '
        'all rows and passed to is_circuit_satisfiable; TLC judges interface, the difference function, operands unchanged, the '
        'dedicated error, and satisfiable <=> not equivalent; non-trivial = at least one operand has a non-input gate')
ASSUMPTIONS = ['solver shim as in C05']


def sources(tier, seed, ctx):
    rng = random.Random(seed + 13)
    nets, st = gen.universe(2, 2, gen.T6 + ['OR', 'NXOR'], 2, tag='C13-U')
    n3, st3 = gen.universe(3, 2, ['AND', 'XOR', 'NOT', 'GEQ'], 2, tag='C13-U3')
    ctx['gen_states'] = st['distinct'] + st3['distinct']
    ctx['gen_transitions'] = st['generated'] + st3['generated']
    pools = {2: [n for n in nets if n[1]], 3: [n for n in n3 if n[1]]}
    npairs = 2500 if tier == 'quick' else 40000
    srcs = []
    for n in range(npairs):
        r = random.Random(seed * 97 + n)
        ni = r.choice([2, 2, 3])
        a, b = r.choice(pools[ni]), r.choice(pools[ni])
        if n % 7 == 0:
            b = a  # equivalent by construction
        nout = r.choice([1, 1, 2, 3])
        oa = [r.randint(1, ni + len(a[1])) for _ in range(nout)]
        ob = [r.randint(1, ni + len(b[1])) for _ in range(nout)] if n % 7 else list(oa)
        if n % 11 == 0:  # mismatched shapes
            if r.random() < 0.5:
                ob = ob + [ob[0]]
            else:
                b = r.choice(pools[5 - ni])
                ob = [r.randint(1, b[0] + len(b[1])) for _ in range(nout)]
        shared = n % 2 == 0
        srcs.append({'a': [a[0], a[1]], 'b': [b[0], b[1]], 'oa': oa, 'ob': ob, 'shared': shared,
                     # the same input labels declared in another order (inputs correspond by position)
                     'permute_right_inputs': shared and n % 5 == 0, 'ps': n})
    ctx['gen_note'] = f'{npairs} pairs from U(2,2,T6+OR+NXOR,2)={len(nets)} and U(3,2,4 types,2)={len(n3)}'
    return srcs


def probes():
    return [{'a': [2, [['AND', [1, 2]]]], 'b': [2, [['OR', [1, 2]]]], 'oa': [3], 'ob': [3], 'shared': True, 'probe': 'single-output-miter'}]


def record(src):
    from cirbo.sat import build_miter, is_circuit_satisfiable
    from .. import hist

    la = None if src['shared'] else [f'L{j}' for j in range(src['a'][0] + len(src['a'][1]))]
    lb = None if src['shared'] else [f'R{j}' for j in range(src['b'][0] + len(src['b'][1]))]
    ra = H.rec_from_net((src['a'][0], [(t, o) for t, o in src['a'][1]]), src['oa'], labels=la)
    rb = H.rec_from_net((src['b'][0], [(t, o) for t, o in src['b'][1]]), src['ob'], labels=lb)
    left, right = hist.build(ra), hist.build(rb)
    if src.get('permute_right_inputs') and right.input_size > 1:
        order = list(right.inputs)
        random.Random(src.get('ps', 0)).shuffle(order)
        if order == list(right.inputs):
            order.reverse()
        right.set_inputs(order)
    case = {'kind': 'miter', 'l': project(left), 'r': project(right), 'exc': '', 'eval_exc': '', 'eval_rows': [], 'sat': False, 'sat_exc': '', 'src': src}
    try:
        m = build_miter(left, right)
        case['m'] = project(m)
    except Exception as e:
        case['exc'] = type(e).__name__
        m = None
    case['l_after'] = project(left)
    case['r_after'] = project(right)
    if m is not None:
        try:
            rows = []
            for r, x in enumerate(itertools.product((False, True), repeat=m.input_size)):
                v = m.evaluate(list(x))
                if len(v) == 1 and v[0] is True:
                    rows.append(r)
            case['eval_rows'] = rows
        except Exception as e:
            case['eval_exc'] = type(e).__name__
        try:
            case['sat'] = bool(is_circuit_satisfiable(m).answer)
        except Exception as e:
            case['sat_exc'] = type(e).__name__
    return case


def nontrivial(case):
    return any(g['t'] != 'INPUT' for g in case['l']['g'].values())


def features(case):
    yield f'outputs={len(case["l"]["o"])}'
    if case['exc']:
        yield 'rejected:' + case['exc']
    if case['src']['shared']:
        yield 'shared-labels'
    if case['sat']:
        yield 'inequivalent'
