"""C19 - local rewrites keep or specialise the function exactly as documented."""
import random

from .. import gen
from . import _histcommon as H

PROP = 'C19'
LEVEL = 'model_checking'
RULE = ('histories ending in rename_gate / replace_inputs / remove_gate from the exhaustive CircuitAPI exploration, '
        'universe circuits (TLC-enumerated) with every gate renamed / every disjoint (T,F) input subset fixed, and seeded '
        'random histories rich in replace_subcircuit (cut-bounded cones replaced by relabelled equivalent copies); TLC judges '
        'isomorphism under the rename, the cofactor identity, the removal rule and function+well-formedness after replacement; '
        'non-trivial = the judged call returned normally on a circuit with at least one non-input gate')
ASSUMPTIONS = ['replacement subcircuits are equivalent by construction (relabelled copy of the cone)',
               'documented errors of replace_subcircuit = the CircuitError subclasses listed in JudgeHist.C19DocumentedErrors']
ACTS = {'rename_gate', 'replace_inputs', 'remove_gate', 'replace_subcircuit'}


def sources(tier, seed, ctx):
    rng = random.Random(seed + 19)
    note = []
    srcs = H.bfs_filtered(3 if tier == 'quick' else 4, {'rename_gate', 'replace_inputs', 'remove_gate', 'replace_subcircuit'}, 'C19-bfs', ctx, note)
    if tier == 'thorough' and len(srcs) > 60000:
        rng.shuffle(srcs)
        srcs = srcs[:60000]
    nets, st = gen.universe(2, 2, gen.ALL18, 3, tag='C19-U') if tier == 'quick' else gen.universe(3, 2, gen.ALL18, 3, tag='C19-U')
    ctx['gen_states'] += st['distinct']
    ctx['gen_transitions'] += st['generated']
    rng.shuffle(nets)
    take = 4000 if tier == 'quick' else 40000
    for n, net in enumerate(nets[:take]):
        ni, gs = net
        r = random.Random(seed * 31 + n)
        outs = gen.pick_outputs(r, ni, len(gs), kind=['dup', 'some', 'many', 'last'][n % 4])
        blocks = {}
        labels = gen.default_labels(ni, len(gs))
        if gs and r.random() < 0.5:
            blocks = {'blk': {'i': [labels[0]], 'g': [labels[ni]], 'o': [labels[-1]]}}
        init = H.rec_from_net(net, outs, blocks=blocks)
        kind = n % 3
        if kind == 0:
            acts = [{'a': 'rename_gate', 'old': r.choice(labels), 'new': r.choice(['zz', 'input9', 'g0x'])}]
        elif kind == 1:
            sel = r.sample(labels[:ni], r.randint(0, ni))
            cut = r.randint(0, len(sel))
            acts = [{'a': 'replace_inputs', 'T': sel[:cut], 'F': sel[cut:]}]
        else:
            acts = [{'a': 'remove_gate', 'l': r.choice(labels)}]
        if n % 3 == 1:
            # the circuit was deep-copied / pickled before the rewrite (a copy is a circuit like any other)
            acts = [{'a': 'copy', 'how': ['deep', 'pickle'][(n // 3) % 2]}] + acts
        srcs.append({'k': 'hist', 'init': init, 'acts': acts, 'from': 'universe'})
    note.append(f'{min(take, len(nets))} universe circuits x one rewrite')
    nrand = 2500 if tier == 'quick' else 30000
    w = {'replace_subcircuit': 8, 'rename_gate': 4, 'replace_inputs': 3, 'remove_gate': 3, 'add_gate': 12, 'connect': 2}
    for j in range(nrand):
        srcs.append({'k': 'rand', 'seed': rng.randrange(10**9), 'n': rng.randint(6, 18), 'w': w, 'from': 'rand'})
    srcs += _loop_closing(tier)
    ctx['gen_note'] = '; '.join(note)
    return srcs


def _loop_closing(tier):
    """A functionally equivalent replacement whose first output structurally reads a slice input that lies DOWNSTREAM of that
    output ((A & B) | (M & ~M)): putting it in would close a loop, so it has to be refused - in a host of any size."""
    rec = lambda gates, ins, outs: {'g': {l: {'t': t, 'o': list(o)} for l, t, o in gates}, 'ord': [g[0] for g in gates], 'i': list(ins), 'o': list(outs), 'b': {}}
    out = []
    for padding in ([8, 300] if tier == 'quick' else [8, 60, 250, 300, 600, 1200]):
        gates = [('a', 'INPUT', []), ('b', 'INPUT', []), ('c', 'INPUT', []), ('s1', 'AND', ['a', 'b']), ('m', 'NOT', ['s1']), ('s2', 'OR', ['b', 'm'])]
        prev = 'c'
        for i in range(padding):
            gates.append((f'p{i}', 'NOT', [prev]))
            prev = f'p{i}'
        host = rec(gates, ['a', 'b', 'c'], ['s2', prev])
        for redundant in (False, True):
            sg = [('A', 'INPUT', []), ('B', 'INPUT', []), ('M', 'INPUT', [])]
            if redundant:
                sg += [('nM', 'NOT', ['M']), ('z', 'AND', ['M', 'nM']), ('t', 'AND', ['A', 'B']), ('O1', 'OR', ['t', 'z'])]
            else:
                sg += [('O1', 'AND', ['A', 'B'])]
            sg += [('O2', 'OR', ['B', 'M'])]
            sub = rec(sg, ['A', 'B', 'M'], ['O1', 'O2'])
            out.append({'k': 'hist', 'init': host, 'from': 'scripted',
                        'acts': [{'a': 'replace_subcircuit', 'sub': sub, 'im': [['a', 'A'], ['b', 'B'], ['m', 'M']], 'om': [['s1', 'O1'], ['s2', 'O2']], 'equiv': True}]})
    return out


def record(src):
    return H.record_hist(src, PROP)


def nontrivial(case):
    return any(s['act']['a'] in ACTS and s['ret'] == 'ok' for s in case['steps'])


def features(case):
    return H.step_features(case, ACTS)
