"""Shared recorder for the simplification passes (C03, C18)."""
import copy
import functools
import random

from .. import gen
from ..project import project
from .c01 import build

PASSES = ['RRG', 'RRGI', 'MUO', 'MDG', 'MEG', 'cleanup', 'cleanup_heavy']
LEAVES = ['RRG', 'RRGI', 'MUO', 'MDG', 'MEG']
SHAPES = ['pipe', 'list', 'nested', 'composition-transform', 'pipe-right', 'iterator', 'generator']


_USER = {}


def _user_classes():
    """User-defined passes with implied pre/post passes (the Transformer extension point the
    library documents): UPOST copies the circuit and implies MergeDuplicateGates afterwards
    (whose own implied RemoveRedundantGates is a dependency of a dependency); UNEST implies
    MergeUnaryOperators before and UPOST after."""
    if not _USER:
        import copy as _copy

        from cirbo.core.circuit.transformer import Transformer
        from cirbo.minimization.simplification import MergeDuplicateGates, MergeUnaryOperators

        class UserPost(Transformer):
            __idempotent__ = True

            def __init__(self):
                super().__init__(post_transformers=(MergeDuplicateGates(),))

            def _transform(self, circuit):
                return _copy.copy(circuit)

        class UserNest(Transformer):
            def __init__(self):
                super().__init__(pre_transformers=(MergeUnaryOperators(),), post_transformers=(UserPost(),))

            def _transform(self, circuit):
                return _copy.copy(circuit)

        _USER['UPOST'] = UserPost
        _USER['UNEST'] = UserNest
    return _USER


_REUSED = {}


def make(name, reuse=False):
    """A pass object; with reuse=True ONE object per pass and worker process serves many circuits (all universe
    circuits share their labels), as a long-lived pipeline object of a user would."""
    if reuse:
        if name not in _REUSED:
            _REUSED[name] = make(name)
        return _REUSED[name]
    return _make(name)


def _make(name):
    from cirbo.minimization.simplification import (
        MergeDuplicateGates, MergeEquivalentGates, MergeUnaryOperators, RemoveRedundantGates)

    if name in ('UPOST', 'UNEST'):
        return _user_classes()[name]()
    return {
        'RRG': lambda: RemoveRedundantGates(),
        'RRGI': lambda: RemoveRedundantGates(allow_inputs_removal=True),
        'MUO': lambda: MergeUnaryOperators(),
        'MDG': lambda: MergeDuplicateGates(),
        'MEG': lambda: MergeEquivalentGates(),
    }[name]()


def run_pass(name, c, leaves=None, shape=None, reuse=False):
    from cirbo.core.circuit.transformer import Transformer, TransformerComposition
    from cirbo.minimization.simplification import cleanup

    if name == 'cleanup':
        return cleanup(c)
    if name == 'cleanup_heavy':
        return cleanup(c, use_heavy=True)
    if name != 'pipeline':
        return make(name, reuse).transform(c)
    ts = [make(x, reuse) for x in leaves]
    if shape == 'pipe':
        if len(ts) == 1:
            return ts[0].transform(c)
        return functools.reduce(lambda a, b: a | b, ts).transform(c)
    if shape == 'pipe-right':
        if len(ts) == 1:
            return Transformer.apply_transformers(c, ts)
        comp = ts[-1]
        for t in reversed(ts[:-1]):
            comp = t | comp
        return comp.transform(c)
    if shape == 'list':
        return Transformer.apply_transformers(c, ts)
    # the passes are declared Iterable[Transformer]: one-shot iterables are iterables
    if shape == 'iterator':
        return Transformer.apply_transformers(c, iter(ts))
    if shape == 'generator':
        return Transformer.apply_transformers(c, (t for t in ts))
    if shape == 'nested':
        if len(ts) <= 1:
            return TransformerComposition(ts).transform(c)
        return TransformerComposition([ts[0], TransformerComposition(ts[1:])]).transform(c)
    if shape == 'composition-transform':
        return Transformer.apply_transformers(c, TransformerComposition(ts))
    raise ValueError(shape)


def sequencing(name, c, leaves):
    if name == 'cleanup':
        leaves = ['RRG', 'MUO', 'MDG']
    elif name == 'cleanup_heavy':
        leaves = ['RRG', 'MUO', 'MDG', 'MEG']
    # a user pass is the copy of its argument plus the library passes it implies: the reference applies
    # those library passes one after another through their own public `transform`
    expand = {'UPOST': ['MDG'], 'UNEST': ['MUO', 'MDG']}
    for x in leaves:
        for y in expand.get(x, [x]):
            c = make(y).transform(c)
    return c


def record_pass(src, prop):
    c = build(src)
    pre = project(c)
    name = src['pass']
    case = {'kind': 'pass', 'prop': prop, 'pass': name, 'pre': pre, 'exc': '', 'same_object': False,
            'shape': src.get('shape', name), 'src': src,
            'removal': name == 'RRGI' or 'RRGI' in (src.get('leaves') or [])}
    try:
        res = run_pass(name, c, src.get('leaves'), src.get('shape'), reuse=src.get('vs', 0) % 2 == 1)
        case['post'] = project(res)
        case['same_object'] = res is c
    except Exception as e:
        case['exc'] = type(e).__name__
        case['post'] = pre
    case['arg_after'] = project(c)
    if prop == 'C18' and not case['exc']:
        if name in ('RRG', 'RRGI'):
            case['post2'] = project(make(name).transform(res))
        if name in ('pipeline', 'cleanup', 'cleanup_heavy'):
            try:
                case['seq'] = project(sequencing(name, build(src), src.get('leaves')))
                case['seq_exc'] = ''
            except Exception as e:
                case['seq'] = pre
                case['seq_exc'] = type(e).__name__
    return case


def circuit_sources(tier, seed, ctx, salt, take_quick, take_thorough, nrand_quick, nrand_thorough):
    rng = random.Random(seed + salt)
    nets, st = gen.universe(2, 2, gen.ALL18, 3, tag=f'P{salt}-U')
    note = [f'U(2,2,all18,3)={len(nets)}']
    if tier != 'quick':
        n2, st2 = gen.universe(3, 2, gen.ALL18, 3, tag=f'P{salt}-U2')
        n3, st3 = gen.universe(2, 3, gen.T6 + ['LNOT', 'RIFF'], 2, tag=f'P{salt}-U3')
        note.append(f'U(3,2,all18,3)={len(n2)}; U(2,3,T6+LNOT+RIFF,2)={len(n3)}')
        nets += n2 + n3
        st = {k: st[k] + st2[k] + st3[k] for k in st}
    ctx['gen_states'] = st['distinct']
    ctx['gen_transitions'] = st['generated']
    rng.shuffle(nets)
    take = take_quick if tier == 'quick' else take_thorough
    out = []
    for n, net in enumerate(nets[:take]):
        ni, gs = net
        r = random.Random(seed * 101 + n)
        outs = gen.pick_outputs(r, ni, len(gs), kind=['last', 'some', 'dup', 'withinput', 'many', 'none'][n % 6])
        out.append({'net': [ni, gs], 'outs': outs, 'variant': ['plain', 'shuffle', 'relabel'][n % 3], 'vs': n + seed})
    # targeted families (TLC-enumerated): unary chains/trees up to depth 6 (7) for the unary-merging pass,
    # and n-ary symmetric siblings with repeated operands for the duplicate-merging pass
    fam = [(1, 6 if tier == 'quick' else 7, ['NOT'], 2), (1, 4, ['NOT', 'IFF', 'LNOT', 'RIFF'], 2), (2, 2, ['XOR', 'NXOR', 'AND', 'OR'], 3)]
    for fi, (ni_, ng_, types_, amax_) in enumerate(fam):
        fnets, fst = gen.universe(ni_, ng_, types_, amax_, tag=f'P{salt}-F{fi}')
        ctx['gen_states'] += fst['distinct']
        ctx['gen_transitions'] += fst['generated']
        rng.shuffle(fnets)
        ftake = 1500 if tier == 'quick' else len(fnets)
        for n, net in enumerate(fnets[:ftake]):
            ni, gs = net
            r = random.Random(seed * 211 + n + fi)
            outs = gen.pick_outputs(r, ni, len(gs), kind=['last', 'many', 'some', 'dup'][n % 4])
            out.append({'net': [ni, gs], 'outs': outs, 'variant': 'plain', 'vs': n + seed, 'family': f'F{fi}'})
        note.append(f'family U({ni_},{ng_},{types_},{amax_})={len(fnets)} ({min(ftake, len(fnets))} replayed)')
    nrand = nrand_quick if tier == 'quick' else nrand_thorough
    for j in range(nrand):
        net = gen.random_netlist(rng, ni=rng.randint(1, 5), ng=rng.randint(1, 24), locality=0.5)
        out.append({'net': [net[0], net[1]], 'outs': gen.pick_outputs(rng, net[0], len(net[1])),
                    'variant': rng.choice(['plain', 'shuffle']), 'vs': rng.randrange(10**6)})
    note.append(f'{min(take, len(nets))} universe circuits + {nrand} random circuits')
    ctx['gen_note'] = '; '.join(note)
    return out, rng


def pass_features(case):
    yield case['pass']
    g = case['pre']['g']
    if any(x['t'] in ('LNOT', 'RNOT', 'LIFF', 'RIFF') for x in g.values()):
        yield 'L/R-gates'
    if any(x['t'] in ('ALWAYS_TRUE', 'ALWAYS_FALSE') for x in g.values()):
        yield 'constants'
    if len(case['post']['g']) < len(g):
        yield 'pass-removed-gates'
    if len(case['post']['i']) < len(case['pre']['i']):
        yield 'inputs-removed'
