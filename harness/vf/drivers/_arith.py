"""Shared recorder for the arithmetic generator properties (C07, C08, C09).

A source describes one generator call:
  {'fn': name, 'args': {...}, 'host': None | {'seed': s, 'ni': .., 'ng': ..}, 'big': bool, ...}
The recorder builds the host circuit (fresh inputs, or a random circuit whose arbitrary gates
- with repeats - serve as operands), calls the generator, and describes, in LITTLE-ENDIAN
label sequences, the identity the result must satisfy (the `checks` judged by TLC).
"""
import itertools
import random
import re

from .. import gen
from ..project import project

EXH_MAX_INPUTS = 10
ALGO_OPS = {'sub', 'subc', 'divmod', 'sqrt', 'eq', 'inc', 'add'}
SAMPLED_ROWS = 48


def make_host(src, n_operands):
    """Returns (circuit, operand labels). Fresh: operands are the primary inputs."""
    from cirbo.core.circuit import Circuit

    h = src.get('host')
    if h and h.get('consts'):
        # inputs x0, x1, y0, y1 plus a constant-false gate k0 and a constant-true gate k1; the operands are given by name
        from cirbo.core.circuit import gate as G
        c = Circuit.bare_circuit_with_labels(['x0', 'x1', 'y0', 'y1'])
        c.emplace_gate('k0', G.ALWAYS_FALSE)
        c.emplace_gate('k1', G.ALWAYS_TRUE)
        return c, list(h['a']) + list(h['b'])
    if h and h.get('oplabels'):
        # a gate-free host whose inputs carry the given names, used as operands in the given order
        c = Circuit.bare_circuit_with_labels(list(h['oplabels']))
        ops = list(h['oplabels'])[:n_operands]
        plant_decoys(c, src, ops)
        return c, ops
    if not h:
        c = Circuit.bare_circuit(n_operands, prefix='x')
        ops = list(c.inputs)
        plant_decoys(c, src, ops)
        return c, ops
    r = random.Random(h['seed'])
    ni = h.get('ni', 3)
    types = ['AND', 'OR', 'XOR', 'NOT', 'NAND', 'GT', 'NXOR', 'IFF']
    if h['seed'] % 3 == 0:
        types = types + ['ALWAYS_FALSE', 'ALWAYS_FALSE', 'ALWAYS_TRUE']      # constant gates are gates too (and may be operands)
    net = gen.random_netlist(r, ni=ni, ng=h.get('ng', 5), types=types, amax=3)
    outs = gen.pick_outputs(r, ni, len(net[1]), kind=r.choice(['last', 'some', 'none']))
    labels = host_labels(h, ni, len(net[1]))
    c = gen.materialize(net, labels=labels, outputs=outs)
    pool = list(c.gates)
    ops = [r.choice(pool) for _ in range(n_operands)]  # arbitrary gates, repeats allowed
    plant_decoys(c, src, pool)
    return c, ops


def host_labels(h, ni, ng):
    """Labels of a host circuit are the user's.  Half of the hosts use plain names; a quarter names that are ambiguous once
    joined with '_' (u, u_u, u_v, 1_1, ...: any key built by concatenation confuses (u, u_v) with (u_u, v)); a quarter names
    that carry the prefixes the library itself generates (not_x, new_x, tmp_x, gate_x next to x)."""
    plain = [f'hi{j}' for j in range(ni)] + [f'hg{k}' for k in range(ng)]
    style = h['seed'] % 4
    if style < 2:
        return plain
    r = random.Random(h['seed'] * 7 + 1)
    if style == 2:
        fam = [t for n_ in (1, 2, 3, 4) for t in ('_'.join(p) for p in itertools.product(('u', 'v', '1'), repeat=n_))]
        r.shuffle(fam)
        fam.sort(key=lambda t: t.count('_'))      # short names first: (u, u_v) / (u_u, v) style collisions are likely
        return fam[:ni + ng] if ni + ng <= len(fam) else plain
    out = []
    for j, l in enumerate(plain):
        if j % 2 and out:
            out.append(r.choice(['not_', 'new_', 'tmp_', 'gate_', 'new_gate_NOT_for_', 'pairwise_xor@', 'if_then_else_']) + out[-1])
        else:
            out.append(l)
    return out


_HEX32 = re.compile(r'[0-9a-f]{32}')


def plant_decoys(c, src, pool):
    """src['decoys']: labels an earlier, identical call gave to gates it created although they carry no random part.
    A gate of that name computing something else is put into the host first: the library has to cope with it (choose
    another name, or refuse) - silently adopting the decoy as its own gate computes another function."""
    from cirbo.core.circuit import gate as G

    for j, d in enumerate(src.get('decoys') or []):
        if d in c.gates or not pool:
            continue
        a, b = pool[j % len(pool)], pool[(j + 1) % len(pool)]
        if a == b:
            c.emplace_gate(d, G.IFF, (a,))
        else:
            c.emplace_gate(d, G.NXOR if j % 2 else G.OR, (a, b))


def with_decoys(record_one):
    """Wraps a recorder: after a call on a host circuit, the gates it created under predictable names (no 32-digit random
    part, not returned to the caller) are planted as decoys and the same call is recorded once more."""
    def record(src):
        case = record_one(src)
        if src.get('decoys') or src.get('gen') or not isinstance(case, dict) or case.get('exc') or 'post' not in case:
            return case
        returned = set(case.get('returned') or []) | set(case.get('outlabels') or [])
        new = [l for l in case['post']['g'] if l not in case['pre']['g'] and not _HEX32.search(l) and l not in returned]
        if not new:
            return case
        second = record_one(dict(src, decoys=sorted(new)))
        return [case, second] if isinstance(second, dict) else [case] + list(second)
    return record


def rows_spec(c, rng, extra=None):
    """extra: additional rows (dicts input label -> bool, missing = False) appended to the sampled ones - operand values a
    random row practically never hits (the one value an equality gadget answers True on)."""
    n = c.input_size
    if n <= EXH_MAX_INPUTS:
        return {'sampled': False}
    k = 4 * SAMPLED_ROWS if n <= 24 else SAMPLED_ROWS   # moderately wide: more sampled operand values
    cols = {}
    dens = {r: rng.choice([0.5, 0.5, 0.9, 0.1, 0.97]) for r in range(1, k + 1)}   # sparse, uniform and dense operand values
    for l in c.inputs:
        s = set(r for r in range(1, k + 1) if rng.random() < dens[r])
        s.discard(1)  # row 1: all zeros
        s.add(2)      # row 2: all ones
        cols[l] = sorted(s)
    # a few structured rows: single bit set / all but one
    ins = list(c.inputs)
    for j, r in enumerate(range(3, min(k, 3 + len(ins)) + 1)):
        for l in ins:
            if r in cols[l]:
                cols[l].remove(r)
        cols[ins[j % len(ins)]].append(r)
        cols[ins[j % len(ins)]].sort()
    for e in (extra or []):
        k += 1
        for l in c.inputs:
            if e.get(l):
                cols[l].append(k)
    return {'sampled': True, 'nrows': k, 'cols': cols}


def _bitparallel(post, order, inputs_bits, mask):
    """Values of all gates on many assignments at once (one Python integer per gate, one bit per assignment).
    Only a SELECTOR of interesting rows: what it finds is handed to TLC, which does the judging."""
    v = dict(inputs_bits)
    for l in order:
        if l in v:
            continue
        g = post['g'][l]
        t, ops = g['t'], [v[o] for o in g['o']]
        if t in ('AND', 'NAND'):
            x = mask
            for o in ops:
                x &= o
        elif t in ('OR', 'NOR'):
            x = 0
            for o in ops:
                x |= o
        elif t in ('XOR', 'NXOR'):
            x = 0
            for o in ops:
                x ^= o
        elif t in ('NOT', 'LNOT'):
            x = ~ops[0]
        elif t == 'RNOT':
            x = ~ops[1]
        elif t in ('IFF', 'LIFF'):
            x = ops[0]
        elif t == 'RIFF':
            x = ops[1]
        elif t == 'GT':
            x = ops[0] & ~ops[1]
        elif t == 'LT':
            x = ~ops[0] & ops[1]
        elif t == 'GEQ':
            x = ops[0] | ~ops[1]
        elif t == 'LEQ':
            x = ~ops[0] | ops[1]
        elif t == 'ALWAYS_TRUE':
            x = mask
        elif t == 'ALWAYS_FALSE':
            x = 0
        else:
            raise KeyError(t)
        if t in ('NAND', 'NOR', 'NXOR'):
            x = ~x
        v[l] = x & mask
    return v


def mine_rows(case, rng, m=4096, keep=6):
    """Counterexample-guided choice of sampled rows: the recorded circuit is evaluated on m pseudo-random
    assignments (sparse, uniform and dense) and up to `keep` assignments on which a recorded identity looks
    violated replace the last sampled rows.  Purely a generator heuristic (role G): the verdict on those rows
    is TLC's; an error here only means that no row is proposed."""
    try:
        post = case['post']
        order = case.get('order') or topo_order(post)
        if order is None or not case.get('sampled'):
            return 0
        mask = (1 << m) - 1
        ins = list(post['i'])
        blocks = 8
        bw = m // blocks

        def rnd(kind):
            if kind == 0:
                return rng.getrandbits(bw)
            x = rng.getrandbits(bw)
            for _ in range(abs(kind)):
                y = rng.getrandbits(bw)
                x = (x | y) if kind > 0 else (x & y)
            return x
        kinds = [0, 0, 1, 2, 4, -1, -2, -4]
        bits = {}
        for l in ins:
            x = 0
            for b, k in enumerate(kinds):
                x |= rnd(k) << (b * bw)
            bits[l] = x
        v = _bitparallel(post, order, bits, mask)

        def num(labels, r):
            return sum(((v[l] >> r) & 1) << j for j, l in enumerate(labels))
        bad = []
        for r in range(m):
            for k in case['checks']:
                op = k['op']
                if op == 'mul':
                    ok = num(k['out'], r) == num(k['a'], r) * num(k['b'], r)
                elif op == 'add':
                    ok = num(k['out'], r) == num(k['a'], r) + (num(k['b'], r) << k['shift'])
                elif op in ('wsum', 'wsum_multi'):
                    ok = sum(((v[l] >> r) & 1) << w for w, l in k['outs']) == sum(((v[l] >> r) & 1) << w for w, l in k['ins'])
                else:
                    ok = True
                if not ok:
                    bad.append(r)
                    break
            if len(bad) >= keep:
                break
        nrows = case['nrows']
        for j, r in enumerate(bad):
            row = nrows - j
            for l in ins:
                cur = set(case['cols'][l])
                cur.discard(row)
                if (bits[l] >> r) & 1:
                    cur.add(row)
                case['cols'][l] = sorted(cur)
        return len(bad)
    except Exception:
        return 0


def topo_order(proj):
    done, order = set(), []
    pending = list(proj['ord'])
    while pending:
        rest = []
        progressed = False
        for l in pending:
            if all(o in done for o in proj['g'][l]['o']):
                order.append(l)
                done.add(l)
                progressed = True
            else:
                rest.append(l)
        pending = rest
        if not progressed:
            return None
    return order


def bkw(big):
    """big None = the keyword is not passed at all (the documented default is little-endian)."""
    return {} if big is None else {'big_endian': big}


def le(labels, big):
    """labels as returned/passed under `big_endian` -> little-endian list."""
    return list(reversed(labels)) if big else list(labels)


def finish(case, c, pre, rng, returned, checks, outmode, outlabels, basis='', bound=-1, extra_rows=None):
    post = project(c)
    case.update({'pre': pre, 'post': post, 'returned': list(returned), 'checks': checks, 'outmode': outmode,
                 'outlabels': list(outlabels), 'basis': basis, 'bound': bound})
    # one call of a generator that has an algorithm-level model (ArithAlgo.tla): the emitted
    # netlist is compared with the model's (drift, never a verdict)
    if 'algo' not in case and len(checks) == 1 and checks[0]['op'] in ALGO_OPS and len(post['g']) <= 1500:
        case['algo'] = checks[0]
    case.update(rows_spec(c, rng, extra_rows))
    if len(post['g']) > 60:
        order = topo_order(post)
        if order is not None:
            case['order'] = order
    if case.get('sampled'):
        case['mined_rows'] = mine_rows(case, rng)
    return case


def base_case(src, prop, name):
    return {'kind': 'arith', 'prop': prop, 'name': name, 'exc': '', 'src': src, 'pre': {'g': {}, 'ord': [], 'i': [], 'o': [], 'u': {}, 'b': {}},
            'post': {'g': {}, 'ord': [], 'i': [], 'o': [], 'u': {}, 'b': {}}, 'returned': [], 'checks': [], 'outmode': 'none', 'outlabels': [],
            'basis': '', 'bound': -1, 'sampled': False}


def nontrivial(case):
    return not case['exc'] and len(case['post']['g']) > len(case['pre']['g'])


def features(case):
    yield case['name']
    if case['exc']:
        yield 'raised:' + case['exc']
    if case['src'].get('host'):
        yield 'host-circuit-operands'
    if case['src'].get('big'):
        yield 'big-endian'
    if case.get('sampled'):
        yield 'sampled-rows'
    b = case['src'].get('basis')
    if b:
        yield f'basis={b}'
    if 'algo' in case:
        yield 'netlist-compared-with-algorithm-model'
    if 'ledger' in case:
        yield 'call-trace-validated-by-the-weight-ledger'
    if case.get('mined_rows'):
        yield 'sampled-rows-include-mined-counterexample-candidates'
