"""Shared recorder for the arithmetic generator properties (C07, C08, C09).

A source describes one generator call:
  {'fn': name, 'args': {...}, 'host': None | {'seed': s, 'ni': .., 'ng': ..}, 'big': bool, ...}
The recorder builds the host circuit (fresh inputs, or a random circuit whose arbitrary gates
- with repeats - serve as operands), calls the generator, and describes, in LITTLE-ENDIAN
label sequences, the identity the result must satisfy (the `checks` judged by TLC).
"""
import random

from .. import gen
from ..project import project

EXH_MAX_INPUTS = 10
ALGO_OPS = {'sub', 'subc', 'divmod', 'sqrt', 'eq', 'inc', 'add'}
SAMPLED_ROWS = 48


def make_host(src, n_operands):
    """Returns (circuit, operand labels). Fresh: operands are the primary inputs."""
    from cirbo.core.circuit import Circuit

    h = src.get('host')
    if not h:
        c = Circuit.bare_circuit(n_operands, prefix='x')
        return c, list(c.inputs)
    r = random.Random(h['seed'])
    ni = h.get('ni', 3)
    net = gen.random_netlist(r, ni=ni, ng=h.get('ng', 5), types=['AND', 'OR', 'XOR', 'NOT', 'NAND', 'GT', 'NXOR', 'IFF'], amax=3)
    outs = gen.pick_outputs(r, ni, len(net[1]), kind=r.choice(['last', 'some', 'none']))
    labels = [f'hi{j}' for j in range(ni)] + [f'hg{k}' for k in range(len(net[1]))]
    c = gen.materialize(net, labels=labels, outputs=outs)
    pool = list(c.gates)
    ops = [r.choice(pool) for _ in range(n_operands)]  # arbitrary gates, repeats allowed
    return c, ops


def rows_spec(c, rng):
    n = c.input_size
    if n <= EXH_MAX_INPUTS:
        return {'sampled': False}
    k = 4 * SAMPLED_ROWS if n <= 24 else SAMPLED_ROWS   # moderately wide: more sampled operand values
    cols = {}
    dens = {r: rng.choice([0.5, 0.5, 0.9, 0.1, 0.97]) for r in range(1, k + 1)}   # sparse, uniform and dense operand values
    for l in c.inputs:
        s = set(r for r in range(1, k + 1) if rng.random() < dens[r])
        s.discard(1)  # row 1: all zeros
        s.add(2)      # row 2: all ones
        cols[l] = sorted(s)
    # a few structured rows: single bit set / all but one
    ins = list(c.inputs)
    for j, r in enumerate(range(3, min(k, 3 + len(ins)) + 1)):
        for l in ins:
            if r in cols[l]:
                cols[l].remove(r)
        cols[ins[j % len(ins)]].append(r)
        cols[ins[j % len(ins)]].sort()
    return {'sampled': True, 'nrows': k, 'cols': cols}


def topo_order(proj):
    done, order = set(), []
    pending = list(proj['ord'])
    while pending:
        rest = []
        progressed = False
        for l in pending:
            if all(o in done for o in proj['g'][l]['o']):
                order.append(l)
                done.add(l)
                progressed = True
            else:
                rest.append(l)
        pending = rest
        if not progressed:
            return None
    return order


def le(labels, big):
    """labels as returned/passed under `big_endian` -> little-endian list."""
    return list(reversed(labels)) if big else list(labels)


def finish(case, c, pre, rng, returned, checks, outmode, outlabels, basis='', bound=-1):
    post = project(c)
    case.update({'pre': pre, 'post': post, 'returned': list(returned), 'checks': checks, 'outmode': outmode,
                 'outlabels': list(outlabels), 'basis': basis, 'bound': bound})
    # one call of a generator that has an algorithm-level model (ArithAlgo.tla): the emitted
    # netlist is compared with the model's (drift, never a verdict)
    if 'algo' not in case and len(checks) == 1 and checks[0]['op'] in ALGO_OPS and len(post['g']) <= 1500:
        case['algo'] = checks[0]
    case.update(rows_spec(c, rng))
    if len(post['g']) > 60:
        order = topo_order(post)
        if order is not None:
            case['order'] = order
    return case


def base_case(src, prop, name):
    return {'kind': 'arith', 'prop': prop, 'name': name, 'exc': '', 'src': src, 'pre': {'g': {}, 'ord': [], 'i': [], 'o': [], 'u': {}, 'b': {}},
            'post': {'g': {}, 'ord': [], 'i': [], 'o': [], 'u': {}, 'b': {}}, 'returned': [], 'checks': [], 'outmode': 'none', 'outlabels': [],
            'basis': '', 'bound': -1, 'sampled': False}


def nontrivial(case):
    return not case['exc'] and len(case['post']['g']) > len(case['pre']['g'])


def features(case):
    yield case['name']
    if case['exc']:
        yield 'raised:' + case['exc']
    if case['src'].get('host'):
        yield 'host-circuit-operands'
    if case['src'].get('big'):
        yield 'big-endian'
    if case.get('sampled'):
        yield 'sampled-rows'
    b = case['src'].get('basis')
    if b:
        yield f'basis={b}'
    if 'algo' in case:
        yield 'netlist-compared-with-algorithm-model'
    if 'ledger' in case:
        yield 'call-trace-validated-by-the-weight-ledger'
