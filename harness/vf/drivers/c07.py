"""C07 - summation generators compute exact sums within the promised basis and size."""
import itertools
import random

from ..project import project
from . import _arith as A

PROP = 'C07'
LEVEL = 'exploration'
RULE = ('generator calls: bit-count sums for n = 1..8 (thorough 12) on all 2^n operand values and n up to 40 on sampled rows; weighted sums for all '
        'weight vectors of length <= 4 over weights 0..2 (thorough: length <= 5 over 0..3) plus random longer vectors (repeats, gaps), '
        'efficient and naive variants; bases XAIG / AIG spelled as enum, "AIG", "aig", "Xaig"; both endiannesses; operands = primary '
        'inputs of a fresh circuit or arbitrary (repeated) gates of a random host circuit; two-number adders for all length pairs <= 4 '
        '(5) and shifts <= 6 (8); add_sum_pow2_m1 up to 70 inputs; TLC evaluates the recorded circuit and judges the weighted-sum '
        'identity, distinct levels, fresh gates only, basis and the weakest documented gate-count bound; non-trivial = gates were added')
ASSUMPTIONS = ['gate-count bound = the weakest documented one (5n-2m XAIG, 7n-3m AIG), counted over new non-trivial gates',
               'endianness contract: big_endian reverses operand and result label lists']
SPELL = {'XAIG': ['enum', 'XAIG', 'xaig', 'Xaig'], 'AIG': ['enum', 'AIG', 'aig', 'Aig']}


def _basis_arg(kind, spelled):
    from cirbo.synthesis.generation.helpers import GenerationBasis

    return GenerationBasis[kind] if spelled == 'enum' else spelled


def _bas(src):
    """keyword for the basis; spelled 'default' = not passed at all (the documented default is XAIG)"""
    return {} if src['spelled'] == 'default' else {'basis': _basis_arg(src['basis'], src['spelled'])}


def design(tier, seed):
    from .. import tlc

    r = tlc.run_model('ArithLemmas', 'ArithLemmas.cfg', workers=8, tag='C07-lemma', xmx='4g')
    tlc.cleanup(r['workdir'])
    r2 = tlc.run_model('ArithAlgoLemmas', 'ArithAlgoLemmas.cfg', workers=8, tag='C07-algo', xmx='4g')
    tlc.cleanup(r2['workdir'])
    cfg = 'WeightedSum_quick.cfg' if tier == 'quick' else 'WeightedSum.cfg'
    r3 = tlc.run_model('WeightedSum', cfg, workers=16, tag='C07-wsum', xmx='4g')
    tlc.cleanup(r3['workdir'])
    r = dict(r)
    r['distinct'] += r3['distinct']
    r['generated'] += r3['generated']
    wsum_note = (f'WeightedSum ({cfg}: level-by-level carry propagation of the weighted-sum generators under EVERY grouping order, for every weight '
                 f'vector up to length {5 if tier == "quick" else 6} over weights 0..2: the weighted sum is preserved at every step, terminal levels are '
                 f'pairwise distinct, the adders stay within the documented 5n-2m gates, every behaviour terminates): {r3["distinct"]} states, {r3["wall_s"]:.1f}s')
    return {'states': r['distinct'] + r2['distinct'], 'transitions': r['generated'] + r2['generated'],
            'runs': [wsum_note,
                     f'ArithLemmas (bit-sequence add/shift/mul/compare/sqrt = integer arithmetic, all a,b < 32): {r["distinct"]} states, {r["wall_s"]:.1f}s',
                     f'ArithAlgoLemmas (algorithm-level netlist builders: the MDFA/Stockmeyer bit-count machine keeps its level invariant at every step for '
                     f'n <= 9 in both bases, ends with the minimal number of bits within the documented gate bound, terminates; adders, subtractors, '
                     f'restoring division n <= 4, digit square root n <= 8, plus-one and equality gadgets satisfy their identities on every operand '
                     f'value): {r2["distinct"]} states, {r2["wall_s"]:.1f}s']}


def sources(tier, seed, ctx):
    rng = random.Random(seed + 7)
    srcs = []
    nmax = 8 if tier == 'quick' else 12

    def bs():
        k = rng.choice(['XAIG', 'AIG'])
        return k, rng.choice(SPELL[k])

    for n in range(1, nmax + 1):
        for k in ('XAIG', 'AIG'):
            for big in (False, True):
                srcs.append({'fn': 'generate_sum_n_bits', 'n': n, 'basis': k, 'spelled': rng.choice(SPELL[k]), 'big': big})
                srcs.append({'fn': 'add_sum_n_bits', 'n': n, 'basis': k, 'spelled': rng.choice(SPELL[k]), 'big': big,
                             'host': {'seed': rng.randrange(10**6), 'ni': rng.randint(2, 4), 'ng': rng.randint(2, 6)} if n % 2 else None})
    # operand NAMES are the caller's: sets of names that become ambiguous once joined with '_' ((u_u, v) and (u, u_v) both
    # spell u_u_v), in every order, for the bit counters (whatever the library keys on names must tell them apart)
    for names in (['u_v', 'u', 'v', 'u_u'], ['s_1', 'p', '1', 'p_s'], ['a', 'a_b', 'b_a', 'b', 'a_b_a']):
        perms = list(itertools.permutations(names))
        rng.shuffle(perms)
        for j, perm in enumerate(perms[:24 if tier == 'quick' else 120]):
            k = ('XAIG', 'AIG')[j % 2]
            srcs.append({'fn': 'add_sum_n_bits' if j % 3 else 'add_sum_n_bits_easy', 'n': len(perm), 'basis': k, 'spelled': SPELL[k][0], 'big': False,
                         'host': {'oplabels': list(perm)}})
    # the exported building blocks: the ~5n bit counter and the half / full adder cells
    for n in range(1, (8 if tier == 'quick' else 11) + 1):
        for big in (False, True):
            srcs.append({'fn': 'add_sum_n_bits_easy', 'n': n, 'big': big,
                         'host': {'seed': rng.randrange(10**6), 'ni': rng.randint(2, 4), 'ng': rng.randint(2, 6)} if (n + big) % 3 == 0 else None})
    for n in (2, 3):
        for j in range(4):
            srcs.append({'fn': f'add_sum{n}', 'n': n, 'host': {'seed': rng.randrange(10**6), 'ni': 3, 'ng': rng.randint(2, 5)} if j else None})
    for n in ([13, 17, 24, 31, 40] if tier == 'quick' else [13, 15, 16, 17, 20, 24, 28, 31, 32, 33, 36, 40]):
        k, sp = bs()
        srcs.append({'fn': 'add_sum_n_bits', 'n': n, 'basis': k, 'spelled': sp, 'big': bool(n % 2), 'host': None})
    # more operands than any block size an implementation may split them into (256, 512): the all-ones row carries every block
    # to its full count, the documented gate bound is checked as for every other width
    for n in ([257, 300] if tier == 'quick' else [255, 256, 257, 300, 513, 1025]):
        srcs.append({'fn': 'add_sum_n_bits', 'n': n, 'basis': 'XAIG', 'spelled': 'XAIG', 'big': bool(n % 2), 'host': None})
        srcs.append({'fn': 'add_sum_n_bits', 'n': n, 'basis': 'AIG', 'spelled': 'AIG', 'big': False, 'host': None})
    wl, wmax = (4, 2) if tier == 'quick' else (5, 3)
    for L in range(1, wl + 1):
        for ws in itertools.product(range(wmax + 1), repeat=L):
            k, sp = bs()
            variant = ['efficient', 'naive'][sum(ws) % 2]
            gen_or_add = 'generate' if (sum(ws) + L) % 3 == 0 else 'add'
            srcs.append({'fn': f'{gen_or_add}_wsum_{variant}', 'weights': list(ws), 'basis': k, 'spelled': sp,
                         'host': {'seed': rng.randrange(10**6), 'ni': 3, 'ng': 4} if gen_or_add == 'add' and L % 2 == 0 else None})
    for j in range(60 if tier == 'quick' else 1200):
        L = rng.randint(5, 10)
        ws = [rng.choice([0, 0, 1, 2, 3, 5]) for _ in range(L)]
        k, sp = bs()
        srcs.append({'fn': f'add_wsum_{rng.choice(["efficient", "naive"])}', 'weights': ws, 'basis': k, 'spelled': sp,
                     'host': {'seed': rng.randrange(10**6), 'ni': rng.randint(3, 5), 'ng': rng.randint(3, 7)} if j % 2 else None})
    lmax, smax = (4, 6) if tier == 'quick' else (5, 8)
    for la in range(1, lmax + 1):
        for lb in range(1, lmax + 1):
            for big in (False, True):
                srcs.append({'fn': 'add_sum_two_numbers', 'la': la, 'lb': lb, 'big': big,
                             'host': {'seed': rng.randrange(10**6), 'ni': 3, 'ng': 4} if (la + lb) % 3 == 0 else None})
                for shift in range(0, smax + 1):
                    if (la + lb + shift + big) % 2 == 0 or tier != 'quick':
                        srcs.append({'fn': 'add_sum_two_numbers_with_shift', 'la': la, 'lb': lb, 'shift': shift, 'big': big, 'host': None})
    # operands beyond 32 / 64 bits (sampled operand values; the identity is judged on bit sequences)
    for la, lb in ([(33, 33), (64, 64), (65, 40), (16, 70)] if tier == 'quick' else [(31, 32), (33, 33), (63, 64), (64, 64), (65, 40), (16, 70), (100, 100)]):
        for big in (False, True):
            srcs.append({'fn': 'add_sum_two_numbers', 'la': la, 'lb': lb, 'big': big, 'host': None})
            srcs.append({'fn': 'add_sum_two_numbers_with_shift', 'la': la, 'lb': lb, 'shift': 33 if big else 1, 'big': big, 'host': None})
    # operand lists shared between calls: the same list object as both operands, then reused
    for la in (1, 2, 3):
        for big in (False, True):
            for shift in (None, 0, 1, 4):
                srcs.append({'fn': 'sum2-alias', 'la': la, 'big': big, 'shift': shift,
                             'host': {'seed': rng.randrange(10**6), 'ni': 3, 'ng': 4} if la == 2 else None})
    for n in ([1, 2, 3, 4, 5, 7, 9, 10, 16, 18, 31, 33, 34, 47, 64, 70] if tier == 'quick' else list(range(1, 71))):
        for k in ('XAIG', 'AIG'):     # both bases for every operand count (the trailing 1-2 bits take their own path)
            srcs.append({'fn': 'add_sum_pow2_m1', 'n': n, 'basis': k, 'spelled': rng.choice(SPELL[k]), 'big': bool(n % 2), 'host': None})
    # every fourth XAIG call does not pass the basis at all (the documented default is XAIG)
    k4 = 0
    for s_ in srcs:
        if s_.get('basis') == 'XAIG':
            k4 += 1
            if k4 % 4 == 0:
                s_['spelled'] = 'default'
    # a third of the little-endian calls do not pass big_endian at all (the documented default is little-endian)
    # - counted per entry point, so that every entry point is called without it
    seen = {}
    for s_ in srcs:
        if s_.get('big') is False:
            key = (s_['fn'], s_.get('gen_or_add'), bool(s_.get('gen')))
            seen[key] = seen.get(key, 0) + 1
            if seen[key] % 3 == 1:
                s_['big'] = None
    ctx['gen_note'] = f'{len(srcs)} generator calls'
    return srcs


def probes():
    return [{'fn': 'add_sum_two_numbers_with_shift', 'la': 1, 'lb': 2, 'shift': 3, 'big': False, 'host': None, 'probe': 'shift-larger-than-first-operand'},
            {'fn': 'add_wsum_efficient', 'weights': [0, 0], 'basis': 'AIG', 'spelled': 'AIG', 'host': None, 'probe': 'weighted-sum-string-basis'}]


def _record(src):
    from cirbo.synthesis.generation import arithmetics as ar

    rng = random.Random(hash(str(sorted((k, str(v)) for k, v in src.items()))) & 0xffffff)
    fn = src['fn']
    case = A.base_case(src, PROP, fn)
    try:
        if fn == 'generate_sum_n_bits':
            n, big = src['n'], src['big']
            c = ar.generate_sum_n_bits(n, **_bas(src), **A.bkw(big))
            pre = {'g': {l: {'t': 'INPUT', 'o': []} for l in c.inputs}, 'ord': list(c.inputs), 'i': list(c.inputs), 'o': [], 'u': {}, 'b': {}}
            res = list(c.outputs)
            out = A.le(res, big)
            m = len(res)
            checks = [{'op': 'wsum', 'ins': [[0, l] for l in c.inputs], 'outs': [[j, l] for j, l in enumerate(out)]}]
            bound = (5 * n - 2 * m) if src['basis'] == 'XAIG' else (7 * n - 3 * m)
            case['algo'] = {'op': 'popcount', 'a': A.le(list(c.inputs), big), 'basis': src['basis'], 'out': out}
            return A.finish(case, c, pre, rng, res, checks, 'set', res, src['basis'], bound)
        if fn == 'add_sum_n_bits':
            n, big = src['n'], src['big']
            c, ops = A.make_host(src, n)
            pre = project(c)
            # the caller may hand over a live container of the host (its input list): it must come back untouched
            live = not src.get('host') and n % 2 == 0
            res = ar.add_sum_n_bits(c, c.inputs if live else list(ops), **_bas(src), **A.bkw(big))
            out = A.le(res, big)
            m = len(res)
            checks = [{'op': 'wsum', 'ins': [[0, l] for l in ops], 'outs': [[j, l] for j, l in enumerate(out)]}]
            bound = (5 * n - 2 * m) if src['basis'] == 'XAIG' else (7 * n - 3 * m)
            case['algo'] = {'op': 'popcount', 'a': A.le(list(ops), big), 'basis': src['basis'], 'out': out}
            return A.finish(case, c, pre, rng, res, checks, 'same', [], src['basis'], bound)
        if fn in ('add_sum_n_bits_easy', 'add_sum2', 'add_sum3'):
            n, big = src['n'], src.get('big', False)
            c, ops = A.make_host(src, n)
            pre = project(c)
            if fn == 'add_sum_n_bits_easy':
                res = ar.add_sum_n_bits_easy(c, list(ops), **A.bkw(big))
            else:
                res = getattr(ar, fn)(c, list(ops))
            out = A.le(res, big)
            checks = [{'op': 'wsum', 'ins': [[0, l] for l in ops], 'outs': [[j, l] for j, l in enumerate(out)]}]
            return A.finish(case, c, pre, rng, res, checks, 'same', [])
        if fn.startswith('generate_wsum') or fn.startswith('add_wsum'):
            ws = src['weights']
            n = len(ws)
            bk = _bas(src)
            eff = fn.endswith('efficient')
            if fn.startswith('generate'):
                c = (ar.generate_sum_weighted_bits_efficient if eff else ar.generate_sum_weighted_bits_naive)(ws, **bk)
                pre = {'g': {l: {'t': 'INPUT', 'o': []} for l in c.inputs}, 'ord': list(c.inputs), 'i': list(c.inputs), 'o': [], 'u': {}, 'b': {}}
                ins = [[ws[j], c.inputs[j]] for j in range(n)]
                labels = list(c.outputs)
                # levels are not observable from a generated circuit: they follow from the identity
                # only for add_*; here the documented property is the existence of levels, so the
                # add_* form on the same weights is recorded instead for the identity and this
                # call is judged on interface, basis and bound.
                c2, ops2 = A.make_host({'host': None}, n)
                res2 = (ar.add_sum_n_weighted_bits if eff else ar.add_sum_n_weighted_bits_naive)(c2, [(ws[j], ops2[j]) for j in range(n)], **bk)
                same_shape = len(res2) == len(labels)
                checks = []
                if same_shape:
                    # the generated circuit must realise the same levels as the add_* form reports
                    checks = [{'op': 'wsum', 'ins': ins, 'outs': [[int(lv), labels[j]] for j, (lv, _) in enumerate(res2)]}]
                m = len(labels)
                bound = (5 * n - 2 * m) if src['basis'] == 'XAIG' else (7 * n - 3 * m)
                return A.finish(case, c, pre, rng, labels, checks, 'set', labels, src['basis'], bound)
            c, ops = A.make_host(src, n)
            pre = project(c)
            # the naive variant declares its operands Iterable[tuple[int, Label]]: a list, a tuple, a generator, a zip object, an
            # iterator; the efficient one documents a list of pairs (it takes len() of it): lists and tuples only
            pairs = [(ws[j], ops[j]) for j in range(n)]
            how = (sum(ws) + n) % 5
            if eff:
                how = how % 2
            arg = pairs if how == 0 else tuple(pairs) if how == 1 else (p_ for p_ in pairs) if how == 2 else zip(ws, list(ops)) if how == 3 else iter(pairs)
            res = (ar.add_sum_n_weighted_bits if eff else ar.add_sum_n_weighted_bits_naive)(c, arg, **bk)
            ins = [[ws[j], ops[j]] for j in range(n)]
            outs = [[int(lv), lab] for lv, lab in res]
            m = len(res)
            bound = (5 * n - 2 * m) if src['basis'] == 'XAIG' else (7 * n - 3 * m)
            return A.finish(case, c, pre, rng, [l for _, l in res], [{'op': 'wsum', 'ins': ins, 'outs': outs}], 'same', [], src['basis'], bound)
        if fn in ('add_sum_two_numbers', 'add_sum_two_numbers_with_shift'):
            la, lb, big = src['la'], src['lb'], src['big']
            c, ops = A.make_host(src, la + lb)
            pre = project(c)
            a, b = ops[:la], ops[la:]
            if fn == 'add_sum_two_numbers':
                res = ar.add_sum_two_numbers(c, list(a), list(b), **A.bkw(big))
                shift = 0
            else:
                shift = src['shift']
                res = ar.add_sum_two_numbers_with_shift(c, shift, list(a), list(b), **A.bkw(big))
            checks = [{'op': 'add', 'a': A.le(a, big), 'b': A.le(b, big), 'shift': shift, 'out': A.le(res, big)}]
            return A.finish(case, c, pre, rng, res, checks, 'same', [])
        if fn == 'sum2-alias':
            la, big, shift = src['la'], src['big'], src['shift']
            c, ops = A.make_host(src, 2 * la)
            pre = project(c)
            a, b = list(ops[:la]), list(ops[la:])
            a0, b0 = list(a), list(b)
            if shift is None:
                r1 = ar.add_sum_two_numbers(c, a, a, **A.bkw(big))       # the SAME list object twice
                r2 = ar.add_sum_two_numbers(c, a, b, **A.bkw(big))       # the list is used again
                sh = 0
            else:
                r1 = ar.add_sum_two_numbers_with_shift(c, shift, a, a, **A.bkw(big))
                r2 = ar.add_sum_two_numbers_with_shift(c, shift, a, b, **A.bkw(big))
                sh = shift
            checks = [{'op': 'add', 'a': A.le(a0, big), 'b': A.le(a0, big), 'shift': sh, 'out': A.le(r1, big)},
                      {'op': 'add', 'a': A.le(a0, big), 'b': A.le(b0, big), 'shift': sh, 'out': A.le(r2, big)}]
            return A.finish(case, c, pre, rng, list(r1) + list(r2), checks, 'same', [])
        if fn == 'add_sum_pow2_m1':
            n, big = src['n'], src['big']
            c, ops = A.make_host(src, n)
            pre = project(c)
            res = ar.add_sum_pow2_m1(c, list(ops), **A.bkw(big), **_bas(src))
            outs = [[lvl, lab] for lvl, labs in enumerate(res) for lab in labs]
            checks = [{'op': 'wsum_multi', 'ins': [[0, l] for l in ops], 'outs': outs}]
            return A.finish(case, c, pre, rng, [l for _, l in outs], checks, 'same', [], src['basis'])
        raise ValueError(fn)
    except Exception as e:
        if isinstance(e, ValueError) and str(e) == fn:
            raise
        case['exc'] = type(e).__name__
        return case


nontrivial = A.nontrivial
features = A.features


record = A.with_decoys(_record)
