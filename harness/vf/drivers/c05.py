"""C05 - the circuit-to-CNF reduction is exact."""
import random

from .. import gen
from ..project import project
from .c01 import build

PROP = 'C05'
LEVEL = 'model_checking'
RULE = ('TLC-enumerated universe circuits over all 18 types and arities <= 3 (x seed-chosen output selections incl. repeated outputs, '
        'outputs that are inputs, unused inputs) + seeded random circuits with <= 12 CNF variables; tseytin_transformation / '
        'Cnf.from_circuit clause lists are judged by TLC by brute force over ALL assignments of the CNF variables; '
        'is_circuit_satisfiable answers and models are judged against the truth table; non-trivial = >= 1 encoded non-input gate')
ASSUMPTIONS = ['solver = shim (z3 -dimacs / DPLL) when python-sat is absent: any sound and complete solver is inside the quantifier',
               'gate-to-variable map is not observable: strict check under the allocation model, else mapping-free exactness']


def design(tier, seed):
    from .. import tlc

    r = tlc.run_model('CnfLemmas', 'CnfLemmas.cfg', workers=16, tag='C05-lemma', xmx='6g')
    tlc.cleanup(r['workdir'])
    r2 = tlc.run_model('TseytinWalk', 'TseytinWalk_quick.cfg' if tier == 'quick' else 'TseytinWalk.cfg', workers=12, tag='C05-walk', xmx='8g', timeout=3000)
    tlc.cleanup(r2['workdir'])
    return {'states': r['distinct'] + r2['distinct'], 'transitions': r['generated'] + r2['generated'],
            'runs': [f'TseytinWalk (the explicit-stack gate walk of tseytin_transformation as a state machine over every operand graph on '
                     f'{3 if tier == "quick" else 4} nodes with <= 2 operands, cyclic ones included, and every one or two start labels: terminates, reports a cycle '
                     f'exactly when one is reachable, emits every gate once after its operands, numbers literals in the post-order the judge '
                     f'models, the stack is a path): {r2["distinct"]} states, {r2["wall_s"]:.1f}s',
                     f'CnfLemmas (the specification-level Tseytin encoder Cnf.Tseytin is exact on every netlist of U(2,2,15 types,3), three output selections): {r["distinct"]} states, {r["wall_s"]:.1f}s']}


def sources(tier, seed, ctx):
    rng = random.Random(seed + 5)
    nets, st = gen.universe(2, 2, gen.ALL18, 3, tag='C05-U')
    note = [f'U(2,2,all18,3)={len(nets)}']
    if tier != 'quick':
        n2, st2 = gen.universe(3, 2, gen.ALL18, 3, tag='C05-U2')
        nets += n2
        st = {k: st[k] + st2[k] for k in st}
        note.append(f'U(3,2,all18,3)={len(n2)}')
    ctx['gen_states'] = st['distinct']
    ctx['gen_transitions'] = st['generated']
    rng.shuffle(nets)
    take = 9000 if tier == 'quick' else 120000
    srcs = []
    for n, net in enumerate(nets[:take]):
        ni, gs = net
        r = random.Random(seed * 53 + n)
        outs = gen.pick_outputs(r, ni, len(gs), kind=['last', 'some', 'dup', 'withinput', 'many'][n % 5])
        if n % 9 == 4:
            sel = []          # the empty selection: nothing asserted, every input assignment satisfiable
        elif outs and n % 3 == 0:
            sel = sorted(r.sample(range(len(outs)), r.randint(1, len(outs))))
        elif outs and n % 3 == 1:
            sel = [r.randrange(len(outs)) for _ in range(r.randint(1, 3))]
        else:
            sel = None
        srcs.append({'k': 'cnf', 'net': [ni, gs], 'outs': outs, 'sel': sel, 'variant': ['plain', 'shuffle', 'relabel'][n % 3], 'vs': n + seed})
        if n % 6 == 0:
            srcs.append({'k': 'csat', 'net': [ni, gs], 'outs': outs, 'variant': 'plain', 'vs': n + seed})
    # targeted family (TLC-enumerated): several gates of one ASYMMETRIC type over the same operands in different orders
    fnets, fst = gen.universe(2, 3, ['GT', 'LEQ', 'RNOT', 'OR'], 2, tag='C05-F')
    ctx['gen_states'] += fst['distinct']
    ctx['gen_transitions'] += fst['generated']
    rng.shuffle(fnets)
    ftake = 1500 if tier == 'quick' else 20000
    for n, net in enumerate(fnets[:ftake]):
        ni, gs = net
        r = random.Random(seed * 59 + n)
        outs = gen.pick_outputs(r, ni, len(gs), kind=['last', 'many', 'some'][n % 3])
        srcs.append({'k': 'cnf' if n % 4 else 'csat', 'net': [ni, gs], 'outs': outs, 'sel': None, 'variant': 'plain', 'vs': n + seed, 'family': 'asym'})
    note.append(f'family U(2,3,GT/LEQ/RNOT/OR,2)={len(fnets)} ({min(ftake, len(fnets))} replayed)')
    # ... and the pattern itself for every asymmetric type: T(a, b), T(b, a) and a gate over both
    for t in ['GT', 'LT', 'GEQ', 'LEQ', 'LNOT', 'RNOT', 'LIFF', 'RIFF']:
        for top in ['OR', 'AND', 'XOR', 'GT']:
            for ni, (a, b) in ((2, (1, 2)), (3, (1, 3)), (3, (3, 2))):
                gs = [[t, [a, b]], [t, [b, a]], [top, [ni + 1, ni + 2]]]
                for outs in ([ni + 3], [ni + 1, ni + 2], [ni + 2, ni + 3, ni + 1]):
                    srcs.append({'k': 'cnf', 'net': [ni, gs], 'outs': outs, 'sel': None, 'variant': 'plain', 'vs': 0, 'family': 'asym-pair'})
                srcs.append({'k': 'csat', 'net': [ni, gs], 'outs': [ni + 3], 'variant': 'plain', 'vs': 0, 'family': 'asym-pair'})
    nrand = 500 if tier == 'quick' else 8000
    for j in range(nrand):
        ni = rng.randint(1, 4)
        net = gen.random_netlist(rng, ni=ni, ng=rng.randint(1, 11 - ni), amax=4)
        outs = gen.pick_outputs(rng, net[0], len(net[1]))
        srcs.append({'k': rng.choice(['cnf', 'cnf', 'csat']), 'net': [net[0], net[1]], 'outs': outs, 'sel': None, 'variant': rng.choice(['plain', 'shuffle']), 'vs': rng.randrange(10**6)})
    # wide gates (the templates of the n-ary types are generated, not tabulated): arity 5..9, alone, below a negation, with a
    # repeated operand, and two wide parities of opposite polarity over the same operands asserted together
    for t in ['AND', 'OR', 'XOR', 'NAND', 'NOR', 'NXOR']:
        for a in ([5, 6, 7, 9] if tier == 'quick' else [5, 6, 7, 8, 9, 10]):
            ops = list(range(1, a + 1))
            srcs.append({'k': 'cnf', 'net': [a, [[t, ops]]], 'outs': [a + 1], 'sel': None, 'variant': 'plain', 'vs': 0, 'family': 'wide'})
            srcs.append({'k': 'cnf', 'net': [a, [[t, ops], ['NOT', [a + 1]]]], 'outs': [a + 2], 'sel': None, 'variant': 'plain', 'vs': 0, 'family': 'wide'})
            if a <= 7:
                rep = ops[:-1] + [ops[0]]
                srcs.append({'k': 'cnf', 'net': [a - 1, [[t, rep], ['IFF', [a]]]], 'outs': [a + 1], 'sel': None, 'variant': 'plain', 'vs': 0, 'family': 'wide'})
                srcs.append({'k': 'csat', 'net': [a, [[t, ops], [{'XOR': 'NXOR', 'NXOR': 'XOR', 'AND': 'NAND', 'NAND': 'AND', 'OR': 'NOR', 'NOR': 'OR'}[t], ops]]],
                             'outs': [a + 1, a + 2], 'variant': 'plain', 'vs': 0, 'family': 'wide'})
    # deep circuits: one path of more than a thousand gates (the interpreter's recursion limit), built in and against
    # topological storage order; judged as a list of definitions (kind cnfdeep / csatdeep)
    for depth in ([1200] if tier == 'quick' else [1200, 2500]):
        for shape in ('not-xor', 'and-or'):
            for storage in ('built', 'reversed'):
                srcs.append({'k': 'cnfdeep', 'depth': depth, 'shape': shape, 'storage': storage, 'sel': None})
        srcs.append({'k': 'cnfdeep', 'depth': depth, 'shape': 'not-xor', 'storage': 'built', 'sel': [1, 0]})
        srcs.append({'k': 'csatdeep', 'depth': depth, 'shape': 'not-xor', 'storage': 'built'})
        srcs.append({'k': 'csatdeep', 'depth': depth, 'shape': 'contradiction', 'storage': 'built'})
    note.append(f'{min(take, len(nets))} universe + {nrand} random circuits; wide gates of arity 5..9; chains of 1200 gates')
    ctx['gen_note'] = '; '.join(note)
    return srcs


def probes():
    return [{'k': 'cnf', 'net': [3, [['XOR', [1, 2, 3]]]], 'outs': [4], 'sel': None, 'variant': 'plain', 'vs': 0, 'probe': 'tseytin-nary-xor'}]


def build_deep(src):
    """A chain of src['depth'] gates over two inputs; returns (circuit, witness order)."""
    from cirbo.core.circuit import Circuit, gate as G

    n, shape = src['depth'], src['shape']
    gates = []
    prev = 'x'
    for k in range(n):
        if shape == 'and-or':
            # every gate is injective in its chain operand when y = 1, so a wrong template anywhere shows at the outputs
            t, ops = (('AND', (prev, 'y')) if k % 3 == 0 else ('NAND', ('y', prev)) if k % 3 == 1 else ('NOR', (prev, prev)))
        else:
            t, ops = (('XOR', (prev, 'y')) if k % 2 else ('NOT', (prev,)))
        gates.append((f'g{k}', t, ops))
        prev = f'g{k}'
    outs = [prev, f'g{n // 2}']
    if shape == 'contradiction':
        # the two ends of an even number of negations (every XOR reads y twice overall: g_last == x XOR stuff) asserted with
        # the negation of the last gate: never satisfiable together
        gates.append(('neg', 'NOT', (prev,)))
        outs = [prev, 'neg']
    order = ['x', 'y'] + [g[0] for g in gates]
    if src.get('storage') == 'reversed':
        text = 'INPUT(x)\nINPUT(y)\n' + '\n'.join(f'{l} = {t}({", ".join(o)})' for l, t, o in reversed(gates)) + '\n' + ''.join(f'OUTPUT({o})\n' for o in outs)
        c = Circuit.from_bench_string(text)
    else:
        c = Circuit()
        c.emplace_gate('x', G.INPUT)
        c.emplace_gate('y', G.INPUT)
        for l, t, o in gates:
            c.emplace_gate(l, getattr(G, t), o)
        c.set_outputs(outs)
    return c, order


def record_deep(src):
    from cirbo.sat import is_circuit_satisfiable
    from cirbo.sat.cnf import Cnf, tseytin_transformation

    c, order = build_deep(src)
    proj = project(c, users=False, blocks=False)
    case = {'kind': src['k'], 'c': proj, 'order': order, 'exc': '', 'cnf': [], 'sel': list(range(len(proj['o']))), 'src': src}
    try:
        if src['k'] == 'cnfdeep':
            if src.get('sel') is None:
                cnf = Cnf.from_circuit(c).get_raw()
            else:
                cnf = tseytin_transformation(c, outputs=list(src['sel'])).get_raw()
                case['sel'] = list(src['sel'])
            case['cnf'] = [list(cl) for cl in cnf]
        else:
            case['answer'], case['model'] = False, []
            case['cnf'] = [list(cl) for cl in Cnf.from_circuit(c).get_raw()]
            res = is_circuit_satisfiable(c)
            case['answer'] = bool(res.answer)
            case['model'] = list(res.model) if res.model is not None else []
    except Exception as e:
        case['exc'] = type(e).__name__
    return case


def record(src):
    from cirbo.sat import is_circuit_satisfiable
    from cirbo.sat.cnf import Cnf, tseytin_transformation

    if src['k'] in ('cnfdeep', 'csatdeep'):
        return record_deep(src)

    c = build(src)
    proj = project(c)
    if src['k'] == 'cnf':
        case = {'kind': 'cnf', 'c': proj, 'exc': '', 'cnf': [], 'src': src}
        try:
            if src.get('sel') is None:
                cnf = Cnf.from_circuit(c).get_raw()
                case['sel'] = list(range(len(proj['o'])))
            else:
                cnf = tseytin_transformation(c, outputs=list(src['sel'])).get_raw()
                case['sel'] = list(src['sel'])
            case['cnf'] = [list(cl) for cl in cnf]
        except Exception as e:
            case['exc'] = type(e).__name__
            case['sel'] = []
        return case
    case = {'kind': 'csat', 'c': proj, 'exc': '', 'cnf': [], 'answer': False, 'model': [], 'src': src}
    try:
        case['cnf'] = [list(cl) for cl in Cnf.from_circuit(c).get_raw()]
        res = is_circuit_satisfiable(c)
        case['answer'] = bool(res.answer)
        case['model'] = list(res.model) if res.model is not None else []
    except Exception as e:
        case['exc'] = type(e).__name__
    return case


def nontrivial(case):
    c = case['c']
    return any(c['g'][o]['t'] != 'INPUT' for o in c['o'])


def features(case):
    yield case['kind']
    c = case['c']
    if any(len(g['o']) > 2 for g in c['g'].values()):
        yield 'nary>2'
    if any(len(g['o']) > 2 and g['t'] in ('XOR', 'NXOR') for g in c['g'].values()):
        yield 'nary-xor'
    if case['kind'] == 'csat':
        yield 'sat' if case['answer'] else 'unsat'
