"""C10 - circuit composition computes the documented functional composition."""
import random

from .. import gen
from . import _histcommon as H

PROP = 'C10'
LEVEL = 'model_checking'
RULE = ('connect_* calls: (a) every transition of the exhaustive CircuitAPI exploration that ends in a connect action '
        '(3 attachable library circuits, left/right, internal connectors, block names), (b) pairs (base, other) of '
        'TLC-enumerated universe circuits with seed-chosen connector lists (internal gates, repeated base gates on the left, '
        'partial lists, all six entry points, name/prefix options), (c) seeded random histories with repeated composition; '
        'TLC judges interface, the two-stage denotational composition, non-modification of the attached circuit and block '
        're-extraction; non-trivial = a connect call returned normally with >= 1 connector pair or a block name')
ASSUMPTIONS = ['block re-extraction is judged only for repeat-free connector lists (a repeated base gate makes the block input list repeat a label)',
               'right-connection with a repeated other-circuit connector is judged as documented: every listed base input is replaced']


def _pair_case(r, base_net, other_net, n):
    bi, bg = base_net
    oi, og = other_net
    bl = [f'b{j}' for j in range(bi)] + [f'u{k}' for k in range(len(bg))]
    ol = [f'p{j}' for j in range(oi)] + [f'v{k}' for k in range(len(og))]
    bouts = gen.pick_outputs(r, bi, len(bg), kind=r.choice(['last', 'some', 'withinput', 'dup']))
    oouts = gen.pick_outputs(r, oi, len(og), kind=r.choice(['last', 'some', 'withinput', 'dup']))
    init = H.rec_from_net(base_net, bouts, labels=bl)
    other = H.rec_from_net(other_net, oouts, labels=ol)
    right = r.random() < 0.5
    via = r.choice(['connect_circuit'] * 5 + ['connect_left', 'connect_right', 'connect_inputs', 'extend_circuit', 'extend_circuit', 'add_circuit'])
    name = r.choice(['', 'B'])
    pfx = r.random() < 0.6 or True  # without a prefix labels never clash here (disjoint alphabets); keep both
    pfx = r.random() < 0.6
    if via == 'connect_circuit':
        if right:
            m = r.randint(0, bi)
            tc = r.sample(bl[:bi], m)
            if r.random() < 0.8:
                oc = r.sample(ol, min(m, len(ol))) if m <= len(ol) else [r.choice(ol) for _ in range(m)]
            else:
                oc = [r.choice(ol) for _ in range(m)]
        else:
            m = r.randint(0, oi)
            oc = r.sample(ol[:oi], m)
            tc = [r.choice(bl) for _ in range(m)]
    elif via == 'connect_left':
        right, oc = False, ol[:oi]
        tc = [r.choice(bl) for _ in oc]
    elif via == 'connect_right':
        right, tc = True, bl[:bi]
        oc = r.sample(ol, bi) if bi <= len(ol) else [r.choice(ol) for _ in tc]
    elif via == 'connect_inputs':
        right, tc, oc = True, bl[:bi], ol[:oi]
    elif via == 'extend_circuit':
        tc = bl[:bi] if right else init['o']
        oc = other['o'] if right else ol[:oi]
        mode = r.choice(['defaults', 'defaults', 'empty', 'explicit'])
        if mode == 'empty':
            # explicitly empty connector lists: a side-by-side composition, not the defaults
            tc, oc = [], []
            extra = {'tc_arg': [], 'oc_arg': []}
        elif mode == 'explicit':
            m = r.randint(0, min(len(tc), len(oc)))
            tc, oc = list(tc[:m]), list(oc[:m])
            extra = {'tc_arg': list(tc), 'oc_arg': list(oc)}
        else:
            extra = {}
    else:
        right, tc, oc = False, [], []
    act = {'a': 'connect', 'other': other, 'tc': list(tc), 'oc': list(oc), 'right': right, 'name': name, 'pfx': pfx, 'via': via}
    if via == 'extend_circuit':
        act.update(extra)
    acts = [act]
    if r.random() < 0.3:
        acts.append({'a': 'copy'})
    return {'k': 'hist', 'init': init, 'acts': acts, 'from': 'pairs'}


def sources(tier, seed, ctx):
    rng = random.Random(seed + 10)
    note = []
    srcs = H.bfs_filtered(3 if tier == 'quick' else 4, {'connect'}, 'C10-bfs', ctx, note)
    if tier == 'thorough' and len(srcs) > 80000:
        rng.shuffle(srcs)
        srcs = srcs[:80000]
    nets, st = gen.universe(2, 2, gen.T6, 2, tag='C10-U')
    ctx['gen_states'] += st['distinct']
    ctx['gen_transitions'] += st['generated']
    nets = [n for n in nets if n[1]]
    npairs = 4000 if tier == 'quick' else 60000
    for n in range(npairs):
        r = random.Random(seed * 77 + n)
        srcs.append(_pair_case(r, r.choice(nets), r.choice(nets), n))
    note.append(f'{npairs} pairs drawn from U(2,2,T6,2) = {len(nets)} netlists')
    nrand = 800 if tier == 'quick' else 10000
    w = {'connect': 14, 'add_gate': 8, 'add_input': 3, 'replace_subcircuit': 0.3, 'copy': 1.5}
    for j in range(nrand):
        srcs.append({'k': 'rand', 'seed': rng.randrange(10**9), 'n': rng.randint(4, 10), 'w': w, 'from': 'rand'})
    ctx['gen_note'] = '; '.join(note)
    return srcs


def probes():
    return H.finding_probes(PROP)


def record(src):
    return H.record_hist(src, PROP)


def nontrivial(case):
    return any(s['act']['a'] == 'connect' and s['ret'] == 'ok' and (s['act']['tc'] or s['act']['name']) for s in case['steps'])


def features(case):
    seen = H.step_features(case, {'connect'})
    for s in case['steps']:
        a = s['act']
        if a['a'] == 'connect' and s['ret'] == 'ok':
            seen.add('right' if a['right'] else 'left')
            seen.add('via-' + a.get('via', 'connect_circuit'))
            if a['name']:
                seen.add('named-block')
            if 'blk' in s:
                seen.add('block-extracted')
            if len(set(a['tc'])) < len(a['tc']):
                seen.add('repeated-base-connector')
            if len(set(a['oc'])) < len(a['oc']):
                seen.add('repeated-other-connector')
            og = a['other']['g']
            if a['right'] and any(og[x]['t'] != 'INPUT' for x in a['oc']):
                seen.add('right-to-internal-gate')
    return seen
