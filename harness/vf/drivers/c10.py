"""C10 - circuit composition computes the documented functional composition."""
import random

from .. import gen
from . import _histcommon as H

PROP = 'C10'
LEVEL = 'model_checking'
RULE = ('connect_* calls: (a) every transition of the exhaustive CircuitAPI exploration that ends in a connect action '
        '(3 attachable library circuits, left/right, internal connectors, block names), (b) pairs (base, other) of '
        'TLC-enumerated universe circuits with seed-chosen connector lists (internal gates, repeated base gates on the left, '
        'partial lists, all six entry points, name/prefix options), (c) seeded random histories with repeated composition; '
        'TLC judges interface, the two-stage denotational composition, non-modification of the attached circuit and block '
        're-extraction; non-trivial = a connect call returned normally with >= 1 connector pair or a block name')
ASSUMPTIONS = ['block re-extraction is judged only for repeat-free connector lists (a repeated base gate makes the block input list repeat a label)',
               'right-connection with a repeated other-circuit connector is judged as documented: every listed base input is replaced']


def _pair_case(r, base_net, other_net, n):
    bi, bg = base_net
    oi, og = other_net
    bl = [f'b{j}' for j in range(bi)] + [f'u{k}' for k in range(len(bg))]
    ol = [f'p{j}' for j in range(oi)] + [f'v{k}' for k in range(len(og))]
    bouts = gen.pick_outputs(r, bi, len(bg), kind=r.choice(['last', 'some', 'withinput', 'dup']))
    oouts = gen.pick_outputs(r, oi, len(og), kind=r.choice(['last', 'some', 'withinput', 'dup']))
    init = H.rec_from_net(base_net, bouts, labels=bl)
    other = H.rec_from_net(other_net, oouts, labels=ol)
    right = r.random() < 0.5
    via = r.choice(['connect_circuit'] * 5 + ['connect_left', 'connect_right', 'connect_inputs', 'extend_circuit', 'extend_circuit', 'add_circuit'])
    name = r.choice(['', 'B'])
    pfx = r.random() < 0.6 or True  # without a prefix labels never clash here (disjoint alphabets); keep both
    pfx = r.random() < 0.6
    if via == 'connect_circuit':
        if right:
            m = r.randint(0, bi)
            tc = r.sample(bl[:bi], m)
            if r.random() < 0.8:
                oc = r.sample(ol, min(m, len(ol))) if m <= len(ol) else [r.choice(ol) for _ in range(m)]
            else:
                oc = [r.choice(ol) for _ in range(m)]
        else:
            m = r.randint(0, oi)
            oc = r.sample(ol[:oi], m)
            tc = [r.choice(bl) for _ in range(m)]
    elif via == 'connect_left':
        right, oc = False, ol[:oi]
        tc = [r.choice(bl) for _ in oc]
    elif via == 'connect_right':
        right, tc = True, bl[:bi]
        oc = r.sample(ol, bi) if bi <= len(ol) else [r.choice(ol) for _ in tc]
    elif via == 'connect_inputs':
        right, tc, oc = True, bl[:bi], ol[:oi]
    elif via == 'extend_circuit':
        tc = bl[:bi] if right else init['o']
        oc = other['o'] if right else ol[:oi]
        mode = r.choice(['defaults', 'defaults', 'empty', 'explicit'])
        if mode == 'empty':
            # explicitly empty connector lists: a side-by-side composition, not the defaults
            tc, oc = [], []
            extra = {'tc_arg': [], 'oc_arg': []}
        elif mode == 'explicit':
            m = r.randint(0, min(len(tc), len(oc)))
            tc, oc = list(tc[:m]), list(oc[:m])
            extra = {'tc_arg': list(tc), 'oc_arg': list(oc)}
        else:
            extra = {}
    else:
        right, tc, oc = False, [], []
    act = {'a': 'connect', 'other': other, 'tc': list(tc), 'oc': list(oc), 'right': right, 'name': name, 'pfx': pfx, 'via': via}
    if via == 'extend_circuit':
        act.update(extra)
    acts = [act]
    if r.random() < 0.3:
        acts.append({'a': 'copy'})
    return {'k': 'hist', 'init': init, 'acts': acts, 'from': 'pairs'}


def sources(tier, seed, ctx):
    rng = random.Random(seed + 10)
    note = []
    srcs = H.bfs_filtered(3 if tier == 'quick' else 4, {'connect'}, 'C10-bfs', ctx, note)
    if tier == 'thorough' and len(srcs) > 80000:
        rng.shuffle(srcs)
        srcs = srcs[:80000]
    nets, st = gen.universe(2, 2, gen.T6, 2, tag='C10-U')
    ctx['gen_states'] += st['distinct']
    ctx['gen_transitions'] += st['generated']
    nets = [n for n in nets if n[1]]
    npairs = 4000 if tier == 'quick' else 60000
    for n in range(npairs):
        r = random.Random(seed * 77 + n)
        srcs.append(_pair_case(r, r.choice(nets), r.choice(nets), n))
    note.append(f'{npairs} pairs drawn from U(2,2,T6,2) = {len(nets)} netlists')
    nrand = 800 if tier == 'quick' else 10000
    w = {'connect': 14, 'add_gate': 8, 'add_input': 3, 'replace_subcircuit': 0.3, 'copy': 1.5}
    for j in range(nrand):
        srcs.append({'k': 'rand', 'seed': rng.randrange(10**9), 'n': rng.randint(4, 10), 'w': w, 'from': 'rand'})
    srcs += _scripted(tier)
    srcs += [{'k': 'copy-diverge', 'which': w, 'how': h, 'from': 'scripted'} for w in ('or', 'xor', 'rename') for h in ('copy', 'deepcopy')]
    ctx['gen_note'] = '; '.join(note)
    return srcs


def _scripted(tier):
    """Wide interfaces (more connector pairs than any threshold an implementation may switch containers at) and the empty label
    as a connector."""
    rec = lambda gates, ins, outs: {'g': {l: {'t': t, 'o': list(o)} for l, t, o in gates}, 'ord': [g[0] for g in gates], 'i': list(ins), 'o': list(outs), 'b': {}}
    out = []
    for width in ([33, 40] if tier == 'quick' else [31, 32, 33, 40, 70, 130]):
        # base: `width` inputs b0.., a chain that reads them in order (so which gate lands on which input matters);
        # attached: 3 inputs, `width` different gates over them (type and operand order cycle), connected position by position
        bins = [f'b{j}' for j in range(width)]
        bg = [(l, 'INPUT', []) for l in bins]
        prev = bins[0]
        for j in range(1, width):
            bg.append((f'u{j}', ['GT', 'XOR', 'AND', 'LT', 'OR'][j % 5], [prev, bins[j]]))
            prev = f'u{j}'
        base = rec(bg, bins, [prev, f'u{width // 2}'])
        og = [('i0', 'INPUT', []), ('i1', 'INPUT', []), ('i2', 'INPUT', [])]
        for j in range(width):
            a, b = ['i0', 'i1', 'i2'][j % 3], ['i0', 'i1', 'i2'][(j // 3 + 1 + j) % 3]
            og.append((f'v{j}', ['AND', 'OR', 'XOR', 'NAND', 'GT', 'NOR', 'LEQ'][j % 7], [a, b] if a != b else [a, ['i0', 'i1', 'i2'][(j + 2) % 3]]))
        other = rec(og, ['i0', 'i1', 'i2'], [f'v{j}' for j in range(width)])
        for via in ('connect_circuit', 'connect_right'):
            out.append({'k': 'wide', 'base': base, 'other': other, 'tc': list(bins), 'oc': [f'v{j}' for j in range(width)], 'via': via, 'from': 'scripted'})
    # the empty label is a label: as a base input / base gate used as connector, in every direction
    e_base = rec([('', 'INPUT', []), ('b', 'INPUT', []), ('g', 'AND', ['', 'b'])], ['', 'b'], ['g'])
    e_gate = rec([('a', 'INPUT', []), ('b', 'INPUT', []), ('', 'XOR', ['a', 'b']), ('g', 'OR', ['', 'a'])], ['a', 'b'], ['g', ''])
    oth = rec([('s', 'INPUT', []), ('t', 'INPUT', []), ('m', 'NOR', ['s', 't'])], ['s', 't'], ['m'])
    out.append({'k': 'hist', 'init': e_base, 'from': 'scripted', 'acts': [{'a': 'connect', 'other': oth, 'tc': [''], 'oc': ['m'], 'right': True, 'name': 'e', 'pfx': True, 'via': 'connect_circuit'}]})
    out.append({'k': 'hist', 'init': e_base, 'from': 'scripted', 'acts': [{'a': 'connect', 'other': oth, 'tc': ['', 'b'], 'oc': ['s', 't'], 'right': False, 'name': 'e', 'pfx': True, 'via': 'connect_circuit'}]})
    out.append({'k': 'hist', 'init': e_gate, 'from': 'scripted', 'acts': [{'a': 'connect', 'other': oth, 'tc': ['', 'g'], 'oc': ['s', 't'], 'right': False, 'name': 'e', 'pfx': True, 'via': 'connect_circuit'}]})
    out.append({'k': 'hist', 'init': e_gate, 'from': 'scripted', 'acts': [{'a': 'connect', 'other': oth, 'tc': ['', 'a'], 'oc': ['s', 't'], 'right': False, 'name': '', 'pfx': True, 'via': 'connect_left'}]})
    return out


def probes():
    return H.finding_probes(PROP)


def _copy_then_diverge(src):
    """A named composition, a copy, then the ORIGINAL goes its own way (the block is removed and another circuit with the
    same gate labels is attached under the same name, or gates are renamed): extracting the block from the COPY still gives
    the circuit that was attached when the copy was taken."""
    import copy as _copy
    from cirbo.core.circuit import Circuit, gate as G
    from ..project import project as _p

    base = Circuit()
    base.add_inputs(['a', 'b'])
    base.emplace_gate('m', G.OR, ('a', 'b'))
    base.set_outputs(['m'])
    first = Circuit()
    first.add_inputs(['s', 't'])
    first.emplace_gate('f', G.AND, ('s', 't'))
    first.set_outputs(['f'])
    other = Circuit()
    other.add_inputs(['s', 't'])
    other.emplace_gate('f', G.OR if src['which'] != 'xor' else G.XOR, ('s', 't'))
    other.set_outputs(['f'])
    exc = ''
    before = after = {'g': {}, 'ord': [], 'i': [], 'o': [], 'u': {}, 'b': {}}
    try:
        base.connect_circuit(first, ['a', 'm'], ['s', 't'], name='blk')
        snap = {'copy': _copy.copy, 'deepcopy': _copy.deepcopy}[src['how']](base)
        before = _p(snap.get_block('blk').into_circuit())
        if src['which'] == 'rename':
            base.rename_gate('blk@f', 'renamed')
        else:
            base.remove_block('blk')
            base.connect_circuit(other, ['a', 'm'], ['s', 't'], name='blk')
        after = _p(snap.get_block('blk').into_circuit())
    except Exception as e:
        exc = type(e).__name__
    return {'kind': 'same', 'what': 'block-extracted-from-a-copy-changed-when-the-original-was-reworked', 'a': before, 'b': after, 'exc': exc, 'src': src}


def record(src):
    if src['k'] == 'copy-diverge':
        return _copy_then_diverge(src)
    if src['k'] == 'wide':
        from .. import hist
        from ..project import project as _p
        c, other = hist.build(src['base']), hist.build(src['other'])
        case = {'kind': 'connectwide', 'base': _p(c, users=False, blocks=False), 'other': _p(other, users=False, blocks=False),
                'pairs': [[a, b] for a, b in zip(src['tc'], src['oc'])], 'exc': '', 'src': src}
        try:
            if src['via'] == 'connect_circuit':
                c.connect_circuit(other, list(src['tc']), list(src['oc']), right_connect=True, name='wide', add_prefix=True)
            else:
                c.connect_right(other, list(src['oc']))
            case['res'] = _p(c, users=False, blocks=False)
            case['res_order'] = [g.label for g in c.top_sort(inverse=True)]
        except Exception as e:
            case['exc'] = type(e).__name__
            case['res'], case['res_order'] = case['base'], case['base']['ord']
        return case
    return H.record_hist(src, PROP)


def nontrivial(case):
    if case['kind'] in ('connectwide', 'same'):
        return True
    return any(s['act']['a'] == 'connect' and s['ret'] == 'ok' and (s['act']['tc'] or s['act']['name']) for s in case['steps'])


def features(case):
    if case['kind'] == 'connectwide':
        return {'wide-right-connection'}
    if case['kind'] == 'same':
        return {'copy-then-diverge'}
    seen = H.step_features(case, {'connect'})
    for s in case['steps']:
        a = s['act']
        if a['a'] == 'connect' and s['ret'] == 'ok':
            seen.add('right' if a['right'] else 'left')
            seen.add('via-' + a.get('via', 'connect_circuit'))
            if a['name']:
                seen.add('named-block')
            if 'blk' in s:
                seen.add('block-extracted')
            if len(set(a['tc'])) < len(a['tc']):
                seen.add('repeated-base-connector')
            if len(set(a['oc'])) < len(a['oc']):
                seen.add('repeated-other-connector')
            og = a['other']['g']
            if a['right'] and any(og[x]['t'] != 'INPUT' for x in a['oc']):
                seen.add('right-to-internal-gate')
    return seen
