"""C12 - all function representations answer every protocol query alike and correctly."""
import itertools

from .. import gen
import json
import os
import random

from .. import tlc

PROP = 'C12'
LEVEL = 'model_checking'
RULE = ('ALL functions {0,1}^n->{0,1}^m for (n,m) in {(1,1),(2,1),(2,2),(3,1)} enumerated by TLC (FuncUniverse.tla) and sampled (3,2),(4,1),(4,2),(3,3) '
        'x three representations (TruthTable, PyFunction, Circuit built as a DNF) x every protocol query with all index arguments and all '
        'output subsets for the negation query; every don\'t-care pattern of (2,1) (sampled for larger) x TruthTableModel / PyFunctionModel with '
        'definitions on the don\'t-care entries; integer-function wrappers in both bit orders; TLC judges each answer against the FuncProps '
        'definitions; non-trivial = non-constant function; distinct by (function, representation)')
ASSUMPTIONS = ['monotone = the documented "never decreases along the canonical input order"',
               'for the negation query only existence and validity of the returned vector are compared']


def _func_universe(n, m, tag):
    wd = tlc.workdir(tag)
    cfg = os.path.join(wd, 'f.cfg')
    with open(cfg, 'w') as f:
        f.write(f'SPECIFICATION Spec\nINVARIANT Emit\nCHECK_DEADLOCK FALSE\nCONSTANTS\n N = {n}\n M = {m}\n')
    res = tlc.run_model('FuncUniverse', cfg, workers=1, tag=tag + '-run', xmx='2g')
    out = [json.loads(json.loads(ln)) for ln in res['stdout'].split('\n') if ln.startswith('"[')]
    tlc.cleanup(wd)
    tlc.cleanup(res['workdir'])
    if len(out) != res['distinct']:
        raise tlc.MachineryError('function universe incomplete')
    return [[sorted(x) for x in f] for f in out], res


def sources(tier, seed, ctx):
    rng = random.Random(seed + 12)
    srcs = []
    ctx['gen_states'] = 0
    ctx['gen_transitions'] = 0
    note = []
    for (n, m) in [(1, 1), (2, 1), (2, 2), (3, 1)]:
        fs, res = _func_universe(n, m, f'C12-F{n}{m}')
        ctx['gen_states'] += res['distinct']
        ctx['gen_transitions'] += res['generated']
        note.append(f'({n},{m}): {len(fs)} functions')
        for k, f in enumerate(fs):
            reps = ['TruthTable', 'PyFunction', 'Circuit'] if tier != 'quick' or (n, m) != (2, 2) or k % 2 == 0 else [['TruthTable', 'PyFunction', 'Circuit'][k % 3]]
            for rep in reps:
                srcs.append({'k': 'fn', 'n': n, 'm': m, 'tt': f, 'rep': rep, 'positional': (k % 2 == 0)})
                if rep == 'Circuit' and k % 3 == 0:
                    srcs.append({'k': 'fn', 'n': n, 'm': m, 'tt': f, 'rep': rep, 'inlabels': True})
            if any(sorted(t) == [r for r in range(2 ** n) if (r >> (n - 1 - j)) & 1] for t in f for j in range(n)):
                srcs.append({'k': 'fn', 'n': n, 'm': m, 'tt': f, 'rep': 'Circuit', 'direct': True})
    # the circuit representation with one path longer than the interpreter's recursion limit (every two-input function,
    # a few with two outputs): every protocol query of a deep circuit
    for code in range(16):
        f = [sorted(r for r in range(4) if (code >> r) & 1)]
        if code % 5 == 0:
            f.append(sorted(r for r in range(4) if ((code * 7 + 3) >> r) & 1))
        srcs.append({'k': 'fn', 'n': 2, 'm': len(f), 'tt': f, 'rep': 'Circuit', 'deep': 1200 if tier == 'quick' else 3000})
    # integer wrappers wider than a machine word (sampled operand values around 2^63, 2^64 and the width itself)
    for L in ([65, 72, 128] if tier == 'quick' else [63, 64, 65, 72, 96, 128, 200]):
        for f in ('inc', 'first', 'mul3', 'shr1', 'add'):
            for big in (False, True):
                srcs.append({'k': 'intfnwide', 'f': f, 'inlen': L, 'outlen': L + (2 if f in ('mul3', 'add') else 0) - (1 if f == 'first' and big else 0), 'big': big})
    # python callables that return (a view of) the very list they were given: identity and projections
    for n in (1, 2, 3):
        srcs.append({'k': 'fn', 'n': n, 'm': n, 'tt': [sorted(r for r in range(2 ** n) if (r >> (n - 1 - j)) & 1) for j in range(n)], 'rep': 'PyFunction', 'alias': 'identity'})
        srcs.append({'k': 'fn', 'n': n, 'm': n, 'tt': [sorted(r for r in range(2 ** n) if (r >> (n - 1 - j)) & 1) for j in reversed(range(n))], 'rep': 'PyFunction', 'alias': 'reversed-in-place'})
    ctx['exhaustive'] = False
    nsamp = 150 if tier == 'quick' else 2500
    for j in range(nsamp):
        n, m = rng.choice([(3, 2), (4, 1), (4, 2), (3, 3)])
        f = [sorted(r for r in range(2 ** n) if rng.random() < rng.choice([0.1, 0.5, 0.9])) for _ in range(m)]
        if rng.random() < 0.2 and m > 1:
            f[1] = list(f[0])
        for rep in ['TruthTable', 'PyFunction', 'Circuit']:
            srcs.append({'k': 'fn', 'n': n, 'm': m, 'tt': f, 'rep': rep, 'positional': bool(j % 2)})
    # models: every don't-care pattern for (2,1); sampled otherwise
    for pat in itertools.product((0, 1, 2), repeat=4):
        for rep in ('TruthTableModel', 'PyFunctionModel'):
            srcs.append({'k': 'model', 'n': 2, 'm': 1, 'mtt': [list(pat)], 'rep': rep, 'ds': sum(pat) + seed})
    nm = 200 if tier == 'quick' else 3000
    for j in range(nm):
        n, m = rng.choice([(2, 2), (3, 1), (3, 2)])
        mtt = [[rng.choice([0, 1, 2, 2]) for _ in range(2 ** n)] for _ in range(m)]
        srcs.append({'k': 'model', 'n': n, 'm': m, 'mtt': mtt, 'rep': rng.choice(['TruthTableModel', 'PyFunctionModel']), 'ds': rng.randrange(10**6)})
    for f in ('inc', 'mul3', 'sq', 'const5', 'first'):
        for inlen in (1, 2, 3):
            for outlen in (1, 2, 3, 5):
                for big in (False, True):
                    srcs.append({'k': 'intfn', 'f': f, 'inlen': inlen, 'outlen': outlen, 'big': big, 'binary': False})
    for f in ('add', 'mul', 'first'):
        for inlen in (1, 2):
            for outlen in (1, 2, 3, 4):
                for big in (False, True):
                    srcs.append({'k': 'intfn', 'f': f, 'inlen': inlen, 'outlen': outlen, 'big': big, 'binary': True})
    ctx['gen_note'] = '; '.join(note) + f'; {nsamp} sampled larger functions; 81 (2,1) models + {nm} sampled models'
    return srcs


def _rows(n):
    return list(itertools.product((False, True), repeat=n))


def _table(n, m, tt):
    return [[r in set(tt[k]) for r in range(2 ** n)] for k in range(m)]


INLABELS = {1: ['x10'], 2: ['x10', 'x2'], 3: ['lhs', 'rhs', 'cin'], 4: ['x10', 'x9', 'X1', 'x01']}


def _dnf_circuit(n, m, tt, direct=False, deep=0, inlabels=False):
    from cirbo.core.circuit import Circuit, gate as G

    c = Circuit()
    # inlabels: input names whose text order is not their index order
    ins = list(INLABELS[n]) if inlabels and n in INLABELS else [f'x{j}' for j in range(n)]
    c.add_inputs(ins)
    neg = {}
    if deep and n:
        # the first input reaches the formula through an even number of negations: one path longer than the
        # interpreter's recursion limit, the same function
        prev = ins[0]
        for k in range(2 * (deep // 2)):
            c.emplace_gate(f'dn{k}', G.NOT, (prev,))
            prev = f'dn{k}'
        ins = [prev] + ins[1:]

    def lit(j, val):
        if val:
            return ins[j]
        if j not in neg:
            neg[j] = f'nx{j}'
            c.emplace_gate(neg[j], G.NOT, (ins[j],))
        return neg[j]

    outs = []
    cnt = 0
    for k in range(m):
        rows = sorted(tt[k])
        col = [j for j in range(n) if rows == [r for r in range(2 ** n) if (r >> (n - 1 - j)) & 1]]
        if direct and col:
            outs.append(ins[col[0]])      # the output IS the input gate (no gate in between)
            continue
        if not rows:
            lab = f'o{k}'
            c.emplace_gate(lab, G.ALWAYS_FALSE)
        elif len(rows) == 2 ** n:
            lab = f'o{k}'
            c.emplace_gate(lab, G.ALWAYS_TRUE)
        else:
            terms = []
            for r in rows:
                bits = [(r >> (n - 1 - j)) & 1 == 1 for j in range(n)]
                lits = [lit(j, bits[j]) for j in range(n)]
                cnt += 1
                t = f't{cnt}'
                if len(lits) == 1:
                    c.emplace_gate(t, G.IFF, (lits[0],))
                else:
                    c.emplace_gate(t, G.AND, tuple(lits))
                terms.append(t)
            lab = f'o{k}'
            if len(terms) == 1:
                c.emplace_gate(lab, G.IFF, (terms[0],))
            else:
                c.emplace_gate(lab, G.OR, tuple(terms))
        outs.append(lab)
    c.set_outputs(outs)
    return c


def _make(src):
    from cirbo.core.python_function import PyFunction
    from cirbo.core.truth_table import TruthTable

    n, m, tt = src['n'], src['m'], src['tt']
    table = _table(n, m, tt)
    if src.get('alias') == 'identity':
        return PyFunction(func=lambda args: args, input_size=n)
    if src.get('alias') == 'reversed-in-place':
        def rev(args):
            out = list(args)
            out.reverse()
            return out
        return PyFunction(func=rev, input_size=n)
    if src['rep'] == 'TruthTable':
        # the three accepted spellings of a table: bools, '0'/'1' strings, 0/1 integers
        v = (n + m + sum(len(t) for t in tt)) % 3
        if v == 1:
            return TruthTable([''.join('1' if x else '0' for x in row) for row in table])
        if v == 2:
            return TruthTable([[int(x) for x in row] for row in table])
        return TruthTable(table)
    if src['rep'] == 'Circuit':
        return gen.clone(_dnf_circuit(n, m, tt, direct=bool(src.get('direct')), deep=src.get('deep', 0), inlabels=bool(src.get('inlabels'))),
                         {1: 1, 3: 2}.get((n + m + sum(len(t) for t in tt)) % 5, 0))
    cols = [[table[k][r] for k in range(m)] for r in range(2 ** n)]

    def lookup(args):
        idx = 0
        for a in args:
            idx = idx * 2 + (1 if a else 0)
        return list(cols[idx])

    if src.get('positional') and n <= 4:
        if n == 1:
            return PyFunction.from_positional(lambda a: lookup([a]))
        if n == 2:
            return PyFunction.from_positional(lambda a, b: lookup([a, b]))
        if n == 3:
            return PyFunction.from_positional(lambda a, b, c: lookup([a, b, c]))
        return PyFunction.from_positional(lambda a, b, c, d: lookup([a, b, c, d]))
    return PyFunction(func=lookup, input_size=n)


def _rowsets(vectors, width):
    out = [[] for _ in range(width)]
    for r, vec in enumerate(vectors):
        if len(vec) != width:
            raise ValueError('wrong answer width')
        for k, v in enumerate(vec):
            if v is True:
                out[k].append(r)
            elif v is not False:
                raise ValueError('non-boolean answer')
    return out


def _answers(f, n, m):
    rows = _rows(n)
    a = {}
    a['evaluate'] = _rowsets([list(f.evaluate(list(x))) for x in rows], m)
    a['evaluate_at'] = _rowsets([[f.evaluate_at(list(x), k) for k in range(m)] for x in rows], m)
    tt = f.get_truth_table()
    a['tt'] = [[r for r, v in enumerate(row) if v is True] for row in tt]
    if len(tt) != m or any(len(row) != len(rows) for row in tt):
        raise ValueError('truth table shape')
    a['is_constant'] = bool(f.is_constant())
    a['is_constant_at'] = [bool(f.is_constant_at(k)) for k in range(m)]
    a['is_monotone'] = bool(f.is_monotone())
    a['is_monotone_inv'] = bool(f.is_monotone(inverse=True))
    a['is_monotone_at'] = [bool(f.is_monotone_at(k)) for k in range(m)]
    a['is_monotone_at_inv'] = [bool(f.is_monotone_at(k, inverse=True)) for k in range(m)]
    a['is_symmetric'] = bool(f.is_symmetric())
    a['is_symmetric_at'] = [bool(f.is_symmetric_at(k)) for k in range(m)]
    a['depends'] = [[bool(f.is_dependent_on_input_at(k, j)) for j in range(n)] for k in range(m)]
    a['eq_in'] = [[bool(f.is_output_equal_to_input(k, j)) for j in range(n)] for k in range(m)]
    a['eq_neg'] = [[bool(f.is_output_equal_to_input_negation(k, j)) for j in range(n)] for k in range(m)]
    a['signif'] = [list(f.get_significant_inputs_of(k)) for k in range(m)]
    negs = []
    for size in range(1, m + 1):
        for outs in itertools.combinations(range(m), size):
            res = f.find_negations_to_make_symmetric(list(outs))
            negs.append({'outs': list(outs), 'found': res is not None, 'neg': [bool(x) for x in res] if res is not None else []})
    a['negs'] = negs
    return a


INTF = {'inc': lambda x: x + 1, 'mul3': lambda x: 3 * x, 'sq': lambda x: x * x, 'const5': lambda x: 5, 'first': lambda x: x}
INTF2 = {'add': lambda x, y: x + y, 'mul': lambda x, y: x * y, 'first': lambda x, y: x}


def record(src):
    from cirbo.core.logic import DontCare
    from cirbo.core.python_function import PyFunction, PyFunctionModel
    from cirbo.core.truth_table import TruthTableModel

    if src['k'] == 'fn':
        case = {'kind': 'fn', 'n': src['n'], 'm': src['m'], 'tt': src['tt'], 'rep': src['rep'], 'exc': '', 'ans': {}, 'src': src}
        try:
            case['ans'] = _answers(_make(src), src['n'], src['m'])
        except Exception as e:
            case['exc'] = f'{type(e).__name__}'
        return case
    if src['k'] == 'model':
        n, m, mtt = src['n'], src['m'], src['mtt']
        r = random.Random(src['ds'])
        rows = _rows(n)
        tri = lambda v: DontCare if v == 2 else bool(v)
        code = lambda v: 2 if v == DontCare else (1 if v is True else 0 if v is False else 3)
        # model data often arrives from elsewhere: every fourth table went through copy.deepcopy, every fourth through
        # pickle - its don't-care markers are then equal to, but not the same object as, cirbo.core.logic.DontCare
        import copy as _copy
        import pickle as _pickle
        thru = [lambda x: x, _copy.deepcopy, lambda x: _pickle.loads(_pickle.dumps(x)), lambda x: x][src['ds'] % 4]
        defs = [{'r': ri, 'o': o + 1, 'v': r.randint(0, 1)} for o in range(m) for ri in range(2 ** n) if mtt[o][ri] == 2]
        case = {'kind': 'model', 'n': n, 'm': m, 'mtt': mtt, 'defs': defs, 'rep': src['rep'], 'exc': '', 'src': src,
                'chk': [], 'chk_at': [], 'gmtt': [], 'res': []}
        try:
            if src['rep'] == 'TruthTableModel':
                v = (n + m + sum(sum(row) for row in mtt)) % 3
                if v == 1:      # rows spelled as strings over 0 / 1 / *
                    model = TruthTableModel([''.join('*' if x == 2 else str(x) for x in row) for row in mtt])
                elif v == 2:    # integers and DontCare
                    model = TruthTableModel(thru([[DontCare if x == 2 else int(x) for x in row] for row in mtt]))
                else:
                    model = TruthTableModel(thru([[tri(v_) for v_ in row] for row in mtt]))
            else:
                cols = thru([[tri(mtt[o][ri]) for o in range(m)] for ri in range(2 ** n)])

                stored = (n + sum(sum(row) for row in mtt)) % 3 == 0   # the callable hands out its own stored rows
                as_tuple = (n + sum(sum(row) for row in mtt)) % 3 == 1   # ... or answers with tuples (a legal Sequence)

                def lookup(args):
                    idx = 0
                    for a in args:
                        idx = idx * 2 + (1 if a else 0)
                    return cols[idx] if stored else (tuple(cols[idx]) if as_tuple else list(cols[idx]))

                if n == 2 and (m + sum(sum(row) for row in mtt)) % 2:
                    model = PyFunctionModel.from_positional(lambda a, b: lookup([a, b]))
                elif n == 3 and (m + sum(sum(row) for row in mtt)) % 2:
                    model = PyFunctionModel.from_positional(lambda a, b, c: lookup([a, b, c]))
                else:
                    model = PyFunctionModel(lookup, input_size=n)
            definition = {(tuple(rows[d['r']]), d['o'] - 1): bool(d['v']) for d in defs}
            if src['rep'] == 'PyFunctionModel' and (m + n) % 2 == 0:
                # completion first, the model's own answers afterwards: completing must not change the model
                fn = model.define(definition)
                case['res'] = _rowsets([list(fn.evaluate(list(x))) for x in rows], m)
            case['chk'] = [[code(model.check(list(x))[o]) for x in rows] for o in range(m)]
            case['chk_at'] = [[code(model.check_at(list(x), o)) for x in rows] for o in range(m)]
            case['gmtt'] = [[code(v) for v in row] for row in model.get_model_truth_table()]
            if not case['res']:
                fn = model.define(definition)
                case['res'] = _rowsets([list(fn.evaluate(list(x))) for x in rows], m)
        except Exception as e:
            case['exc'] = type(e).__name__
            return case
        # the completed function is a function like any other: every protocol query is asked of it too
        try:
            full = [[(mtt[o][ri] if mtt[o][ri] != 2 else next(d['v'] for d in defs if d['r'] == ri and d['o'] == o + 1)) for ri in range(2 ** n)] for o in range(m)]
            fcase = {'kind': 'fn', 'n': n, 'm': m, 'tt': [[ri for ri, v in enumerate(row) if v == 1] for row in full], 'rep': 'completed-' + src['rep'],
                     'exc': '', 'ans': {}, 'src': src}
            try:
                fcase['ans'] = _answers(fn, n, m)
            except Exception as e:
                fcase['exc'] = type(e).__name__
            return [case, fcase]
        except Exception:
            return case
    if src['k'] == 'intfnwide':
        fns = {'inc': lambda x: x + 1, 'first': lambda x: x, 'mul3': lambda x: 3 * x, 'shr1': lambda x: x >> 1}
        case = {'kind': 'intfnwide', 'f': src['f'], 'inlen': src['inlen'], 'outlen': src['outlen'], 'big': src['big'], 'exc': '', 'samples': [], 'src': src}
        r = random.Random(src['inlen'] * 131 + src['outlen'])
        L = src['inlen']
        vals = [0, 1, 2 ** L - 1, 2 ** (L - 1), 2 ** 64, 2 ** 64 - 1, 2 ** 64 + 1, 2 ** 63, (2 ** L - 1) ^ (2 ** 64 - 1)] + [r.getrandbits(L) for _ in range(12)]
        tobits = lambda v, n: [bool((v >> (n - 1 - j)) & 1) for j in range(n)] if src['big'] else [bool((v >> j) & 1) for j in range(n)]
        try:
            kw = {} if not src['big'] else {'big_endian': True}
            if src['f'] == 'add':
                f = PyFunction.from_int_binary_func(lambda a, b: a + b, L, src['outlen'], **kw)
            else:
                f = PyFunction.from_int_unary_func(fns[src['f']], L, src['outlen'], **kw)
            for j, v in enumerate(vals):
                v %= 2 ** L
                x = tobits(v, L)
                y = tobits(vals[(j + 3) % len(vals)] % 2 ** L, L) if src['f'] == 'add' else []
                out = list(f.evaluate(x + y))
                if any(o is not True and o is not False for o in out):
                    raise ValueError('non-boolean answer')
                case['samples'].append({'x': x, 'y': y, 'out': out})
        except Exception as e:
            case['exc'] = type(e).__name__
        return case
    if src['k'] == 'intfn':
        case = {'kind': 'intfn', 'f': src['f'], 'inlen': src['inlen'], 'outlen': src['outlen'], 'big': src['big'], 'binary': src['binary'], 'exc': '', 'rows': [], 'src': src}
        try:
            if src['binary']:
                f = PyFunction.from_int_binary_func(INTF2[src['f']], src['inlen'], src['outlen'], **({} if (not src['big'] and src['inlen'] % 2 == 0) else {'big_endian': src['big']}))
                n = 2 * src['inlen']
            else:
                f = PyFunction.from_int_unary_func(INTF[src['f']], src['inlen'], src['outlen'], **({} if (not src['big'] and src['inlen'] % 2 == 0) else {'big_endian': src['big']}))
                n = src['inlen']
            res = []
            for x in _rows(n):
                got = f.evaluate(list(x))
                res.append(list(got))
                # the caller owns what it was handed: it edits the list in place (a later answer must not be affected)
                try:
                    got.reverse()
                except AttributeError:
                    pass
            # ... and a second wrapper of the same shape, built afterwards, answers from scratch
            if src['inlen'] % 2 == 1 and not src['binary']:
                f2 = PyFunction.from_int_unary_func(INTF[src['f']], src['inlen'], src['outlen'], **({} if (not src['big'] and src['inlen'] % 2 == 0) else {'big_endian': src['big']}))
                res = [list(f2.evaluate(list(x))) for x in _rows(n)]
            width = len(res[0])
            case['rows'] = _rowsets(res, width)
        except Exception as e:
            case['exc'] = type(e).__name__
        return case
    raise ValueError(src)


def probes():
    return [{'k': 'fn', 'n': 2, 'm': 1, 'tt': [[2, 3]], 'rep': 'PyFunction', 'positional': False, 'probe': 'pyfunction-is-monotone'}]


def nontrivial(case):
    if case['kind'] != 'fn':
        return True
    return any(0 < len(t) < 2 ** case['n'] for t in case['tt'])


def features(case):
    yield case['kind'] + ':' + str(case.get('rep', ''))
    if case['kind'] == 'fn':
        yield f'shape=({case["n"]},{case["m"]})'
