"""C08 - multiplier and squarer generators compute exact products."""
import random

from ..project import project
from . import _arith as A
from .. import multrace

PROP = 'C08'
LEVEL = 'exploration'
MODES = ['DEFAULT', 'KARATSUBA', 'ALTER', 'DADDA', 'WALLACE', 'POW2_M1']
ADD_FN = {'DEFAULT': 'add_mul', 'KARATSUBA': 'add_mul_karatsuba', 'ALTER': 'add_mul_alter', 'DADDA': 'add_mul_dadda',
          'WALLACE': 'add_mul_wallace', 'POW2_M1': 'add_mul_pow2_m1', 'EFFICIENT_KARATSUBA': 'add_mul_karatsuba_with_efficient_sum', 'SIMPLE_KARATSUBA': 'add_simple_karatsuba',
          'DADDA_KARATSUBA': 'add_dadda_karatsuba'}
RULE = ('generate_mul / add_mul* for all width pairs (n,m) <= (5,5) (thorough (6,6)) x 6 modes x both endiannesses on ALL operand values; widths that '
        'reach the Karatsuba recursion and padding (18, 20, 21, 24x15, 40) and generate_square / add_square* for n = 1..8 exhaustively and the '
        'squarer split widths (47..54) on sampled operand values incl. 0, all-ones and single bits; operands = primary inputs or arbitrary '
        'gates of a host circuit; TLC multiplies the operand bit sequences (Arith.BMul) and compares with the returned bits, checks the '
        'number of result bits, fresh gates only and unchanged pre-existing gates; non-trivial = gates were added')
ASSUMPTIONS = ['bit-sequence multiplication of Arith.tla is the reference (checked against integers by ArithLemmas)',
               'wide circuits are evaluated along a witness topological order that TLC checks step by step']


def design(tier, seed):
    from .. import tlc

    r = tlc.run_model('ArithLemmas', 'ArithLemmas.cfg', workers=8, tag='C08-lemma', xmx='4g')
    tlc.cleanup(r['workdir'])
    cfg = 'Compress_quick.cfg' if tier == 'quick' else 'Compress.cfg'
    r2 = tlc.run_model('Compress', cfg, workers=16, tag='C08-compress', xmx='8g')
    tlc.cleanup(r2['workdir'])
    r3 = tlc.run_model('Karatsuba', 'Karatsuba.cfg', workers=16, tag='C08-karatsuba', xmx='4g')
    tlc.cleanup(r3['workdir'])
    return {'states': r['distinct'] + r2['distinct'] + r3['distinct'], 'transitions': r['generated'] + r2['generated'] + r3['generated'],
            'runs': [f'Karatsuba (number-level transcription of the Karatsuba multipliers with the recursion threshold as a parameter: split, padding, '
                     f'recursion rule incl. the n = T-2 exception, modular subtraction, widths of the shifted additions, truncation - exact product and no '
                     f'overflow of any intermediate width for all widths <= 7, all operand values, thresholds 4..7): {r3["distinct"]} states, {r3["wall_s"]:.1f}s',
                     f'ArithLemmas (bit-sequence add/shift/mul/compare/sqrt = integer arithmetic, all a,b < 32): {r["distinct"]} states, {r["wall_s"]:.1f}s',
                     f'Compress ({cfg}: the column-compression machine behind the Dadda / Wallace / alternative / 2^k-1 multipliers under EVERY schedule of '
                     f'full and half adders keeps sum(live bits * 2^weight) = a * b on all operand values, carries beyond the result width are constant '
                     f'zero, every terminal state is the binary product): {r2["distinct"]} states, {r2["wall_s"]:.1f}s']}


def _fn(ar, mode):
    from cirbo.synthesis.generation.arithmetics import multiplication

    return getattr(ar, ADD_FN[mode], None) or getattr(multiplication, ADD_FN[mode])


# multipliers whose steps (partial products, bit counters, adders) the weight ledger understands
LEDGER_MODES = {'DEFAULT', 'ALTER', 'DADDA', 'WALLACE', 'POW2_M1'}

# Karatsuba multipliers that are reachable only as add_* functions (not through a MulMode)
ADD_ONLY = ['EFFICIENT_KARATSUBA', 'SIMPLE_KARATSUBA', 'DADDA_KARATSUBA']


def sources(tier, seed, ctx):
    rng = random.Random(seed + 8)
    srcs = []
    wmax = 5 if tier == 'quick' else 6
    for n in range(1, wmax + 1):
        for m in range(1, wmax + 1):
            for mode in MODES:
                for big in (False, True):
                    use_host = (n + m) <= 5 and (n * 7 + m + MODES.index(mode)) % 4 == 0
                    srcs.append({'fn': 'mul', 'n': n, 'm': m, 'mode': mode, 'big': big, 'gen': not use_host,
                                 'host': {'seed': rng.randrange(10**6), 'ni': rng.randint(3, 4), 'ng': rng.randint(3, 6)} if use_host else None})
    # operand lists shared between calls: the same list object as both operands, then reused
    for mode in MODES:
        for big in (False, True):
            for n in (2, 3):
                srcs.append({'fn': 'mul-alias', 'n': n, 'mode': mode, 'big': big, 'host': {'seed': rng.randrange(10**6), 'ni': 3, 'ng': 4} if n == 2 else None})
    wide = [(18, 18, 'KARATSUBA'), (20, 20, 'DEFAULT'), (21, 21, 'KARATSUBA'), (24, 15, 'KARATSUBA'), (23, 23, 'KARATSUBA'), (25, 19, 'KARATSUBA'), (19, 19, 'DEFAULT'), (15, 15, 'POW2_M1'), (25, 25, 'POW2_M1'), (31, 31, 'POW2_M1'), (24, 40, 'POW2_M1'), (26, 26, 'DADDA'), (26, 26, 'WALLACE'), (26, 26, 'ALTER')] if tier == 'quick' else \
        [(18, 18, 'KARATSUBA'), (20, 20, 'DEFAULT'), (21, 21, 'KARATSUBA'), (24, 15, 'KARATSUBA'), (40, 40, 'DEFAULT'), (17, 19, 'DADDA'), (16, 16, 'WALLACE'), (15, 15, 'POW2_M1'), (12, 20, 'ALTER'), (25, 25, 'POW2_M1'), (31, 31, 'POW2_M1'), (33, 40, 'POW2_M1'), (63, 63, 'POW2_M1'), (26, 26, 'DADDA'), (26, 26, 'WALLACE'), (30, 30, 'ALTER'), (23, 23, 'KARATSUBA'), (25, 19, 'KARATSUBA')]
    for n, m, mode in wide:
        srcs.append({'fn': 'mul', 'n': n, 'm': m, 'mode': mode, 'big': bool(n % 2), 'gen': True, 'host': None})
    # asymmetric shapes: a narrow operand against a wide one (sparse partial-product columns), both ways round
    for mode in MODES:
        for n in (1, 2, 3):
            for m in (range(7, 15) if n == 2 else range(7, 12)) if tier == 'quick' else range(7, 26 - 3 * n):
                a, b = (n, m) if (n + m) % 2 else (m, n)
                srcs.append({'fn': 'mul', 'n': a, 'm': b, 'mode': mode, 'big': bool(m % 2), 'gen': True, 'host': None})
                if n == 2:
                    srcs.append({'fn': 'mul', 'n': b, 'm': a, 'mode': mode, 'big': not bool(m % 2), 'gen': True, 'host': None})
        for _ in range(3 if tier == 'quick' else 25):
            n, m = rng.randint(1, 6), rng.randint(7, 24)
            if rng.random() < 0.5:
                n, m = m, n
            srcs.append({'fn': 'mul', 'n': n, 'm': m, 'mode': mode, 'big': rng.random() < 0.5, 'gen': True, 'host': None})
    for mode in ADD_ONLY:
        for n in range(1, 5 if tier == 'quick' else 7):
            for m in range(1, 5 if tier == 'quick' else 7):
                for big in (False, True):
                    srcs.append({'fn': 'mul', 'n': n, 'm': m, 'mode': mode, 'big': big, 'gen': False,
                                 'host': {'seed': rng.randrange(10**6), 'ni': 3, 'ng': 4} if (n + m) % 3 == 0 and n + m <= 5 else None})
        for n, m, big in [(18, 18, True), (20, 17, False), (21, 24, True)] + ([] if tier == 'quick' else [(33, 33, True), (40, 20, False)]):
            srcs.append({'fn': 'mul', 'n': n, 'm': m, 'mode': mode, 'big': big, 'gen': False, 'host': None})
    # one operand of width 1 against a wide one (the n+m-1 result-width rule beyond the recursion thresholds)
    for mode in MODES:
        for n, m, big in [(18, 1, False), (20, 1, True), (1, 21, False)] + ([] if tier == 'quick' else [(33, 1, True), (1, 40, False)]):
            srcs.append({'fn': 'mul', 'n': n, 'm': m, 'mode': mode, 'big': big, 'gen': True, 'host': None})
    # operands that contain constant gates of the host (a multiplier may skip their partial products - the result still has
    # every weight level): explicit operand lists over a host with a constant-false and a constant-true gate
    for mode in MODES:
        for j, (pa, pb) in enumerate([(['x0', 'k0', 'k0', 'x1'], ['y0']), (['k0', 'x0', 'x1'], ['y0', 'y1']), (['x0', 'k1', 'k0'], ['k0', 'y0']), (['k0'], ['y0', 'y1', 'k1'])]):
            srcs.append({'fn': 'mul', 'n': len(pa), 'm': len(pb), 'mode': mode, 'big': bool(j % 2), 'gen': False, 'host': {'consts': True, 'a': pa, 'b': pb}})
    # Karatsuba splits: the narrow operand next to half of the wide one (n odd / even, m = floor(n/2), ceil(n/2), +1), both ways
    # round - the shapes in which a shortcut for a "narrow second operand" would have to tell the halves apart
    for n in ([21, 24, 25] if tier == 'quick' else [19, 20, 21, 22, 23, 24, 25, 27, 33]):
        for m in sorted({n // 2, (n + 1) // 2, (n + 1) // 2 + 1}):
            for mode in ('KARATSUBA', 'EFFICIENT_KARATSUBA'):
                for a, b in ((n, m), (m, n)):
                    srcs.append({'fn': 'mul', 'n': a, 'm': b, 'mode': mode, 'big': bool((a + m) % 2), 'gen': mode == 'KARATSUBA', 'host': None})
    # nested Karatsuba recursion (max width >= 33) in both endiannesses
    for n, m, big in ([(33, 33, True), (34, 33, False), (36, 35, True), (33, 40, True)] if tier == 'quick' else [(33, 33, True), (34, 33, False), (35, 40, True), (36, 36, True), (41, 33, False)]):
        for mode in ('KARATSUBA', 'DEFAULT'):
            srcs.append({'fn': 'mul', 'n': n, 'm': m, 'mode': mode, 'big': big, 'gen': True, 'host': None})
    for n in range(1, (7 if tier == 'quick' else 10) + 1):
        for mode in ('DEFAULT', 'POW2_M1'):
            for big in (False, True):
                srcs.append({'fn': 'square', 'n': n, 'mode': mode, 'big': big, 'gen': (n + big) % 2 == 0,
                             'host': {'seed': rng.randrange(10**6), 'ni': 3, 'ng': 4} if n <= 3 and big else None})
    for n in ([15, 47, 48, 49] if tier == 'quick' else [15, 31, 47, 48, 49, 50, 53, 54]):
        srcs.append({'fn': 'square', 'n': n, 'mode': 'DEFAULT', 'big': False, 'gen': True, 'host': None})
    for n, big in ([(47, True), (50, False)] if tier == 'quick' else [(47, True), (48, False), (50, False), (53, True), (60, True)]):
        srcs.append({'fn': 'square', 'n': n, 'mode': 'POW2_M1', 'big': big, 'gen': True, 'host': None})
    # a third of the little-endian calls do not pass big_endian at all (the documented default is little-endian)
    # - counted per entry point, so that every entry point is called without it
    seen = {}
    for s_ in srcs:
        if s_.get('big') is False:
            key = (s_['fn'], s_.get('mode'), bool(s_.get('gen')))
            seen[key] = seen.get(key, 0) + 1
            if seen[key] % 3 == 1:
                s_['big'] = None
    ctx['gen_note'] = f'{len(srcs)} generator calls'
    return srcs


def _record(src):
    from cirbo.synthesis.generation import arithmetics as ar

    rng = random.Random(hash(str(sorted((k, str(v)) for k, v in src.items()))) & 0xffffff)
    big = src['big']
    if src['fn'] == 'mul':
        n, m, mode = src['n'], src['m'], src['mode']
        case = A.base_case(src, PROP, f'mul-{mode}')
        outlen = n + m - 1 if (n == 1 or m == 1) else n + m
        if mode in ('SIMPLE_KARATSUBA', 'DADDA_KARATSUBA'):
            outlen = -1     # unexported helpers (not a MulMode): judged on the product only, the width rule speaks of the modes
        events = []
        try:
          with multrace.traced(events):      # the multiplier's own steps, for the weight ledger (drift only)
            if src['gen'] and not src.get('host'):
                c = ar.generate_mul(n, m, type=ar.MulMode[mode], **A.bkw(big))
                pre = {'g': {l: {'t': 'INPUT', 'o': []} for l in c.inputs}, 'ord': list(c.inputs), 'i': list(c.inputs), 'o': [], 'u': {}, 'b': {}}
                a, b = list(c.inputs[:n]), list(c.inputs[n:])
                res = list(c.outputs)
                mode_out = 'set'
            else:
                c, ops = A.make_host(src, n + m)
                pre = project(c)
                a, b = ops[:n], ops[n:]
                res = _fn(ar, mode)(c, list(a), list(b), **A.bkw(big))
                mode_out = 'same'
          checks = [{'op': 'mul', 'a': A.le(a, big), 'b': A.le(b, big), 'out': A.le(res, big), 'outlen': outlen}]
          if mode in LEDGER_MODES and len(set(a) | set(b)) == n + m and n * m <= 1100:
              case['ledger'] = {'A': A.le(a, big), 'B': A.le(b, big), 'ev': events, 'R': A.le(res, big)}
          return A.finish(case, c, pre, rng, res, checks, mode_out, res if mode_out == 'set' else [])
        except Exception as e:
            case['exc'] = type(e).__name__
            return case
    if src['fn'] == 'mul-alias':
        n, mode = src['n'], src['mode']
        case = A.base_case(src, PROP, f'mul-alias-{mode}')
        try:
            c, ops = A.make_host(src, 2 * n)
            pre = project(c)
            a, b = list(ops[:n]), list(ops[n:])
            a0, b0 = list(a), list(b)
            fn = _fn(ar, mode)
            r1 = fn(c, a, a, **A.bkw(big))      # the SAME list object twice: a * a
            r2 = fn(c, a, b, **A.bkw(big))      # the list is used again: a * b
            ol = 2 * n - 1 if n == 1 else 2 * n
            checks = [{'op': 'mul', 'a': A.le(a0, big), 'b': A.le(a0, big), 'out': A.le(r1, big), 'outlen': ol},
                      {'op': 'mul', 'a': A.le(a0, big), 'b': A.le(b0, big), 'out': A.le(r2, big), 'outlen': ol}]
            return A.finish(case, c, pre, rng, list(r1) + list(r2), checks, 'same', [])
        except Exception as e:
            case['exc'] = type(e).__name__
            return case
    n, mode = src['n'], src['mode']
    case = A.base_case(src, PROP, f'square-{mode}')
    outlen = 1 if n == 1 else 2 * n
    events = []
    try:
      with multrace.traced(events):
        if src['gen'] and not src.get('host'):
            c = ar.generate_square(n, type=ar.SquareMode[mode], **A.bkw(big))
            pre = {'g': {l: {'t': 'INPUT', 'o': []} for l in c.inputs}, 'ord': list(c.inputs), 'i': list(c.inputs), 'o': [], 'u': {}, 'b': {}}
            a = list(c.inputs)
            res = list(c.outputs)
            mode_out = 'set'
        else:
            c, ops = A.make_host(src, n)
            pre = project(c)
            a = ops
            fn = ar.add_square if mode == 'DEFAULT' else ar.add_square_pow2_m1
            res = fn(c, list(a), **A.bkw(big))
            mode_out = 'same'
      checks = [{'op': 'mul', 'a': A.le(a, big), 'b': A.le(a, big), 'out': A.le(res, big), 'outlen': outlen}]
      # squarers that do not split (the split goes through Karatsuba, whose subtraction the ledger does not know)
      if (mode == 'POW2_M1' or n < 48 or n in (49, 53)) and len(set(a)) == n and n > 1:
          case['ledger'] = {'A': A.le(a, big), 'B': A.le(a, big), 'ev': events, 'R': A.le(res, big)}
      return A.finish(case, c, pre, rng, res, checks, mode_out, res if mode_out == 'set' else [])
    except Exception as e:
        case['exc'] = type(e).__name__
        return case


nontrivial = A.nontrivial
features = A.features


record = A.with_decoys(_record)
