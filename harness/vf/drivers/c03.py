"""C03 - simplification passes preserve the function, the interface and their argument."""
from . import _passes as P

PROP = 'C03'
LEVEL = 'model_checking'
RULE = ('TLC-enumerated universe circuits over all 18 types (non-topological storage, repeated / input / zero outputs, dead logic, '
        'constants, L*/R* gates) and seeded random circuits x the seven passes (RRG with and without input removal, MUO, MDG, MEG, '
        'cleanup light/heavy) and random pipelines; TLC judges argument unchanged, new object, interface, truth table over the '
        'remaining inputs, size and well-formedness; non-trivial = the argument has >= 1 non-input gate')
ASSUMPTIONS = ['TLC GateTT as the reference semantics', 'bounded universe + random beyond']


def design(tier, seed):
    from .. import tlc

    r = tlc.run_model('PassLemmas', 'PassLemmas.cfg', workers=16, tag='C03-lemma', xmx='6g')
    tlc.cleanup(r['workdir'])
    return {'states': r['distinct'], 'transitions': r['generated'],
            'runs': [f'PassLemmas (algorithm models RRG/RRGI/MUO/MDG/MEG of Passes.tla satisfy the C03 and C18 predicates on every circuit of U(2,2,10 types,3) x 3 output choices): {r["distinct"]} states, {r["wall_s"]:.1f}s']}


def sources(tier, seed, ctx):
    circs, rng = P.circuit_sources(tier, seed, ctx, 3, 5000, 60000, 500, 8000)
    srcs = []
    for n, cs in enumerate(circs):
        fam = cs.get('family')
        plist = (['MUO', 'cleanup'] if fam in ('F0', 'F1') else ['MDG', 'cleanup', 'cleanup_heavy']) if fam else (P.PASSES if n % 4 == 0 else [P.PASSES[n % len(P.PASSES)], P.PASSES[(n * 3 + 1) % len(P.PASSES)]])
        for name in plist:
            s = dict(cs)
            s['pass'] = name
            srcs.append(s)
        if n % 5 == 0:
            s = dict(cs)
            s['pass'] = 'pipeline'
            s['leaves'] = [rng.choice(P.LEAVES) for _ in range(rng.randint(1, 4))]
            s['shape'] = rng.choice(P.SHAPES)
            srcs.append(s)
    # deep circuits: one path longer than the interpreter's recursion limit through every pass
    for depth in ([1500] if tier == 'quick' else [1500, 4000]):
        for j, name in enumerate(['RRG', 'MUO', 'MDG', 'MEG', 'cleanup', 'cleanup_heavy']):
            srcs.append({'k': 'deep', 'depth': depth, 'pass': name, 'rev': bool(j % 2)})
        # ... and chains made of unary gates only (negations; buffers and negations): what the unary-merging pass follows
        for j, (name, types) in enumerate([('MUO', ['NOT']), ('MUO', ['IFF']), ('cleanup', ['IFF', 'NOT', 'IFF']), ('MUO', ['NOT', 'IFF'])]):
            srcs.append({'k': 'deep', 'depth': depth + 1, 'pass': name, 'rev': bool(j % 2), 'types': types})
    # operand labels that become ambiguous once joined: T(a<sep>b, c) and T(a, b<sep>c) are different gates whatever text
    # a signature is rendered to
    for sep in (',', '_', ' ', '|', ', ', ''):
        for t in ('AND', 'GT', 'XOR', 'NOR'):
            A_, B_, C_ = 'a', 'b', 'c'
            labels = [A_, B_, C_, A_ + sep + B_, B_ + sep + C_]
            if len(set(labels)) < 5:
                labels = [A_, B_, C_, A_ + sep + B_ + 'x', B_ + 'x' + sep + C_]
            # inputs a, b, c; ab = OR(a, b); bc = NXOR(b, c); g1 = T(ab, c); g2 = T(a, bc); both are outputs
            gs = [['OR', [1, 2]], ['NXOR', [2, 3]], [t, [4, 3]], [t, [1, 5]]]
            for name in ('MDG', 'cleanup', 'cleanup_heavy'):
                srcs.append({'net': [3, gs], 'outs': [6, 7], 'variant': 'plain', 'vs': 0, 'pass': name,
                             'labels': labels + ['g1', 'g2']})
    return srcs


def record(src):
    if src.get('k') == 'deep':
        from .. import deep
        return deep.transform_case(PROP, src['pass'], src, lambda c: P.run_pass(src['pass'], c),
                                   types=tuple(src.get('types') or ('NOT', 'XOR', 'NOT', 'NOT', 'AND', 'XOR')))
    return P.record_pass(src, PROP)


def nontrivial(case):
    if case['kind'] == 'transformdeep':
        return True
    return any(g['t'] != 'INPUT' for g in case['pre']['g'].values())


def features(case):
    if case['kind'] == 'transformdeep':
        return ['deep:' + case['what']]
    return P.pass_features(case)
