"""C03 - simplification passes preserve the function, the interface and their argument."""
from . import _passes as P

PROP = 'C03'
LEVEL = 'model_checking'
RULE = ('TLC-enumerated universe circuits over all 18 types (non-topological storage, repeated / input / zero outputs, dead logic, '
        'constants, L*/R* gates) and seeded random circuits x the seven passes (RRG with and without input removal, MUO, MDG, MEG, '
        'cleanup light/heavy) and random pipelines; TLC judges argument unchanged, new object, interface, truth table over the '
        'remaining inputs, size and well-formedness; non-trivial = the argument has >= 1 non-input gate')
ASSUMPTIONS = ['TLC GateTT as the reference semantics', 'bounded universe + random beyond']


def design(tier, seed):
    from .. import tlc

    r = tlc.run_model('PassLemmas', 'PassLemmas.cfg', workers=16, tag='C03-lemma', xmx='6g')
    tlc.cleanup(r['workdir'])
    return {'states': r['distinct'], 'transitions': r['generated'],
            'runs': [f'PassLemmas (algorithm models RRG/RRGI/MUO/MDG/MEG of Passes.tla satisfy the C03 and C18 predicates on every circuit of U(2,2,10 types,3) x 3 output choices): {r["distinct"]} states, {r["wall_s"]:.1f}s']}


def sources(tier, seed, ctx):
    circs, rng = P.circuit_sources(tier, seed, ctx, 3, 5000, 60000, 500, 8000)
    srcs = []
    for n, cs in enumerate(circs):
        fam = cs.get('family')
        plist = (['MUO', 'cleanup'] if fam in ('F0', 'F1') else ['MDG', 'cleanup', 'cleanup_heavy']) if fam else (P.PASSES if n % 4 == 0 else [P.PASSES[n % len(P.PASSES)], P.PASSES[(n * 3 + 1) % len(P.PASSES)]])
        for name in plist:
            s = dict(cs)
            s['pass'] = name
            srcs.append(s)
        if n % 5 == 0:
            s = dict(cs)
            s['pass'] = 'pipeline'
            s['leaves'] = [rng.choice(P.LEAVES) for _ in range(rng.randint(1, 4))]
            s['shape'] = rng.choice(P.SHAPES)
            srcs.append(s)
    # deep circuits: one path longer than the interpreter's recursion limit through every pass
    for depth in ([1500] if tier == 'quick' else [1500, 4000]):
        for j, name in enumerate(['RRG', 'MUO', 'MDG', 'MEG', 'cleanup', 'cleanup_heavy']):
            srcs.append({'k': 'deep', 'depth': depth, 'pass': name, 'rev': bool(j % 2)})
    return srcs


def record(src):
    if src.get('k') == 'deep':
        from .. import deep
        return deep.transform_case(PROP, src['pass'], src, lambda c: P.run_pass(src['pass'], c), types=('NOT', 'XOR', 'NOT', 'NOT', 'AND', 'XOR'))
    return P.record_pass(src, PROP)


def nontrivial(case):
    if case['kind'] == 'transformdeep':
        return True
    return any(g['t'] != 'INPUT' for g in case['pre']['g'].values())


def features(case):
    if case['kind'] == 'transformdeep':
        return ['deep:' + case['what']]
    return P.pass_features(case)
