"""C02 - circuits stay well formed under every history of public mutations."""

import random

from .. import apigen, hist, histgen

PROP = 'C02'
LEVEL = 'model_checking'
RULE = (
    'histories = (a) every transition of the exhaustive TLC exploration of CircuitAPI.tla within the bounds, '
    'printed as the call sequence that reaches it, (b) tlc -simulate behaviours over all 18 types / 8 labels, '
    '(c) seeded random histories from harness/vf/histgen.py (invalid arguments, right-connection, internal '
    'connectors, replace_subcircuit, slices, copy); each is replayed call by call into cirbo and TLC judges '
    'WF1-WF6, both top_sort directions and copy equality/independence after every call that returns; '
    'non-trivial = contains a mutator other than add_gate/mark_as_output; distinct by recorded JSON'
)
ASSUMPTIONS = [
    'projection harness/vf/project.py reads public accessors only',
    'a history ends at the first call that raises (the property speaks of calls that return normally)',
    'copy clauses are not judged in states where a block output label dangles (property names member and input labels only)',
    'bounds of the exhaustive exploration are in coverage.generation',
]


def design(tier, seed):
    # the BFS run in sources() doubles as the design-level check (all invariants on)
    return {'states': 0, 'transitions': 0, 'runs': []}


def sources(tier, seed, ctx):
    rng = random.Random(seed + 17)
    srcs = []
    depth = 3 if tier == 'quick' else 4
    hs, st = apigen.bfs_transitions({'Depth': depth}, tag='C02-bfs')
    ctx['gen_states'] = st['distinct']
    ctx['gen_transitions'] = st['generated']
    note = [f'CircuitAPI BFS (Pool5,T6,AMAX2,MaxGates3,MaxOuts2,Depth{depth},Lib3,2 blocks): {st["distinct"]} distinct states, {st["generated"]} transitions, WF1-6 invariants hold, {st["wall_s"]:.0f}s; ']
    if tier == 'thorough' and len(hs) > 150000:
        rng.shuffle(hs)
        hs = hs[:150000]
        note.append('150000 of the transitions sampled for replay')
    if tier == 'quick' and len(hs) > 7000:
        # every depth-2 transition, and a seeded sample of the depth-3 ones
        short = [h for h in hs if len(h) <= 2]
        long_ = [h for h in hs if len(h) > 2]
        rng.shuffle(long_)
        hs = short + long_[: 7000 - len(short)]
        note.append(f'quick tier: all {len(short)} transitions of depth <= 2 and {len(hs) - len(short)} sampled transitions of depth 3 replayed')
    srcs += [{'k': 'hist', 'acts': h, 'from': 'bfs'} for h in hs]
    num = 12 if tier == 'quick' else 150
    sims, st2 = apigen.simulate({'Types': 'T18', 'Pool': 'Pool8', 'MaxGates': 6, 'AMAX': 3}, num, 12, seed + 1, tag='C02-sim')
    # the simulator prints all successors at the last level: keep at most 6 siblings per prefix
    byprefix = {}
    for h in sims:
        byprefix.setdefault(str(h[:-1]), []).append(h)
    kept = []
    for sibs in byprefix.values():
        rng.shuffle(sibs)
        kept += sibs[:6]
    note.append(f'simulate: {num} behaviours of depth 12 (18 types, 8 labels, <=6 gates), {len(sims)} printed, {len(kept)} kept')
    srcs += [{'k': 'hist', 'acts': h, 'from': 'sim'} for h in kept]
    nrand = 700 if tier == 'quick' else 20000
    for j in range(nrand):
        srcs.append({'k': 'rand', 'seed': rng.randrange(10**9), 'n': rng.randint(4, 16), 'from': 'rand'})
    srcs += refusal_matrix()
    srcs += [{'k': 'shared-gates', 'which': w, 'from': 'scripted'} for w in ('rename', 'replace_inputs', 'into_bench', 'remove')]
    # deep circuits (one path longer than the interpreter's recursion limit) through the copying and the local mutators
    for j, what in enumerate(['copy', 'deepcopy', 'rename', 'add-remove', 'order', 'block']):
        srcs.append({'k': 'deep', 'depth': 1500 if tier == 'quick' else 3000, 'what': what, 'rev': bool(j % 2), 'from': 'deep'})
    harvested = harvest(tier)
    note.append(f'{len(harvested)} outermost public mutator calls harvested from the repository\'s own tests run under vf/tracer.py')
    srcs += [{'k': 'harvested', 'rec': r, 'from': 'harvest'} for r in harvested]
    ctx['gen_note'] = '; '.join(note)
    return srcs


def refusal_matrix():
    """Scripted calls with arguments every mutator has to refuse (or, if it accepts them, has to leave a well-formed
    circuit behind): one call each on a fixed circuit whose input order is not sorted and whose outputs repeat, each followed
    by a copy and an ordinary mutation so that a stale structure becomes visible.  The random generator reaches most of
    these only now and then; here each is reached on every run."""
    init = {'g': {'c': {'t': 'INPUT', 'o': []}, 'a': {'t': 'INPUT', 'o': []}, 'b': {'t': 'INPUT', 'o': []},
                  'g1': {'t': 'AND', 'o': ['a', 'b']}, 'g2': {'t': 'XOR', 'o': ['g1', 'c', 'g1']}, 'g3': {'t': 'NOT', 'o': ['g2']}},
            'ord': ['c', 'a', 'b', 'g1', 'g2', 'g3'], 'i': ['c', 'a', 'b'], 'o': ['g3', 'g1', 'g3'], 'b': {}}
    calls = [
        {'a': 'order_inputs', 'q': ['b', 'a', 'a']}, {'a': 'order_inputs', 'q': ['a', 'a']}, {'a': 'order_inputs', 'q': ['b', 'a', 'g1']},
        {'a': 'order_inputs', 'q': ['b', 'a', 'c', 'c']}, {'a': 'order_outputs', 'q': ['g1', 'g1', 'g3']}, {'a': 'order_outputs', 'q': ['g3', 'g3', 'g3']},
        {'a': 'order_outputs', 'q': ['g1', 'g2']}, {'a': 'order_outputs', 'q': ['g1', 'g3', 'g3', 'g3']},
        {'a': 'set_inputs', 'q': ['a', 'b', 'b']}, {'a': 'set_inputs', 'q': ['a', 'b']}, {'a': 'set_inputs', 'q': ['a', 'b', 'g1']},
        {'a': 'set_inputs', 'q': ['a', 'b', 'c', 'c']}, {'a': 'set_outputs', 'q': ['g1', 'nope']}, {'a': 'mark_as_output', 'l': 'nope'},
        {'a': 'add_gate', 'l': 'g1', 't': 'OR', 'ops': ['a', 'b']}, {'a': 'add_gate', 'l': 'h', 't': 'OR', 'ops': ['a', 'nope']},
        {'a': 'add_gate', 'l': 'a', 't': 'INPUT', 'ops': []}, {'a': 'add_gate', 'l': 'h', 't': 'OR', 'ops': ['h', 'a']},
        {'a': 'add_inputs', 'q': ['d', 'd']}, {'a': 'add_inputs', 'q': ['d', 'a']},
        {'a': 'rename_gate', 'old': 'g1', 'new': 'g2'}, {'a': 'rename_gate', 'old': 'nope', 'new': 'z'}, {'a': 'rename_gate', 'old': 'a', 'new': 'c'},
        {'a': 'remove_gate', 'l': 'g1'}, {'a': 'remove_gate', 'l': 'nope'}, {'a': 'remove_gate', 'l': 'a'},
        {'a': 'replace_inputs', 'T': ['a'], 'F': ['a']}, {'a': 'replace_inputs', 'T': ['g1'], 'F': []}, {'a': 'replace_inputs', 'T': ['a', 'a'], 'F': []},
        {'a': 'replace_inputs', 'T': ['nope'], 'F': ['b']}, {'a': 'replace_inputs', 'T': ['a'], 'F': ['nope']},
        {'a': 'make_block', 'n': 'B', 'gs': ['g1', 'nope'], 'outs': ['g1']}, {'a': 'make_block', 'n': 'B', 'gs': ['g1'], 'outs': ['g2']},
        {'a': 'make_block_from_slice', 'n': 'B', 'ins': ['g1'], 'outs': ['a']}, {'a': 'make_block_from_slice', 'n': 'B', 'ins': ['nope'], 'outs': ['g2']},
        {'a': 'delete_block', 'n': 'nope'}, {'a': 'remove_block', 'n': 'nope'},
    ]
    after = [{'a': 'copy'}, {'a': 'add_gate', 'l': 'w', 't': 'OR', 'ops': ['a', 'c']}, {'a': 'rename_gate', 'old': 'b', 'new': 'bb'}, {'a': 'into_bench'}]
    out = [{'k': 'hist', 'init': init, 'acts': [call] + after, 'from': 'refusals'} for call in calls]
    # names the library generates are labels like any other: '<block>@<gate>' may already be taken - by a gate the user named
    # so, or by what an earlier connection under the same block name left behind after its block was dissolved
    other = {'g': {'s': {'t': 'INPUT', 'o': []}, 't': {'t': 'INPUT', 'o': []}, 'sum': {'t': 'XOR', 'o': ['s', 't']}, 'car': {'t': 'AND', 'o': ['s', 't']}},
             'ord': ['s', 't', 'sum', 'car'], 'i': ['s', 't'], 'o': ['sum', 'car'], 'b': {}}
    host = {'g': {'p': {'t': 'INPUT', 'o': []}, 'q': {'t': 'INPUT', 'o': []}, 'acc@sum': {'t': 'OR', 'o': ['p', 'q']}, 'm': {'t': 'NOT', 'o': ['acc@sum']}},
            'ord': ['p', 'q', 'acc@sum', 'm'], 'i': ['p', 'q'], 'o': ['m', 'acc@sum'], 'b': {}}
    conn = lambda name, tc, oc, right=False: {'a': 'connect', 'other': other, 'tc': tc, 'oc': oc, 'right': right, 'name': name, 'pfx': True, 'via': 'connect_circuit'}
    tail = [{'a': 'copy'}, {'a': 'add_gate', 'l': 'w', 't': 'OR', 'ops': ['p', 'q']}, {'a': 'into_bench'}]
    out.append({'k': 'hist', 'init': host, 'acts': [conn('acc', ['p'], ['s'])] + tail, 'from': 'refusals'})
    out.append({'k': 'hist', 'init': host, 'acts': [conn('acc', ['m'], ['t'])] + tail, 'from': 'refusals'})
    plain = {'g': {'p': {'t': 'INPUT', 'o': []}, 'q': {'t': 'INPUT', 'o': []}, 'm': {'t': 'NAND', 'o': ['p', 'q']}}, 'ord': ['p', 'q', 'm'], 'i': ['p', 'q'], 'o': ['m'], 'b': {}}
    for victim in ('B@car', 'B@sum'):
        out.append({'k': 'hist', 'init': plain, 'from': 'refusals',
                    'acts': [conn('B', ['p', 'q'], ['s', 't']), {'a': 'set_outputs', 'q': ['m']}, {'a': 'remove_gate', 'l': victim},
                             conn('B', ['p', 'm'], ['s', 't'])] + tail})
    # a block of more than a hundred gates that contains a circuit input, removed as a whole
    big = {'g': {'x': {'t': 'INPUT', 'o': []}, 'y': {'t': 'INPUT', 'o': []}, 'z': {'t': 'INPUT', 'o': []}}, 'ord': ['x', 'y', 'z'], 'i': ['x', 'y', 'z'], 'o': ['z'], 'b': {}}
    prev = 'x'
    for k in range(120):
        big['g'][f'c{k}'] = {'t': 'XOR' if k % 2 else 'AND', 'o': [prev, 'y']}
        big['ord'].append(f'c{k}')
        prev = f'c{k}'
    for members in (['y', 'x'] + [f'c{k}' for k in range(120)], [f'c{k}' for k in range(40, 120)], ['x', 'y'] + [f'c{k}' for k in range(8)]):
        out.append({'k': 'hist', 'init': big, 'from': 'refusals',
                    'acts': [{'a': 'make_block', 'n': 'bulk', 'gs': members, 'outs': []}, {'a': 'remove_block', 'n': 'bulk'}, {'a': 'copy'},
                             {'a': 'add_gate', 'l': 'w', 't': 'NOT', 'ops': ['z']}]})
    return out


def harvest(tier):
    """Run (part of) the repository's test suite under the tracer; returns the logged steps."""
    import json
    import os
    import subprocess
    import sys

    from .. import REPO, VERIF, tlc

    wd = tlc.workdir('C02-harvest')
    out = os.path.join(wd, 'trace.jsonl')
    env = dict(os.environ)
    env.update({'CIRBO_VERIF_TRACE': '1', 'CIRBO_VERIF_TRACE_OUT': out, 'PYTHONPATH': os.path.join(VERIF, 'harness'),
                'CIRBO_VERIF_TRACE_MAX': '4000' if tier == 'quick' else '60000'})
    targets = ['tests/cirbo/core/circuit', 'tests/cirbo/core/parser'] if tier == 'quick' else ['tests']
    subprocess.run([sys.executable, '-m', 'pytest', '-q', '-x', '-p', 'no:cacheprovider', '-p', 'vf.tracer', '--continue-on-collection-errors',
                    '-o', 'addopts=', *targets], cwd=REPO, env=env, capture_output=True, text=True, timeout=1800)
    recs = []
    if os.path.exists(out):
        with open(out) as f:
            for ln in f:
                try:
                    recs.append(json.loads(ln))
                except Exception:
                    pass
    tlc.cleanup(wd)
    return recs


def probes():
    from . import _histcommon as H

    return H.finding_probes(PROP)


def _deep_op(what):
    import copy as _copy
    from cirbo.core.circuit import gate as G

    def f(c):
        if what == 'copy':
            return _copy.copy(c)
        if what == 'deepcopy':
            return _copy.deepcopy(c)
        n = len(c.gates) - 2
        name = lambda k: f'g{k}' if c.has_gate(f'g{k}') else f'g{k}_'       # the chain gate at depth k, whatever the storage order
        mid = name(n // 2)
        if what == 'rename':
            c.rename_gate(mid, 'renamed_mid')
        elif what == 'add-remove':
            c.emplace_gate('on_top', G.AND, (c.outputs[0], mid))
            c.remove_gate('on_top')
        elif what == 'order':
            c.order_inputs(list(c.inputs))
            c.order_outputs(list(c.outputs)[::-1])
            c.order_outputs(list(c.outputs)[::-1])
        elif what == 'block':
            c.make_block_from_slice('deep_block', [name(10), 'y'], [mid])
            c.delete_block('deep_block')
        return c
    return f


def _shared_gates(src):
    """Gate objects are values: the same Gate object may be handed to two circuits (add_gate stores what it is given);
    what is done to one circuit afterwards must leave the other as it was."""
    from cirbo.core.circuit import Circuit, gate as G
    from ..project import project as _p

    a, b = Circuit(), Circuit()
    for c in (a, b):
        c.add_inputs(['x', 'y'])
    shared = [G.Gate('g', G.AND, ('x', 'y')), G.Gate('u', G.XOR, ('g', 'x', 'g')), G.Gate('v', G.NOT, ('u',))]
    for g in shared:
        a.add_gate(g)
        b.add_gate(g)
    a.set_outputs(['v'])
    b.set_outputs(['v', 'g'])
    before = _p(b)
    exc = ''
    try:
        if src['which'] == 'rename':
            a.rename_gate('g', 'renamed')
        elif src['which'] == 'replace_inputs':
            a.replace_inputs(['x'], [])
        elif src['which'] == 'into_bench':
            a.emplace_gate('w', G.LT, ('g', 'u'))
            a.into_bench()
        elif src['which'] == 'remove':
            a.set_outputs(['u'])
            a.remove_gate('v')
    except Exception as e:
        exc = type(e).__name__
    return {'kind': 'same', 'what': f'{src["which"]}-in-one-circuit-changed-another-circuit-built-from-the-same-Gate-objects', 'a': before, 'b': _p(b),
            'exc': exc, 'src': src}


def record(src):
    if src['k'] == 'shared-gates':
        return _shared_gates(src)
    if src['k'] == 'deep':
        from .. import deep
        return deep.transform_case(PROP, src['what'], src, _deep_op(src['what']))
    if src['k'] == 'harvested':
        r = src['rec']
        step = {'act': r['act'], 'ret': r['ret'], 'post': r['post']}
        if 'exc' in r:
            step['exc'] = r['exc']
        return {'kind': 'hist', 'prop': 'C02H', 'init': r['pre'], 'steps': [step], 'src': {'k': 'harvested', 'rec': r, 'from': 'harvest'}}
    if src['k'] == 'hist':
        case = hist.run_history(src['acts'], PROP, init=src.get('init'))
    else:
        case = histgen.random_history(src['seed'], src['n'], PROP)
    case['src'] = src
    return case


def nontrivial(case):
    if case['kind'] in ('transformdeep', 'same'):
        return True
    return any(s['act']['a'] not in ('add_gate', 'mark_as_output') for s in case['steps'])


def features(case):
    if case['kind'] == 'transformdeep':
        return {'deep:' + case['what']}
    if case['kind'] == 'same':
        return {'shared-gate-objects'}
    seen = set()
    for s in case['steps']:
        a = s['act']
        seen.add(a['a'] + (':raised' if s['ret'] != 'ok' else ''))
        if a['a'] == 'connect' and s['ret'] == 'ok':
            seen.add('connect-right' if a['right'] else 'connect-left')
            if a['right'] and any(a['other']['g'][x]['t'] != 'INPUT' for x in a['oc']):
                seen.add('right-connect-to-internal-gate')
    seen.add('from-' + case['src']['from'])
    return seen
