"""C17 - shipped circuit databases are correct and lookups return the requested function."""
import itertools
import random

from ..project import project

PROP = 'C17'
LEVEL = 'exploration'
RULE = ('entries of the shipped AIG and XAIG databases (quick: every 1- and 2-output entry plus a seeded sample of 3-output entries; '
        'thorough: all 2 x 349,724): the RAW stored bytes are decoded by the TLA+ decoder Codec.DecodeBytes and by get_by_label, and TLC '
        'checks well-formedness, truth table = key and gate types within the basis; lookups of all fully defined tables with 2 inputs / '
        '1-2 outputs and 3 inputs / 1 output (incl. equal and complementary outputs) plus sampled 3-input 2-3-output tables; model lookups '
        'for all don\'t-care patterns of 2-input 1-output tables plus samples; non-trivial = entry / result with >= 1 non-input gate')
ASSUMPTIONS = ['whether the normalised table is stored is decided by an independent 8-line normalisation in the harness against the raw key set',
               'sizes of completions are measured with Circuit.gates_number() (default exclusion list), the result size by TLC on the projection']

_DB = {}


def _db(name):
    from cirbo.circuits_db.data_utils import DEFAULT_AIG_DB_PATH, DEFAULT_XAIG_DB_PATH
    from cirbo.circuits_db.db import CircuitsDatabase

    if name not in _DB:
        d = CircuitsDatabase(DEFAULT_AIG_DB_PATH if name == 'aig' else DEFAULT_XAIG_DB_PATH)
        d.open()
        _DB[name] = d
    return _DB[name]


def _keys(name):
    import lzma

    from cirbo.circuits_db.binary_dict_io import read_binary_dict
    from cirbo.circuits_db.data_utils import DEFAULT_AIG_DB_PATH, DEFAULT_XAIG_DB_PATH

    with lzma.open(DEFAULT_AIG_DB_PATH if name == 'aig' else DEFAULT_XAIG_DB_PATH, 'rb') as f:
        return read_binary_dict(f)


def design(tier, seed):
    from .. import tlc

    r = tlc.run_model('RoundTripLemmas', 'RoundTripLemmas.cfg', workers=8, tag='C17-lemma', xmx='4g')
    tlc.cleanup(r['workdir'])
    r2 = tlc.run_model('NormalizationLemmas', 'NormalizationLemmas.cfg', workers=8, tag='C17-norm', xmx='2g')
    tlc.cleanup(r2['workdir'])
    r['distinct'] += r2['distinct']
    r['generated'] += r2['generated']
    return {'states': r['distinct'], 'transitions': r['generated'],
            'runs': [f'RoundTripLemmas (the TLA+ decoder inverts the TLA+ encoder over U(2,2,15 types,2)) + NormalizationLemmas (Denorm(Norm(t)) = t for all 4368 tables with 2 inputs and <= 3 outputs): {r["distinct"]} states, {r["wall_s"]:.1f}s']}


def sources(tier, seed, ctx):
    rng = random.Random(seed + 17)
    srcs = []
    total = 0
    for name in ('aig', 'xaig'):
        d = _keys(name)
        keys = list(d.keys())
        small = [k for k in keys if k.count('_') < 2]
        big = [k for k in keys if k.count('_') >= 2]
        if tier == 'quick':
            rng.shuffle(big)
            sel = small + big[:3000]
        else:
            sel = keys
        total += len(sel)
        for j in range(0, len(sel), 200):
            srcs.append({'k': 'entries', 'db': name, 'keys': sel[j:j + 200]})
        ctx.setdefault('sizes', {})[name] = len(keys)
    ctx['exhaustive'] = tier != 'quick'
    tables = []
    for n, m in ((2, 1), (2, 2), (3, 1)):
        for bits in itertools.product((0, 1), repeat=m * 2 ** n):
            tables.append((n, [list(bits[o * 2 ** n:(o + 1) * 2 ** n]) for o in range(m)]))
    nsamp = 600 if tier == 'quick' else 20000
    for j in range(nsamp):
        m = rng.choice([2, 3, 3])
        tt = [[rng.randint(0, 1) for _ in range(8)] for _ in range(m)]
        if rng.random() < 0.25:
            tt[1] = list(tt[0])
        elif rng.random() < 0.25:
            tt[m - 1] = [1 - v for v in tt[0]]
        tables.append((3, tt))
    for name in ('aig', 'xaig'):
        for j in range(0, len(tables), 100):
            srcs.append({'k': 'lookups', 'db': name, 'tables': tables[j:j + 100]})
    models = [[list(p)] for p in itertools.product((0, 1, 2), repeat=4)]
    nm = 150 if tier == 'quick' else 4000
    for j in range(nm):
        n = rng.choice([2, 3])
        m = rng.choice([1, 2])
        mt = [[rng.choice([0, 1, 2]) for _ in range(2 ** n)] for _ in range(m)]
        # keep the number of don't-cares small: the lookup enumerates all completions
        dc = [(o, r) for o in range(m) for r in range(2 ** n) if mt[o][r] == 2]
        for (o, r) in dc[6:]:
            mt[o][r] = rng.randint(0, 1)
        models.append(mt)
    for name in ('aig', 'xaig'):
        for j in range(0, len(models), 40):
            srcs.append({'k': 'models', 'db': name, 'models': models[j:j + 40]})
    # many don't-cares (13 of 16 entries: 8192 completions, more than any batch an implementation might walk them in);
    # the defined entries are placed so that the smallest completion needs the FIRST don't-cares False / True
    for name in ('aig', 'xaig'):
        for j in range(3 if tier == 'quick' else 12):
            mt = [[2] * 8, [2] * 8]
            for pos, v in zip(rng.sample(range(16), 3), (rng.randint(0, 1), rng.randint(0, 1), rng.randint(0, 1))):
                mt[pos // 8][pos % 8] = v
            srcs.append({'k': 'models', 'db': name, 'models': [mt]})
        # ... three outputs, 13 don't-cares, and the very first don't-care decides: with it False (True) the first output is
        # a constant, otherwise it needs gates - the smallest completion lies in the first (last) half of the enumeration
        for first_rest in (0, 1):
            for j in range(1 if tier == 'quick' else 4):
                out2 = [2, 2, 2, 2] + [rng.randint(0, 1) for _ in range(4)]
                rng.shuffle(out2)
                srcs.append({'k': 'models', 'db': name, 'models': [[[2] + [first_rest] * 7, [2] * 8, out2]]})
    # the size measure of the don't-care lookup is a parameter (exclusion_list): the documented default, nothing
    # excluded, only inputs, and lists under which some stored circuits measure 0 (parity / conjunction gates free)
    EXCL = [[], ['INPUT'], ['INPUT', 'NOT', 'XOR', 'NXOR'], ['INPUT', 'AND', 'OR', 'NAND', 'NOR'], ['INPUT', 'NOT', 'IFF', 'AND']]
    for name in ('aig', 'xaig'):
        for e, excl in enumerate(EXCL):
            step = len(EXCL) * (2 if tier == 'quick' else 1)
            sub = models[e::step]
            for j in range(0, len(sub), 40):
                srcs.append({'k': 'models', 'db': name, 'models': sub[j:j + 40], 'excl': excl})
    ctx['gen_note'] = f'{total} database entries ({ctx["sizes"]}), {len(tables)} tables x 2 databases, {len(models)} models x 2 databases'
    return srcs


def _rows(bits):
    return [r for r, v in enumerate(bits) if v]


def _normal_label(tt):
    rows = [[1 - v for v in t] if t[0] else list(t) for t in tt]
    rows.sort()
    ded = []
    for t in rows:
        if not ded or ded[-1] != t:
            ded.append(t)
    return '_'.join(''.join(str(v) for v in t) for t in ded)


def record(src):
    from cirbo.core.logic import DontCare

    try:
        db = _db(src['db'])
    except Exception as e:
        # the shipped database cannot even be opened: every statement about its entries fails
        return {'kind': 'same', 'what': 'shipped-database-opens:' + type(e).__name__, 'a': 0, 'b': 1, 'exc': type(e).__name__, 'src': src}
    raw = db._dict  # the stored bytes themselves are the object under test (finite shipped data set)
    out = []
    if src['k'] == 'entries':
        for key in src['keys']:
            parts = key.split('_')
            n = len(parts[0]).bit_length() - 1
            case = {'kind': 'dbentry', 'db': src['db'], 'n': n, 'key': [_rows([ch == '1' for ch in p]) for p in parts],
                    'bytes': list(raw[key]), 'py_exc': '', 'label': key, 'src': {'k': 'entries', 'db': src['db'], 'keys': [key]}}
            try:
                case['py'] = project(db.get_by_label(key))
            except Exception as e:
                case['py_exc'] = type(e).__name__
                case['py'] = {'g': {}, 'ord': [], 'i': [], 'o': [], 'u': {}, 'b': {}}
            out.append(case)
        return out
    if src['k'] == 'lookups':
        for n, tt in src['tables']:
            case = {'kind': 'lookup', 'db': src['db'], 'n': n, 'tt': [_rows(t) for t in tt], 'exc': '', 'found': False,
                    'present': _normal_label(tt) in raw, 'norm_key': [_rows([ch == '1' for ch in part]) for part in _normal_label(tt).split('_')], 'src': {'k': 'lookups', 'db': src['db'], 'tables': [[n, tt]]}}
            try:
                rows = [[bool(v) for v in t] for t in tt]
                # the documented argument type is Sequence[Sequence[bool]]: rows may be tuples
                shape = (sum(map(sum, tt)) + len(tt)) % 3
                arg = rows if shape == 0 else [tuple(r_) for r_ in rows] if shape == 1 else tuple(tuple(r_) for r_ in rows)
                case['rows_as'] = ['lists', 'tuples', 'tuple-of-tuples'][shape]
                res = db.get_by_raw_truth_table(arg)
                if res is not None:
                    case['found'] = True
                    case['res'] = project(res)
            except Exception as e:
                case['exc'] = type(e).__name__
            out.append(case)
        return out
    if src['k'] == 'models':
        for mt in src['models']:
            n = len(mt[0]).bit_length() - 1
            case = {'kind': 'mlookup', 'db': src['db'], 'n': n, 'mtt': mt, 'exc': '', 'found': False, 'comp_sizes': [],
                    'src': {'k': 'models', 'db': src['db'], 'models': [mt]}}
            kw = {}
            excl_types = None
            if 'excl' in src:
                from cirbo.core.circuit import gate as G
                excl_types = [getattr(G, t) for t in src['excl']]
                kw = {'exclusion_list': excl_types}
                case['excl'] = list(src['excl'])
                case['src']['excl'] = list(src['excl'])
            try:
                model = [[DontCare if v == 2 else bool(v) for v in t] for t in mt]
                # every third model arrives deep-copied / pickled: its markers are equal to DontCare, not identical
                how = sum(map(sum, mt)) % 3
                if how == 1:
                    import copy as _copy
                    model = _copy.deepcopy(model)
                    case['model_via'] = 'deepcopy'
                elif how == 2 and len(mt[0]) >= 8:
                    import pickle as _pickle
                    model = _pickle.loads(_pickle.dumps(model))
                    case['model_via'] = 'pickle'
                res = db.get_by_raw_truth_table_model(model, **kw)
                if sum(map(sum, mt)) % 2 == 0:
                    # the caller looks the SAME model object up again (its table must not have been touched)
                    res = db.get_by_raw_truth_table_model(model, **kw)
                    case['asked_twice'] = True
                if res is not None:
                    case['found'] = True
                    case['res'] = project(res)
                dc = [(o, r) for o in range(len(mt)) for r in range(len(mt[0])) if mt[o][r] == 2]
                for sub in itertools.product((0, 1), repeat=len(dc)):
                    full = [list(t) for t in mt]
                    for (o, r), v in zip(dc, sub):
                        full[o][r] = v
                    c2 = db.get_by_raw_truth_table([[bool(v) for v in t] for t in full])
                    case['comp_sizes'].append((c2.gates_number(excl_types) if excl_types is not None else c2.gates_number()) if c2 is not None else -1)
            except Exception as e:
                case['exc'] = type(e).__name__
            out.append(case)
        return out
    raise ValueError(src)


def nontrivial(case):
    if case['kind'] == 'dbentry':
        return len(case['bytes']) > 3
    return bool(case.get('found'))


def features(case):
    if case['kind'] == 'same':
        yield 'database-did-not-open'
        return
    yield case['kind'] + ':' + case['db']
    if case['kind'] == 'lookup':
        yield 'found' if case['found'] else 'absent'
    if case['kind'] == 'dbentry':
        yield f'outputs={len(case["key"])}'
