"""C16 - the database codec never silently changes a circuit."""
import io
import itertools
import random

from .. import gen
from ..project import project
from .c01 import build

PROP = 'C16'
LEVEL = 'model_checking'
FORMAT_TYPES = ['NOT', 'AND', 'OR', 'NOR', 'NAND', 'XOR', 'NXOR', 'IFF', 'GEQ', 'GT', 'LEQ', 'LT', 'ALWAYS_TRUE', 'ALWAYS_FALSE']
RULE = ('circuits: TLC-enumerated universes restricted to the format (14 types, binary arity; 0-3 inputs incl. zero-input and '
        'zero-output circuits, shuffled storage order) which must encode and decode, and universes with n-ary gates and L*/R* types '
        'which must either raise a codec error or round-trip; each encode_circuit result is decoded by decode_circuit AND by the '
        'independent TLA+ decoder Codec.DecodeBytes; CircuitsDatabase add/save/open/get_by_label on a sample; bit-level and '
        'dictionary-level writer/reader pairs on seeded values (non-ASCII keys, empty values, 2-byte length boundary, every truncation, '
        'trailing bytes); non-trivial = circuit has a non-input gate / non-empty item list')
ASSUMPTIONS = ['"same circuit up to renaming" = equal counts, equal output truth tables and equal bag of gate truth tables',
               'byte-level fidelity is judged through the decoded meaning (TLA+ Codec), the specification is not a serializer test']


def design(tier, seed):
    from .. import tlc

    r = tlc.run_model('RoundTripLemmas', 'RoundTripLemmas.cfg', workers=8, tag='C16-lemma', xmx='4g')
    tlc.cleanup(r['workdir'])
    return {'states': r['distinct'], 'transitions': r['generated'],
            'runs': [f'RoundTripLemmas (Decode(Encode(c)) ~ c for the TLA+ codec over all netlists of U(2,2,15 types,2)): {r["distinct"]} states, {r["wall_s"]:.1f}s']}


def sources(tier, seed, ctx):
    rng = random.Random(seed + 16)
    srcs = []
    ctx['gen_states'] = 0
    ctx['gen_transitions'] = 0
    note = []
    plans = [(2, 2, FORMAT_TYPES, 2, 5000), (0, 2, FORMAT_TYPES, 2, 400), (1, 3, ['NOT', 'AND', 'XOR', 'ALWAYS_FALSE', 'GEQ'], 2, 1500),
             (2, 2, gen.ALL18, 3, 2500)]
    if tier != 'quick':
        plans = [(2, 2, FORMAT_TYPES, 2, 10**9), (0, 3, ['ALWAYS_TRUE', 'ALWAYS_FALSE', 'NOT', 'AND', 'XOR'], 2, 10**9), (3, 2, FORMAT_TYPES, 2, 40000),
                 (1, 3, ['NOT', 'AND', 'XOR', 'ALWAYS_FALSE', 'GEQ'], 2, 10**9), (2, 2, gen.ALL18, 3, 10**9)]
    for pi, (ni, ng, types, amax, take) in enumerate(plans):
        nets, st = gen.universe(ni, ng, types, amax, tag=f'C16-U{pi}')
        ctx['gen_states'] += st['distinct']
        ctx['gen_transitions'] += st['generated']
        rng.shuffle(nets)
        note.append(f'U({ni},{ng},{len(types)} types,{amax})={len(nets)} (replayed {min(take, len(nets))})')
        for n, net in enumerate(nets[:take]):
            r = random.Random(seed * 17 + n + pi * 1000003)
            outs = gen.pick_outputs(r, net[0], len(net[1]), kind=['last', 'some', 'dup', 'withinput', 'none', 'many'][n % 6])
            outs = [o for o in outs if o >= 1]
            variant = 'shuffle' if (n % 3 == 1 and ni + len(net[1]) > 0) else 'interleave' if (n % 3 == 2 and len(net[1]) > 0) else 'plain'
            if n % 2 == 0:
                # in this format constants carry two (ignored) operands
                net = (net[0], [(t, [r.randint(1, net[0] + k), r.randint(1, net[0] + k)] if t in gen.NULLARY and net[0] + k >= 1 else ops)
                                for k, (t, ops) in enumerate(net[1])])
                if any(t in gen.NULLARY and ops for t, ops in net[1]):
                    variant = 'plain'
            srcs.append({'k': 'codec', 'net': [net[0], net[1]], 'outs': outs, 'variant': variant, 'vs': n + seed, 'db': n % 9 == 0})
    # circuits that carry the labels the DECODER generates (gate_0, gate_1, ...) - what a caller holds after reading a
    # circuit back - with the inputs declared in another order than their numbers, asymmetric gates on top
    for j, perm in enumerate(itertools.permutations(range(3))):
        for t in ('GT', 'LEQ', 'AND'):
            names = [f'gate_{perm[k]}' for k in range(3)] + ['gate_3', 'gate_4']
            srcs.append({'k': 'codec', 'net': [3, [[t, [1, 2]], ['LT', [4, 3]]]], 'outs': [5, 4, 1], 'variant': 'plain', 'vs': j, 'db': j % 2 == 0,
                         'labels': names})
    # ... and the history itself: encoded, decoded, the decoded circuit's inputs reordered, encoded again
    for j in range(12 if tier == 'quick' else 100):
        ni = rng.choice([2, 3, 3, 4])
        net = gen.random_netlist(rng, ni=ni, ng=rng.randint(1, 6), types=['AND', 'GT', 'LT', 'XOR', 'NOT', 'GEQ', 'OR'], amax=2)
        srcs.append({'k': 'codec', 'net': [net[0], net[1]], 'outs': [ni + len(net[1])], 'variant': 'plain', 'vs': j, 'db': False, 'reencode': True})
    # size boundaries of the word-size computation: gate-free circuits and short NOT chains whose input / gate /
    # output counts sit at powers of two (and next to them), with fewer, as many and more outputs than inputs
    for ni in range(1, 10):
        for ng in (0, 1, 2, 3, 4, 7, 8, 9) if tier != 'quick' else (0, 1, 2, 3, 4, 8):
            if ni + ng > 16:
                continue
            for no in sorted({0, 1, ni // 2, ni - 1, ni, ni + 1, 2 * ni}):
                gs = [('NOT', [rng.randint(1, ni + k)]) for k in range(ng)]
                outs = [rng.randint(1, ni + ng) for _ in range(no)]
                srcs.append({'k': 'codec', 'net': [ni, gs], 'outs': outs, 'variant': 'plain', 'vs': ni * 100 + ng, 'db': (ni + ng + no) % 4 == 0, 'boundary': True})
    note.append('size-boundary circuits (1..9 inputs, 0..9 NOT gates, 0..2n outputs)')
    # deep circuits: one path longer than the interpreter's recursion limit, stored in and against topological order
    for depth in ([1200] if tier == 'quick' else [1200, 3000]):
        for storage in ('built', 'reversed'):
            srcs.append({'k': 'codecdeep', 'depth': depth, 'storage': storage})
    # counts at and around the powers of two of the format's word size (254 .. 258 nodes, 510 .. 514, 1022 .. 1026) and
    # hundreds of output positions
    for total in ([254, 255, 256, 257, 258, 511, 512, 513] if tier == 'quick' else [254, 255, 256, 257, 258, 510, 511, 512, 513, 514, 1022, 1023, 1024, 1025, 1026]):
        srcs.append({'k': 'codecdeep', 'depth': total - 2, 'storage': 'built'})
    for nouts in ([255, 256, 300] if tier == 'quick' else [127, 128, 255, 256, 257, 300, 1000]):
        srcs.append({'k': 'codecdeep', 'depth': 40, 'storage': 'built', 'nouts': nouts})
        srcs.append({'k': 'codecdeep', 'depth': 300, 'storage': 'reversed', 'nouts': nouts})
    note.append('chains of 1200 gates (kind codecdeep)')
    nrand = 300 if tier == 'quick' else 5000
    for j in range(nrand):
        net = gen.random_netlist(rng, ni=rng.randint(0, 5), ng=rng.randint(1, 25), types=FORMAT_TYPES if j % 3 else gen.ALL18, amax=2 if j % 3 else 4)
        srcs.append({'k': 'codec', 'net': [net[0], net[1]], 'outs': gen.pick_outputs(rng, net[0], len(net[1])), 'variant': rng.choice(['plain', 'shuffle']), 'vs': rng.randrange(10**6), 'db': j % 5 == 0})
    for j in range(150 if tier == 'quick' else 3000):
        srcs.append({'k': 'bitio', 'seed': rng.randrange(10**9)})
    for j in range(150 if tier == 'quick' else 2000):
        srcs.append({'k': 'dict', 'seed': rng.randrange(10**9)})
    for kl, vl in [(32767, 3), (32768, 3), (65535, 1), (4, 32767), (4, 32768), (4, 65535), (40000, 50000)]:
        srcs.append({'k': 'dict', 'seed': rng.randrange(10**9), 'long': [kl, vl]})
    ctx['gen_note'] = '; '.join(note)
    return srcs


def probes():
    return []


def record(src):
    from cirbo.circuits_db import binary_dict_io, bit_io
    from cirbo.circuits_db.circuits_encoding import decode_circuit, encode_circuit
    from cirbo.circuits_db.db import CircuitsDatabase
    from cirbo.circuits_db.exceptions import BinaryDictIOError, BitIOError, CircuitsDatabaseError

    if src['k'] == 'codecdeep':
        from cirbo.core.circuit import Circuit, gate as G

        n = src['depth']
        gates = [(f'g{k}', 'XOR' if k % 2 else 'NOT', ((f'g{k - 1}', 'y') if k % 2 else (f'g{k - 1}' if k else 'x',))) for k in range(n)]
        outs = [f'g{n - 1}', f'g{n // 2}', 'y']
        if src.get('nouts'):
            outs = [f'g{(7 * j) % n}' if j % 5 else 'x' for j in range(src['nouts'])]      # many output positions, repeats included
        if src.get('storage') == 'reversed':
            text = 'INPUT(x)\nINPUT(y)\n' + '\n'.join(f'{l} = {t}({", ".join(o)})' for l, t, o in reversed(gates)) + '\n' + ''.join(f'OUTPUT({o})\n' for o in outs)
            c = Circuit.from_bench_string(text)
        else:
            c = Circuit()
            c.add_inputs(['x', 'y'])
            for l, t, o in gates:
                c.emplace_gate(l, getattr(G, t), o)
            c.set_outputs(outs)
        case = {'kind': 'codecdeep', 'c': project(c, users=False, blocks=False), 'order': ['x', 'y'] + [g[0] for g in gates],
                'enc_exc': '', 'enc_dberr': False, 'dec_exc': '', 'src': src}
        try:
            data = encode_circuit(c)
        except Exception as e:
            case['enc_exc'] = type(e).__name__
            case['enc_dberr'] = isinstance(e, CircuitsDatabaseError)
            return case
        try:
            dec = decode_circuit(data)
            case['dec'] = project(dec, users=False, blocks=False)
            case['dec_order'] = [g.label for g in dec.top_sort(inverse=True)]
        except Exception as e:
            case['dec_exc'] = type(e).__name__
            case['dec'] = case['c']
            case['dec_order'] = case['order']
        return case
    if src['k'] == 'codec':
        c = build(src)
        case = {'kind': 'codec', 'c': project(c), 'enc_exc': '', 'enc_dberr': False, 'bytes': [], 'dec_exc': '', 'src': src}
        try:
            data = encode_circuit(c)
            case['bytes'] = list(data)
        except Exception as e:
            case['enc_exc'] = type(e).__name__
            case['enc_dberr'] = isinstance(e, CircuitsDatabaseError)
            return case
        try:
            decoded = decode_circuit(data)
            case['dec'] = project(decoded)
        except Exception as e:
            decoded = None
            case['dec_exc'] = type(e).__name__
            case['dec'] = case['c']
        if src.get('reencode') and decoded is not None and decoded.input_size >= 2:
            # the decoded circuit (decoder-generated labels) with its inputs in another order is a circuit like any other
            try:
                order = list(decoded.inputs)
                order = order[1:] + order[:1]
                decoded.set_inputs(order)
                second = {'kind': 'codec', 'c': project(decoded), 'enc_exc': '', 'enc_dberr': False, 'bytes': [], 'dec_exc': '',
                          'src': dict(src, second=True)}
                try:
                    data2 = encode_circuit(decoded)
                    second['bytes'] = list(data2)
                    try:
                        second['dec'] = project(decode_circuit(data2))
                    except Exception as e:
                        second['dec_exc'] = type(e).__name__
                        second['dec'] = second['c']
                except Exception as e:
                    second['enc_exc'] = type(e).__name__
                    second['enc_dberr'] = isinstance(e, CircuitsDatabaseError)
                return [case, second]
            except Exception:
                pass
        if src.get('db'):
            case['db_exc'] = ''
            try:
                db = CircuitsDatabase()
                db.open()
                db.add_circuit(c, label='é-label' if src['vs'] % 2 else 'plain_label')
                stream = io.BytesIO()
                db.save(stream)
                db.close()
                how = (src['vs'] // 2) % 3      # reopened from memory, from a .bin path, from an .xz path given as str
                if how == 0:
                    db2 = CircuitsDatabase(io.BytesIO(stream.getvalue()))
                    db2.open()
                    back = db2.get_by_label('é-label' if src['vs'] % 2 else 'plain_label')
                else:
                    import lzma
                    import pathlib
                    import tempfile

                    with tempfile.TemporaryDirectory() as td:
                        if how == 1:
                            path = pathlib.Path(td) / 'db.bin'
                            path.write_bytes(stream.getvalue())
                        else:
                            path = str(pathlib.Path(td) / 'db.bin.xz')
                            with lzma.open(path, 'wb') as f:
                                f.write(stream.getvalue())
                        with CircuitsDatabase(path) as db2:
                            back = db2.get_by_label('é-label' if src['vs'] % 2 else 'plain_label')
                            if back is not None and src['vs'] % 4 >= 2:
                                # the caller edits what it was given and asks again: the answer must not have changed
                                try:
                                    back.set_outputs(list(back.outputs)[:-1] if back.outputs else list(back.gates)[:1])
                                except Exception:
                                    pass
                                back = db2.get_by_label('é-label' if src['vs'] % 2 else 'plain_label')
                case['db_back'] = project(back) if back is not None else case['c']
                if back is None:
                    case['db_exc'] = 'label-not-found'
            except Exception as e:
                case['db_exc'] = type(e).__name__
                case['db_back'] = case['c']
        return case
    r = random.Random(src['seed'])
    if src['k'] == 'bitio':
        items = []
        for _ in range(r.randint(1, 12)):
            w = r.choice([1, 2, 3, 4, 7, 8, 9, 16, 31, 33, 40])
            v = r.getrandbits(w) if r.random() < 0.8 else r.choice([0, (1 << w) - 1])
            items.append((v, w))
        case = {'kind': 'bitio', 'items': [{'bits': [(v >> k) & 1 for k in range(w)], 'w': w} for v, w in items], 'exc': '', 'back': [], 'oversize_rejected': True, 'src': src}
        try:
            wr = bit_io.BitWriter()
            for v, w in items:
                wr.write_number(v, w)
            data = bytes(wr)
            rd = bit_io.BitReader(data)
            back = [rd.read_number(w) for _, w in items]
            case['back'] = [[(v >> k) & 1 for k in range(w)] for v, (_, w) in zip(back, items)]
            case['bytes'] = list(data)
        except Exception as e:
            case['exc'] = type(e).__name__
        try:
            w = r.choice([1, 3, 8])
            bit_io.BitWriter().write_number(1 << w, w)
            case['oversize_rejected'] = False
        except BitIOError:
            pass
        except Exception:
            case['oversize_rejected'] = False
        return case
    if src['k'] == 'dict':
        alphabet = 'ab_01 éßЖ中\U0001f600'
        d = {}
        for _ in range(r.randint(0, 5)):
            kind = r.random()
            if kind < 0.1:
                key = ''
            elif kind < 0.2:
                key = ''.join(r.choice('abé') for _ in range(r.choice([255, 256, 300])))
            else:
                key = ''.join(r.choice(alphabet) for _ in range(r.randint(1, 8)))
            d[key] = bytes(r.getrandbits(8) for _ in range(r.choice([0, 1, 2, 5, 255, 256, 300])))
        if src.get('long'):
            # length prefixes are two bytes: keys / values of 2^15 - 1, 2^15 and 2^16 - 1 bytes
            kl, vl = src['long']
            d['k' * kl] = bytes(r.getrandbits(8) for _ in range(vl))

        def short(seq):
            """long keys / values are compared through their length and a digest (16-bit pieces: TLC integers)"""
            seq = list(seq)
            if len(seq) <= 600:
                return seq
            import hashlib

            h = hashlib.sha1(bytes(str(seq), 'utf8')).digest()
            return [-1, len(seq) % 30000, len(seq) // 30000] + [h[j] * 256 + h[j + 1] for j in range(0, 12, 2)]
        enc = lambda dd: [{'k': short(ord(ch) for ch in k), 'v': short(v)} for k, v in dd.items()]
        case = {'kind': 'dict', 'd': enc(d), 'back': [], 'exc': '', 'trunc': [], 'ext': [], 'src': src}
        try:
            stream = io.BytesIO()
            binary_dict_io.write_binary_dict(d, stream)
            data = stream.getvalue()
            case['back'] = enc(binary_dict_io.read_binary_dict(io.BytesIO(data)))
        except Exception as e:
            case['exc'] = type(e).__name__
            return case
        # the same rejections through the database object (an image read from memory)
        for bad_image in (data[:max(0, len(data) - 1)], data + b'\x00'):
            try:
                dbx = CircuitsDatabase(io.BytesIO(bad_image))
                dbx.open()
                (case['trunc'] if len(bad_image) < len(data) else case['ext']).append('ok')
            except Exception as e:
                (case['trunc'] if len(bad_image) < len(data) else case['ext']).append(type(e).__name__)
        cuts = sorted(set([0, 1, 7, 8, 9, len(data) - 1] + [r.randrange(len(data)) for _ in range(6)]))
        for cut in cuts:
            if 0 <= cut < len(data):
                try:
                    binary_dict_io.read_binary_dict(io.BytesIO(data[:cut]))
                    case['trunc'].append('ok')
                except Exception as e:
                    case['trunc'].append(type(e).__name__)
        for extra in (b'\x00', b'\x00' * 9, bytes([r.getrandbits(8) for _ in range(3)])):
            try:
                binary_dict_io.read_binary_dict(io.BytesIO(data + extra))
                case['ext'].append('ok')
            except Exception as e:
                case['ext'].append(type(e).__name__)
        return case
    raise ValueError(src)


def nontrivial(case):
    if case['kind'] == 'codec':
        return any(g['t'] != 'INPUT' for g in case['c']['g'].values())
    return bool(case.get('items') or case.get('d'))


def features(case):
    yield case['kind']
    if case['kind'] == 'codec':
        c = case['c']
        yield 'encoded' if not case['enc_exc'] else 'rejected:' + case['enc_exc']
        if not c['i']:
            yield 'zero-inputs'
        if not c['o']:
            yield 'zero-outputs'
        if any(g['t'] in ('ALWAYS_TRUE', 'ALWAYS_FALSE') for g in c['g'].values()):
            yield 'constant'
        pos = {l: n for n, l in enumerate(c['ord'])}
        if any(pos[o] > pos[l] for l, g in c['g'].items() for o in g['o']):
            yield 'non-topological-storage'
        if any(len(g['o']) > 2 for g in c['g'].values()):
            yield 'nary>2'
    if case['kind'] == 'dict' and any(any(x > 127 for x in e['k']) for e in case['d']):
        yield 'non-ascii-key'
