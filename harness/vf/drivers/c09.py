"""C09 - subtraction, division, sqrt, comparison and gadget generators are exact."""
import random

from ..project import project
from . import _arith as A

PROP = 'C09'
LEVEL = 'exploration'
RULE = ('generator calls on ALL operand values: subtraction for all (n,m) <= (4,4) (thorough (6,6)), subtract-with-compare incl. unequal lengths, '
        'div-mod n <= 4 (5) incl. b = 0, sqrt n <= 8 (10), the equality gadget n <= 5 x every constant 0..2^(n+1), plus-one for all '
        '(inp_len, out_len) <= (4,6) through generate_plus_one AND add_plus_one with add_outputs in {F,T} / result_labels given or not, '
        'if-then-else and the pairwise xor / if-then-else gadgets; both endiannesses; operands = primary inputs or arbitrary (repeated) '
        'gates of random host circuits; TLC judges the arithmetic identities on integers, outputs extended iff asked, returned labels '
        'exist, pre-existing gates keep their function; non-trivial = gates were added')
ASSUMPTIONS = ['subtract-with-compare result has max(len a, len b) bits and is judged modulo 2^len(result)',
               'negative constants for the equality gadget are not generated (DESIGN 6)']


def _h(rng, p=0.4):
    return {'seed': rng.randrange(10**6), 'ni': rng.randint(3, 4), 'ng': rng.randint(3, 6)} if rng.random() < p else None


def design(tier, seed):
    from .. import tlc

    r = tlc.run_model('ArithLemmas', 'ArithLemmas.cfg', workers=8, tag='C09-lemma', xmx='4g')
    tlc.cleanup(r['workdir'])
    r2 = tlc.run_model('ArithAlgoLemmas', 'ArithAlgoLemmas.cfg', workers=8, tag='C09-algo', xmx='4g')
    tlc.cleanup(r2['workdir'])
    return {'states': r['distinct'] + r2['distinct'], 'transitions': r['generated'] + r2['generated'],
            'runs': [f'ArithLemmas (bit-sequence add/shift/mul/compare/sqrt = integer arithmetic, all a,b < 32): {r["distinct"]} states, {r["wall_s"]:.1f}s',
                     f'ArithAlgoLemmas (algorithm-level netlist builders: the MDFA/Stockmeyer bit-count machine keeps its level invariant at every step for '
                     f'n <= 9 in both bases, ends with the minimal number of bits within the documented gate bound, terminates; adders, subtractors, '
                     f'restoring division n <= 4, digit square root n <= 8, plus-one and equality gadgets satisfy their identities on every operand '
                     f'value): {r2["distinct"]} states, {r2["wall_s"]:.1f}s']}


def sources(tier, seed, ctx):
    rng = random.Random(seed + 9)
    srcs = []
    w = 4 if tier == 'quick' else 6
    for n in range(1, w + 1):
        for m in range(1, w + 1):
            for big in (False, True):
                srcs.append({'fn': 'sub', 'n': n, 'm': m, 'big': big, 'gen': (n + m) % 2 == 0, 'host': _h(rng) if (n + m) % 2 else None})
                srcs.append({'fn': 'subc', 'n': n, 'm': m, 'big': big, 'host': _h(rng, 0.3)})
    # operands beyond 32 / 64 bits (sampled operand values; judged on bit sequences)
    for n, m in ([(33, 33), (64, 64), (65, 40), (20, 70)] if tier == 'quick' else [(31, 31), (32, 32), (33, 33), (63, 64), (64, 64), (65, 40), (20, 70), (100, 100)]):
        for big in (False, True):
            srcs.append({'fn': 'sub', 'n': n, 'm': m, 'big': big, 'gen': True, 'host': None})
            srcs.append({'fn': 'subc', 'n': n, 'm': m, 'big': big, 'host': None})
    for n in range(1, (4 if tier == 'quick' else 5) + 1):
        for big in (False, True):
            srcs.append({'fn': 'divmod', 'n': n, 'big': big, 'gen': True, 'host': None})
            srcs.append({'fn': 'divmod', 'n': n, 'big': big, 'gen': False, 'host': _h(rng, 0.6) if n <= 3 else None})
    for n in range(1, (8 if tier == 'quick' else 10) + 1):
        for big in (False, True):
            srcs.append({'fn': 'sqrt', 'n': n, 'big': big, 'gen': n % 2 == 0, 'host': _h(rng, 0.5) if n % 2 and n <= 5 else None})
    for n in range(1, (5 if tier == 'quick' else 6) + 1):
        for num in range(0, 2 ** (n + 1) + 1):
            if tier == 'quick' and n >= 4 and num % 3:
                continue
            srcs.append({'fn': 'eq', 'n': n, 'num': num, 'gen': num % 2 == 0, 'host': _h(rng, 0.4) if num % 2 else None})
            if n >= 2 and num < 2 ** n:
                srcs.append({'fn': 'eq', 'n': n, 'num': num, 'gen': False, 'host': None, 'rep': True})
    # wide equality gadgets: constants next to the powers of two of the operand width (and just beyond it)
    for n in ([33, 49, 52, 64] if tier == 'quick' else [31, 32, 33, 48, 49, 52, 53, 63, 64, 65, 100]):
        for num in (2 ** n - 1, 2 ** n - 2, 2 ** (n - 1), 2 ** n, 2 ** n + 1, 5):
            srcs.append({'fn': 'eq', 'n': n, 'num': num, 'gen': True, 'host': None})
    for il in range(1, (4 if tier == 'quick' else 5) + 1):
        for ol in range(1, (6 if tier == 'quick' else 7) + 1):
            for big in (False, True):
                srcs.append({'fn': 'inc', 'il': il, 'ol': ol, 'big': big, 'gen': True, 'host': None})
                for add_outputs in (False, True):
                    srcs.append({'fn': 'inc', 'il': il, 'ol': ol, 'big': big, 'gen': False, 'add_outputs': add_outputs,
                                 'given_labels': (il + ol) % 2 == 0, 'host': _h(rng, 0.6)})
    # the operand is the circuit's own (live) output list and the results are marked as outputs while it is being read
    for il in (1, 2, 3):
        for ol in (il, il + 1, il + 3):
            for big in (False, True):
                srcs.append({'fn': 'inc', 'il': il, 'ol': ol, 'big': big, 'gen': False, 'add_outputs': True, 'given_labels': bool(ol % 2), 'host': None, 'live': True})
                srcs.append({'fn': 'inc', 'il': il, 'ol': ol, 'big': big, 'gen': False, 'add_outputs': True, 'given_labels': False,
                             'host': {'seed': rng.randrange(10**6), 'ni': 3, 'ng': 5}, 'live': True})
    # operand lists shared between calls: the same list object as both operands, then reused
    for fnn in ('sub', 'subc', 'divmod'):
        for n in (1, 2, 3):
            for big in (False, True):
                srcs.append({'fn': 'alias', 'which': fnn, 'n': n, 'big': big, 'host': _h(rng, 0.3)})
    for j in range(8 if tier == 'quick' else 60):
        srcs.append({'fn': 'ite', 'gen': j == 0, 'add_outputs': bool(j % 2), 'host': _h(rng, 0.9) if j else None})
    for n in range(1, 4):
        for add_outputs in (False, True):
            srcs.append({'fn': 'pxor', 'n': n, 'gen': False, 'add_outputs': add_outputs, 'host': _h(rng, 0.6)})
            srcs.append({'fn': 'pite', 'n': n, 'gen': False, 'add_outputs': add_outputs, 'host': _h(rng, 0.6)})
        srcs.append({'fn': 'pxor', 'n': n, 'gen': True, 'host': None})
        srcs.append({'fn': 'pite', 'n': n, 'gen': True, 'host': None})
    # a third of the little-endian calls do not pass big_endian at all (the documented default is little-endian)
    # - counted per entry point (function x generate_/add_ form), so that every entry point is called without it
    seen = {}
    for s_ in srcs:
        if s_.get('big') is False:
            key = (s_['fn'], s_.get('which'), bool(s_.get('gen')))
            seen[key] = seen.get(key, 0) + 1
            if seen[key] % 3 == 1:
                s_['big'] = None
    ctx['gen_note'] = f'{len(srcs)} generator calls'
    return srcs


def probes():
    return [{'fn': 'inc', 'il': 2, 'ol': 3, 'big': False, 'gen': False, 'add_outputs': False, 'given_labels': False, 'host': None, 'probe': 'add-plus-one-outputs'},
            {'fn': 'subc', 'n': 2, 'm': 1, 'big': True, 'host': None, 'probe': 'subtract-with-compare-big-endian-padding'}]


def _ao(src):
    """add_outputs keyword; when it is False every other call leaves it out (the documented default is False)"""
    if not src['add_outputs'] and src.get('host') is None:
        return {}
    return {'add_outputs': src['add_outputs']}


def _fresh_pre(c):
    return {'g': {l: {'t': 'INPUT', 'o': []} for l in c.inputs}, 'ord': list(c.inputs), 'i': list(c.inputs), 'o': [], 'u': {}, 'b': {}}


def _record(src):
    from cirbo.synthesis.generation import arithmetics as ar
    from cirbo.synthesis.generation import generation as gg

    rng = random.Random(hash(str(sorted((k, str(v)) for k, v in src.items()))) & 0xffffff)
    fn = src['fn']
    case = A.base_case(src, PROP, fn)
    big = src.get('big', False)
    try:
        if fn == 'sub':
            n, m = src['n'], src['m']
            if src['gen'] and not src.get('host'):
                c = ar.generate_sub_two_numbers(n, m, **A.bkw(big))
                pre = _fresh_pre(c)
                a, b, res, om = list(c.inputs[:n]), list(c.inputs[n:]), list(c.outputs), 'set'
            else:
                c, ops = A.make_host(src, n + m)
                pre = project(c)
                a, b = ops[:n], ops[n:]
                res, om = ar.add_sub_two_numbers(c, list(a), list(b), **A.bkw(big)), 'same'
            checks = [{'op': 'sub', 'a': A.le(a, big), 'b': A.le(b, big), 'out': A.le(res, big), 'borrow': ''}]
            return A.finish(case, c, pre, rng, res, checks, om, res if om == 'set' else [])
        if fn == 'subc':
            n, m = src['n'], src['m']
            c, ops = A.make_host(src, n + m)
            pre = project(c)
            a, b = ops[:n], ops[n:]
            res, flag = ar.add_subtract_with_compare(c, list(a), list(b), **A.bkw(big))
            checks = [{'op': 'subc', 'a': A.le(a, big), 'b': A.le(b, big), 'out': A.le(res, big), 'borrow': flag}]
            return A.finish(case, c, pre, rng, list(res) + [flag], checks, 'same', [])
        if fn == 'alias':
            n, which = src['n'], src['which']
            c, ops = A.make_host(src, 2 * n)
            pre = project(c)
            a, b = list(ops[:n]), list(ops[n:])
            a0, b0 = list(a), list(b)
            if which == 'sub':
                r1 = ar.add_sub_two_numbers(c, a, a, **A.bkw(big))
                r2 = ar.add_sub_two_numbers(c, a, b, **A.bkw(big))
                checks = [{'op': 'sub', 'a': A.le(a0, big), 'b': A.le(a0, big), 'out': A.le(r1, big), 'borrow': ''},
                          {'op': 'sub', 'a': A.le(a0, big), 'b': A.le(b0, big), 'out': A.le(r2, big), 'borrow': ''}]
                ret = list(r1) + list(r2)
            elif which == 'subc':
                r1, f1 = ar.add_subtract_with_compare(c, a, a, **A.bkw(big))
                r2, f2 = ar.add_subtract_with_compare(c, a, b, **A.bkw(big))
                checks = [{'op': 'subc', 'a': A.le(a0, big), 'b': A.le(a0, big), 'out': A.le(r1, big), 'borrow': f1},
                          {'op': 'subc', 'a': A.le(a0, big), 'b': A.le(b0, big), 'out': A.le(r2, big), 'borrow': f2}]
                ret = list(r1) + list(r2) + [f1, f2]
            else:
                q1, m1 = ar.add_div_mod(c, a, a, **A.bkw(big))
                q2, m2 = ar.add_div_mod(c, a, b, **A.bkw(big))
                checks = [{'op': 'divmod', 'a': A.le(a0, big), 'b': A.le(a0, big), 'q': A.le(q1, big), 'r': A.le(m1, big)},
                          {'op': 'divmod', 'a': A.le(a0, big), 'b': A.le(b0, big), 'q': A.le(q2, big), 'r': A.le(m2, big)}]
                ret = list(q1) + list(m1) + list(q2) + list(m2)
            return A.finish(case, c, pre, rng, ret, checks, 'same', [])
        if fn == 'divmod':
            n = src['n']
            if src['gen'] and not src.get('host'):
                c = ar.generate_div_mod(n, **A.bkw(big))
                pre = _fresh_pre(c)
                a, b = list(c.inputs[:n]), list(c.inputs[n:])
                outs = list(c.outputs)
                q, r, om = outs[:len(outs) // 2], outs[len(outs) // 2:], 'set'
            else:
                c, ops = A.make_host(src, 2 * n)
                pre = project(c)
                a, b = ops[:n], ops[n:]
                q, r = ar.add_div_mod(c, list(a), list(b), **A.bkw(big))
                om = 'same'
            checks = [{'op': 'divmod', 'a': A.le(a, big), 'b': A.le(b, big), 'q': A.le(q, big), 'r': A.le(r, big)}]
            return A.finish(case, c, pre, rng, list(q) + list(r), checks, om, list(q) + list(r) if om == 'set' else [])
        if fn == 'sqrt':
            n = src['n']
            if src['gen'] and not src.get('host'):
                c = ar.generate_sqrt(n, **A.bkw(big))
                pre = _fresh_pre(c)
                a, res, om = list(c.inputs), list(c.outputs), 'set'
            else:
                c, ops = A.make_host(src, n)
                pre = project(c)
                a = ops
                res, om = ar.add_sqrt(c, list(a), **A.bkw(big)), 'same'
            checks = [{'op': 'sqrt', 'a': A.le(a, big), 'out': A.le(res, big)}]
            return A.finish(case, c, pre, rng, res, checks, om, res if om == 'set' else [])
        if fn == 'eq':
            n, num = src['n'], src['num']
            if src['gen'] and not src.get('host'):
                c = ar.generate_equal(n, num)
                pre = _fresh_pre(c)
                a, out, om = list(c.inputs), c.outputs[0], 'set'
            elif src.get('rep'):
                # the same gate at several bit positions (a legal operand list): fewer inputs than positions
                from cirbo.core.circuit import Circuit

                c = Circuit.bare_circuit(max(1, n - 1), prefix='r')
                pre = project(c)
                a = [c.inputs[(j * 2) % len(c.inputs)] for j in range(n)]
                out, om = ar.add_equal(c, list(a), num), 'same'
            else:
                c, ops = A.make_host(src, n)
                pre = project(c)
                a = ops
                out, om = ar.add_equal(c, list(a), num), 'same'
            fits = num < 2 ** n
            cbits = [bool((num >> j) & 1) for j in range(n)]
            checks = [{'op': 'eq', 'a': list(a), 'fits': fits, 'cbits': cbits, 'out': out}]
            # wide operands are sampled: the rows on which the operand IS the constant (and its neighbours) are added
            extra = []
            if len(set(a)) == len(a) and all(l in c.inputs for l in a):
                for v in (num, num ^ 1, num ^ (1 << (n - 1)), (num + 1) % 2 ** n):
                    extra.append({a[j]: bool((v >> j) & 1) for j in range(n)})
            return A.finish(case, c, pre, rng, [out], checks, om, [out] if om == 'set' else [], extra_rows=extra)
        if fn == 'inc':
            il, ol = src['il'], src['ol']
            if src['gen']:
                c = gg.generate_plus_one(il, ol, **A.bkw(big))
                pre = _fresh_pre(c)
                a, res, om, outl = list(c.inputs), list(c.outputs), 'set', list(c.outputs)
            else:
                c, ops = A.make_host(src, il)
                live = False
                if src.get('live') and len(set(ops)) == len(ops):
                    # the operand IS the circuit's live output list ("increment the number this circuit computes")
                    c.set_outputs(list(ops))
                    live = True
                pre = project(c)
                a = ops
                kw = {}
                given = None
                if src.get('given_labels'):
                    given = [f'res_{j}' for j in range(ol)]
                    kw['result_labels'] = list(given)
                res = gg.add_plus_one(c, c.outputs if live else list(a), **_ao(src), **A.bkw(big), **kw)
                if given is None:
                    ol = len(res)
                om = 'appendset' if src['add_outputs'] else 'same'
                outl = list(res)
            checks = [{'op': 'inc', 'a': A.le(a, big), 'out': A.le(res, big)}]
            case['outset'] = outl
            return A.finish(case, c, pre, rng, res, checks, om, outl)
        if fn == 'ite':
            if src['gen']:
                c = gg.generate_if_then_else()
                pre = _fresh_pre(c)
                i, t, e = c.inputs
                out, om, outl = c.outputs[0], 'set', [c.outputs[0]]
            else:
                c, ops = A.make_host(src, 3)
                pre = project(c)
                i, t, e = ops
                out = gg.add_if_then_else(c, i, t, e, **_ao(src))
                om, outl = ('append' if src['add_outputs'] else 'same'), [out]
            checks = [{'op': 'ite', 'i': i, 't': t, 'e': e, 'out': out}]
            return A.finish(case, c, pre, rng, [out], checks, om, outl if om != 'same' else [])
        if fn in ('pxor', 'pite'):
            n = src['n']
            k = 2 if fn == 'pxor' else 3
            if src['gen']:
                c = gg.generate_pairwise_xor(n) if fn == 'pxor' else gg.generate_pairwise_if_then_else(n)
                pre = _fresh_pre(c)
                ops = list(c.inputs)
                res, om = list(c.outputs), 'set'
            else:
                c, ops = A.make_host(src, k * n)
                pre = project(c)
                if fn == 'pxor':
                    res = gg.add_pairwise_xor(c, ops[:n], ops[n:], **_ao(src))
                else:
                    res = gg.add_pairwise_if_then_else(c, ops[:n], ops[n:2 * n], ops[2 * n:], **_ao(src))
                om = 'append' if src['add_outputs'] else 'same'
            if fn == 'pxor':
                checks = [{'op': 'pxor', 'x': ops[:n], 'y': ops[n:2 * n], 'out': list(res)}]
            else:
                checks = [{'op': 'pite', 'i': ops[:n], 't': ops[n:2 * n], 'e': ops[2 * n:], 'out': list(res)}]
            return A.finish(case, c, pre, rng, res, checks, om, list(res) if om != 'same' else [])
        raise ValueError(fn)
    except Exception as e:
        if isinstance(e, ValueError) and str(e) == fn:
            raise
        case['exc'] = type(e).__name__
        return case


nontrivial = A.nontrivial
features = A.features


record = A.with_decoys(_record)
