"""C01 - evaluation equals the denotational semantics of the gate network."""

import itertools
import random

from .. import gen
from ..project import project

PROP = 'C01'
LEVEL = 'model_checking'
RULE = (
    'cases = TLC-enumerated universe U(ni,ng,18 types,arity<=3) netlists (each with a seed-chosen '
    'output list, labelling and storage order) + seeded random circuits (<=6 inputs, <=30 gates, '
    'arity<=5) + per-type operator tables; every one of the 2^n rows is evaluated through all 7 '
    'entry points; a case is non-trivial iff an output or requested gate is a non-input gate; '
    'distinct = distinct recorded (circuit, observation) JSON'
)
ASSUMPTIONS = [
    'TLC evaluates specs/GateSemantics.tla GateSet and CircuitSem.tla GateTT as the reference semantics',
    'recorder harness/vf/drivers/c01.py only transcribes return values into row sets',
    'bounded: exhaustive only within the stated universe; random beyond',
]

WEIRD = ['input1', 'OUTPUTx', 'a@b', '0', 'vdd1', 'x y', 'Input_a', '_', 'n#', 'é',
         # names that look like the ones the library generates itself, numbers whose text order differs from their numeric order
         # the empty label (legal: nothing validates labels), labels differing only in case or zero padding, labels with the
         # characters the printer / the signatures / glob patterns use
         '', 'l0', 'L00', 'a,b', 'a[0]', 'a0', 'x*', '?',
         'not_L0', 'new_L1', 'tmp_0', 'gate_0', 'big_or', 'pairwise_xor@xor_0', 'L0_', '10', '2', 'new_gate_NOT_for_L0', 'if', 'L1@L0']


def design(tier, seed):
    from .. import tlc

    r = tlc.run_model('GateLemmas', 'GateLemmas.cfg', workers=4, tag='C01-lemmas', xmx='2g')
    tlc.cleanup(r['workdir'])
    cfg = 'StackEval_quick.cfg' if tier == 'quick' else 'StackEval.cfg'
    r2 = tlc.run_model('StackEval', cfg, workers=16, tag='C01-stackeval', xmx='10g', timeout=3000)
    tlc.cleanup(r2['workdir'])
    return {
        'states': r['distinct'] + r2['distinct'],
        'transitions': r['generated'] + r2['generated'],
        'runs': [f'GateLemmas (row-set, three-valued, rewrite and code renderings denote GateFn; Kleene soundness / monotonicity / totality; all argument tuples, arity <= 4): {r["distinct"]} states, {r["wall_s"]:.1f}s',
                 f'StackEval.tla/{cfg} (code-shaped stack evaluator and full pass refine the denotational three-valued semantics on every circuit of the universe x every partial assignment x output requests): {r2["distinct"]} states, {r2["wall_s"]:.1f}s'],
    }


def sources(tier, seed, ctx):
    rng = random.Random(seed * 7919 + 1)
    srcs = []
    if tier == 'quick':
        nets, st = gen.universe(2, 2, gen.ALL18, 3, tag='C01-U')
        ctx['gen_note'] = f'U(2,2,all18,3): {len(nets)} netlists enumerated by TLC'
        nrand = 300
    else:
        nets, st = gen.universe(2, 2, gen.ALL18, 3, tag='C01-U')
        nets2, st2 = gen.universe(3, 3, gen.T6, 2, tag='C01-U2')
        nets3, st3 = gen.universe(3, 2, gen.ALL18, 3, tag='C01-U3')
        ctx['gen_note'] = f'U(2,2,all18,3): {len(nets)}; U(3,3,T6,2): {len(nets2)}; U(3,2,all18,3): {len(nets3)} netlists enumerated by TLC'
        nets = nets + nets2 + nets3
        st = {k: st[k] + st2[k] + st3[k] for k in st}
        nrand = 4000
    ctx['gen_states'] = st['distinct']
    ctx['gen_transitions'] = st['generated']
    ctx['exhaustive'] = False
    for n, net in enumerate(nets):
        ni, gs = net
        r = random.Random(seed * 1000003 + n)
        outs = gen.pick_outputs(r, ni, len(gs), kind=['last', 'some', 'dup', 'withinput', 'many', 'last'][n % 6])
        variant = ['plain', 'relabel', 'shuffle'][(n + seed) % 3]
        srcs.append({'k': 'eval', 'net': [ni, gs], 'outs': outs, 'variant': variant, 'vs': n + seed})
    for j in range(nrand):
        net = gen.random_netlist(rng)
        outs = gen.pick_outputs(rng, net[0], len(net[1]))
        srcs.append({'k': 'eval', 'net': [net[0], net[1]], 'outs': outs, 'variant': rng.choice(['plain', 'relabel', 'shuffle']), 'vs': rng.randrange(10**6)})
    # operator tables of every type, arity <= 4 (5 in thorough)
    amax = 4 if tier == 'quick' else 6
    for t in gen.ALL18:
        ars = [0] if t in gen.NULLARY else [1] if t in gen.UNARY else [2] if t in gen.BINARY else range(2, amax + 1)
        for a in ars:
            srcs.append({'k': 'optable', 't': t, 'n': a, 'who': 'Gate.operator'})
            srcs.append({'k': 'optable', 't': t, 'n': a, 'who': 'one-gate-circuit'})
    for code in itertools.product('01', repeat=4):
        srcs.append({'k': 'ttcode', 'code': ''.join(code)})
    # gate tables of the other gate-interpreting modules, read where they are still present under
    # their current names (absent => not observed, never an alarm)
    for t in ['NOT', 'AND', 'NAND', 'OR', 'NOR', 'XOR', 'NXOR', 'GEQ', 'GT', 'LEQ', 'LT']:
        srcs.append({'k': 'pattern', 't': t})
        srcs.append({'k': 'pattern', 't': t, 'all': True})
    srcs.append({'k': 'opcodes'})
    for t in gen.ALL18:
        ars = [0] if t in gen.NULLARY else [1] if t in gen.UNARY else [2] if t in gen.BINARY else [2, 3]
        for a in ars:
            srcs.append({'k': 'cnftemplate', 't': t, 'n': max(a, 1) if t in gen.NULLARY else a})
            # ... and as an INTERNAL gate below an asserted negation / buffer: with the gate itself asserted half of
            # its template is implied by the unit clause and a dropped clause cannot be seen
            for down in ('NOT', 'IFF'):
                srcs.append({'k': 'cnftemplate', 't': t, 'n': max(a, 1) if t in gen.NULLARY else a, 'down': down})
            # ... and with an operand listed twice (duplicated operands are inside the quantifier; for a parity gate the
            # multiplicity matters)
            if a >= 2:
                for ops in ([[1, 1]] if a == 2 else [[1, 2, 1], [2, 2, 2], [1, 1, 2]]):
                    srcs.append({'k': 'cnftemplate', 't': t, 'n': 2, 'ops': ops, 'down': 'IFF'})
                    srcs.append({'k': 'cnftemplate', 't': t, 'n': 2, 'ops': ops})
    for t in ('XOR', 'NXOR', 'AND', 'NOR'):
        for ops in ([1, 2, 3, 1], [1, 2, 2, 1], [1, 2, 3, 4, 2], [3, 3, 3, 3]):
            srcs.append({'k': 'cnftemplate', 't': t, 'n': 4, 'ops': ops, 'down': 'NOT'})
    for code in itertools.product('01', repeat=4):
        srcs.append({'k': 'synthcode', 'code': ''.join(code)})
    # deep circuits: one path longer than the interpreter's recursion limit through every evaluation entry point
    for depth in ([1500] if tier == 'quick' else [1500, 4000]):
        srcs.append({'k': 'evaldeep', 'depth': depth})
        srcs.append({'k': 'evaldeep', 'depth': depth, 'rev': True})
    for k in ([1200] if tier == 'quick' else [300, 1200, 5000]):
        srcs.append({'k': 'evaldeep', 'fanin': k})
    # many inputs: tables of 512 .. 4096 rows through every entry point
    for ni in ([9, 11] if tier == 'quick' else [9, 10, 11, 12]):
        srcs.append({'k': 'evaldeep', 'wide': ni})
    return srcs


def build(src):
    ni, gs = src['net']
    net = (ni, [(t, list(o)) for t, o in gs])
    ng = len(gs)
    r = random.Random(src['vs'])
    labels = list(src['labels']) if src.get('labels') else None
    if src['variant'] == 'relabel':
        pool = WEIRD + [f'L{j}' for j in range(ni + ng)]
        r.shuffle(pool)
        labels = pool[: ni + ng]
    storage = None
    if src['variant'] == 'shuffle':
        storage = list(range(ni + ng))
        r.shuffle(storage)
    if src['variant'] == 'interleave':
        # still topological, but the inputs are stored where they are first needed (not first, not in their
        # declared order), gates as early as possible
        placed, storage = set(), []
        pend_inputs = list(range(ni))
        r.shuffle(pend_inputs)
        for k, (t, ops) in enumerate(gs):
            for o in ops:
                if o <= ni and (o - 1) not in placed:
                    storage.append(o - 1)
                    placed.add(o - 1)
            storage.append(ni + k)
        for j in pend_inputs:
            if j not in placed:
                storage.append(j)
    # every fifth circuit went through copy.deepcopy, every fifth through pickle before it is used (gen.clone)
    how = {1: 1, 3: 2}.get(src.get('vs', 0) % 5, 0)
    return gen.clone(gen.materialize(net, labels=labels, outputs=src['outs'], storage=storage), how)


def _table(results, labels):
    from cirbo.core.circuit.operators import Undefined

    tab = {'t': {}, 'u': {}, 'x': {}}
    for r, d in enumerate(results):
        for l in labels:
            if d is None or l not in d:
                tab['x'].setdefault(l, []).append(r)
                continue
            v = d[l]
            if v is True:
                tab['t'].setdefault(l, []).append(r)
            elif v is False:
                pass
            elif v == Undefined:
                tab['u'].setdefault(l, []).append(r)
            else:
                tab['x'].setdefault(l, []).append(r)
    return tab


def _rowsets(vectors, width, bad, name):
    """vectors: per row list of values -> per position list of True rows."""
    out = [[] for _ in range(width)]
    for r, vec in enumerate(vectors):
        if vec is None or len(vec) != width:
            bad.add(name)
            continue
        for k, v in enumerate(vec):
            if v is True:
                out[k].append(r)
            elif v is not False:
                bad.add(name)
    return out


def observe_eval(c, sample=None):
    """sample: compare only these gates (deep circuits); None = every gate."""
    n = c.input_size
    rows = list(itertools.product((False, True), repeat=n))
    labels = list(c.gates) if sample is None else list(sample)
    outs = list(c.outputs)
    bad = set()
    excs = {}

    def guard(name, fn):
        try:
            return fn()
        except Exception as e:  # the property admits no exception on a well-formed circuit
            bad.add(name)
            excs[name] = f'{type(e).__name__}: {e}'[:200]
            return None

    ev = [guard('evaluate', lambda: c.evaluate(list(x))) for x in rows]
    ev_at = [
        [guard('evaluate_at', lambda: c.evaluate_at(list(x), k)) for k in range(len(outs))]
        for x in rows
    ]
    asg = [dict(zip(c.inputs, x)) for x in rows]
    o_outs = [guard('evaluate_circuit_outputs', lambda: c.evaluate_circuit_outputs(dict(a))) for a in asg]
    o_full = [guard('evaluate_full_circuit', lambda: c.evaluate_full_circuit(dict(a))) for a in asg]
    o_circ = [guard('evaluate_circuit', lambda: c.evaluate_circuit(dict(a))) for a in asg]
    # the same three dictionary entry points, called with ONE assignment dict that the caller keeps
    # and updates in place between the rows
    shared = {'o': {}, 'f': {}, 'c': {}}

    def reuse(key, name, fn, x):
        for lab, v in zip(c.inputs, x):
            shared[key][lab] = v
        return guard(name, lambda: fn(shared[key]))

    r_outs = [reuse('o', 'evaluate_circuit_outputs(reused-dict)', c.evaluate_circuit_outputs, x) for x in rows]
    r_full = [reuse('f', 'evaluate_full_circuit(reused-dict)', c.evaluate_full_circuit, x) for x in rows]
    r_circ = [reuse('c', 'evaluate_circuit(reused-dict)', c.evaluate_circuit, x) for x in rows]
    # bench conversion is one of the gate-interpreting parts of the library: the converted copy
    # must compute the same outputs (only judged when the conversion is defined: >= 1 input)
    bench_rows = None
    if n >= 1:
        import copy as _copy

        def _bench():
            cb = _copy.copy(c)
            cb.into_bench()
            return [list(cb.evaluate(list(x))) for x in rows]

        bt = guard('into_bench', _bench)
        if bt is not None:
            bench_rows = _rowsets(bt, len(outs), bad, 'into_bench')

        # ... and the whole-circuit entry point on the converted copy gives every ORIGINAL gate its value
        def _bench_full():
            cb = _copy.copy(c)
            cb.into_bench()
            return [cb.evaluate_full_circuit({l: v for l, v in zip(cb.inputs, x)}) for x in rows]

        bf = guard('into_bench+evaluate_full_circuit', _bench_full)
        bench_full = _table(bf, labels) if bf is not None else None
    else:
        bench_full = None
    tt = guard('get_truth_table', lambda: c.get_truth_table())
    gtt = guard('get_gates_truth_table', lambda: c.get_gates_truth_table())
    single = []
    for lab in (labels if sample is None else labels[-2:] + labels[:1]):
        res = [guard('evaluate_circuit_single', lambda: c.evaluate_circuit(dict(a), outputs=[lab])) for a in asg]
        t = _table(res, labels)
        t['out'] = lab
        single.append(t)
    if tt is not None and len(outs) == 0 and tt == []:
        tt_rows = []
    elif tt is None or len(tt) != len(outs) or any(len(x) != len(rows) for x in tt):
        bad.add('get_truth_table')
        tt_rows = [[] for _ in outs]
    else:
        tt_rows = []
        for row in tt:
            if any(v is not True and v is not False for v in row):
                bad.add('get_truth_table')
            tt_rows.append([r for r, v in enumerate(row) if v is True])
    if gtt is None:
        gtab = {'t': {}, 'u': {}, 'x': {l: list(range(len(rows))) for l in labels}}
    else:
        per_row = []
        for r in range(len(rows)):
            per_row.append({l: (gtt[l][r] if l in gtt and len(gtt[l]) == len(rows) else None) for l in labels})
        gtab = _table(per_row, labels)
        # None marks a missing / short column
    return {
        'evaluate': _rowsets(ev, len(outs), bad, 'evaluate'),
        'evaluate_at': _rowsets(ev_at, len(outs), bad, 'evaluate_at'),
        'tt': tt_rows,
        'outs': _table(o_outs, outs),
        'full': _table(o_full, labels),
        'circ': _table(o_circ, labels),
        'gtt': gtab,
        **({'bench': bench_rows} if bench_rows is not None else {}),
        **({'bench_full': bench_full} if bench_full is not None else {}),
        'outs_r': _table(r_outs, outs),
        'full_r': _table(r_full, labels),
        'circ_r': _table(r_circ, labels),
        'single': single,
        'bad': sorted(bad),
        'exc': excs,
    }


def record(src):
    from cirbo.core.circuit import Circuit, gate as G

    if src['k'] == 'eval':
        c = build(src)
        if src.get('vs', 0) % 4 == 1 and len(c.gates) > 0:
            # a circuit with a past: a gate was put on top of an existing one and removed again (the netlist is the
            # same as before; bookkeeping such as an emptied users entry stays behind)
            base = list(c.gates)[(src.get('vs', 0) // 4) % len(c.gates)]
            try:
                c.emplace_gate('tmp_gate_of_the_past', G.NOT, (base,))
                c.remove_gate('tmp_gate_of_the_past')
            except Exception:
                pass
        if src.get('vs', 0) % 5 == 2 and c.outputs:
            # blocks and gates have separate namespaces: a block may be called what an output gate is called (it groups some
            # OTHER gates); evaluation is about gates
            others = [l for l in c.gates if l not in c.inputs and l != c.outputs[0]]
            try:
                if others:
                    c.make_block(c.outputs[0], others[:2], others[:1])
                c.make_block(c.outputs[-1] + '', [c.inputs[0]] if c.inputs else others[:1], []) if c.outputs[-1] not in c.blocks else None
            except Exception:
                pass
        return {'kind': 'eval', 'c': project(c), 'obs': observe_eval(c), 'src': src}
    if src['k'] == 'evaldeep' and src.get('fanin'):
        # single gates with more than a thousand operands (every n-ary type; operands cycle over three inputs, so the
        # multiplicities matter for the parities)
        k = src['fanin']
        c = Circuit()
        ins = ['x0', 'x1', 'x2']
        c.add_inputs(ins)
        order = list(ins)
        for j, t in enumerate(['AND', 'OR', 'XOR', 'NAND', 'NOR', 'NXOR']):
            ops = tuple(ins[(q + j) % 3] for q in range(k + j))
            c.emplace_gate(f'f{t}', getattr(G, t), ops)
            order.append(f'f{t}')
        c.emplace_gate('top', G.XOR, tuple(order[3:]))
        order.append('top')
        c.set_outputs(['top', 'fNXOR', 'fAND'])
        return {'kind': 'evaldeep', 'c': project(c, users=False, blocks=False), 'order': order, 'sample': list(order),
                'obs': observe_eval(c, sample=list(order)), 'src': src}
    if src['k'] == 'evaldeep' and src.get('wide'):
        # many inputs (beyond 8): a parity / majority-like mix over all of them, every gate compared
        ni = src['wide']
        c = Circuit()
        ins = [f'x{j}' for j in range(ni)]
        c.add_inputs(ins)
        order = list(ins)
        types = [G.XOR, G.AND, G.OR, G.NXOR, G.GT, G.NAND]
        prev = ins[0]
        for k in range(1, ni):
            lab = f'w{k}'
            c.emplace_gate(lab, types[k % len(types)], (prev, ins[k]))
            prev = lab
            order.append(lab)
        c.emplace_gate('top', G.XOR, tuple(ins))          # one gate reading every input
        c.emplace_gate('mix', G.AND, ('top', prev, ins[-1]))
        order += ['top', 'mix']
        c.set_outputs(['mix', 'top', prev, ins[ni // 2]])
        sample = list(order)
        return {'kind': 'evaldeep', 'c': project(c, users=False, blocks=False), 'order': order, 'sample': sample,
                'obs': observe_eval(c, sample=sample), 'src': src}
    if src['k'] == 'evaldeep':
        n = src['depth']
        c = Circuit()
        c.add_inputs(['x', 'y'])
        order = ['x', 'y']
        for k in range(n):
            ops = ('x',) if k == 0 else (f'g{k - 1}', 'y') if k % 2 else (f'g{k - 1}',)
            c.emplace_gate(f'g{k}', G.XOR if k % 2 else G.NOT, ops)
            order.append(f'g{k}')
        c.set_outputs([f'g{n - 1}', f'g{n // 2}'])
        if src.get('rev'):
            for l in order[2:][::-1]:          # users before operands in storage order
                c.rename_gate(l, l + '_')
            order = order[:2] + [l + '_' for l in order[2:]]
        sample = list(dict.fromkeys(list(c.outputs) + order[2::97] + order[-3:]))
        return {'kind': 'evaldeep', 'c': project(c, users=False, blocks=False), 'order': order, 'sample': sample,
                'obs': observe_eval(c, sample=sample), 'src': src}
    if src['k'] in ('optable', 'ttcode', 'pattern'):
        # what the library raises while one of its gate tables is read is an observation, not a harness failure
        try:
            return _record_table(src)
        except Exception as e:
            if src['k'] == 'ttcode':
                return {'kind': 'ttcode', 'code': [int(ch) for ch in src['code']], 't': 'raised:' + type(e).__name__, 'rows': [], 'src': src}
            return {'kind': 'optable', 't': src['t'], 'n': src.get('n', 1 if src['t'] == 'NOT' else 2),
                    'who': src.get('who', 'subcircuit-pattern-simulation') + '-raised:' + type(e).__name__, 'rows': [], 'badrows': [0], 'src': src}
    if src['k'] == 'cnftemplate':
        # the CNF template of one gate type, judged by the exactness clause of C05 on a one-gate circuit
        try:
            from . import c05
        except Exception:
            return []
        gs = [[src['t'], (src.get('ops') or list(range(1, src['n'] + 1))) if src['t'] not in gen.NULLARY else []]]
        if src.get('down'):
            gs.append([src['down'], [src['n'] + 1]])
        return c05.record({'k': 'cnf', 'net': [src['n'], gs], 'outs': [src['n'] + len(gs)], 'sel': None, 'variant': 'plain', 'vs': 0})
    return _record_rest(src)


def _record_table(src):
    from cirbo.core.circuit import Circuit, gate as G

    if src['k'] == 'optable':
        t, n = src['t'], src['n']
        rows = []
        bad = []
        if src['who'] == 'Gate.operator':
            op = G.Gate('g', getattr(G, t), tuple(f'x{j}' for j in range(n))).operator
            for r, x in enumerate(itertools.product((False, True), repeat=n)):
                v = op(*x)
                if v is True:
                    rows.append(r)
                elif v is not False:
                    bad.append(r)
        else:
            c = Circuit.bare_circuit(n)
            c.emplace_gate('g', getattr(G, t), tuple(str(j) for j in range(n)))
            c.mark_as_output('g')
            for r, x in enumerate(itertools.product((False, True), repeat=n)):
                v = c.evaluate(list(x))[0]
                if v is True:
                    rows.append(r)
                elif v is not False:
                    bad.append(r)
        return {'kind': 'optable', 't': t, 'n': n, 'who': src['who'], 'rows': rows, 'badrows': bad, 'src': src}
    if src['k'] == 'ttcode':
        from cirbo.synthesis.generation.arithmetics._utils import add_gate_from_tt

        c = Circuit.bare_circuit(2)
        lab = add_gate_from_tt(c, '0', '1', src['code'])
        c.mark_as_output(lab)
        rows = [r for r, x in enumerate(itertools.product((False, True), repeat=2)) if c.evaluate(list(x))[0] is True]
        return {'kind': 'ttcode', 'code': [int(ch) for ch in src['code']], 't': c.get_gate(lab).gate_type.name, 'rows': rows, 'src': src}
    if src['k'] == 'pattern':
        try:
            from cirbo.minimization.subcircuit import _generate_inputs_tt, _PatternOperations
        except Exception:
            return []
        t = src['t']
        n = 1 if t == 'NOT' else 2
        if src.get('all'):
            # ALL operand patterns of a 2-input cone (4-bit truth tables), not only the two input columns:
            # bit i of the result must be the gate function of bits i of the operands
            po = _PatternOperations(2)
            tab = [[po.eval_pattern([pa] if n == 1 else [pa, pb], t) for pb in range(16)] for pa in range(16)]
            return {'kind': 'pattern', 't': t, 'n': n, 'tab': tab, 'src': src}
        pats = _generate_inputs_tt(n)
        res = _PatternOperations(n).eval_pattern(list(pats), t)
        rows = []
        for i in range(1 << n):
            if (res >> i) & 1:
                bits = [(i >> j) & 1 for j in range(n)]      # assignment number i gives input j the bit j of i
                rows.append(sum(b << (n - 1 - j) for j, b in enumerate(bits)))
        return {'kind': 'optable', 't': t, 'n': n, 'who': 'subcircuit-pattern-simulation', 'rows': sorted(rows), 'badrows': [], 'src': src}
    raise ValueError(src['k'])


def _record_rest(src):
    from cirbo.core.circuit import Circuit, gate as G

    if src['k'] == 'synthcode':
        # the synthesis encoder asked for ONE gate over the basis {operation with this code} and the
        # function with this truth table must answer with a gate that denotes the code
        try:
            from cirbo.core.truth_table import TruthTableModel
            from cirbo.synthesis.circuit_search import CircuitFinderSat, Operation
        except Exception:
            return []
        code = src['code']
        op = [o for o in Operation if o.value == code]
        if not op:
            return []
        case = {'kind': 'ttcode', 'code': [int(ch) for ch in code], 't': '?', 'rows': [], 'who': 'synthesis', 'src': src}
        try:
            circ = CircuitFinderSat(TruthTableModel([[ch == '1' for ch in code]]), 1, basis=[op[0]]).find_circuit()
            lab = circ.outputs[0]
            case['t'] = circ.get_gate(lab).gate_type.name
            case['rows'] = [r for r, x in enumerate(itertools.product((False, True), repeat=2)) if circ.evaluate(list(x))[0] is True]
        except Exception as e:
            case['t'] = 'raised:' + type(e).__name__
        return case
    if src['k'] == 'opcodes':
        try:
            from cirbo.synthesis.circuit_search import Operation
        except Exception:
            return []
        out = []
        for op in Operation:
            out.append({'kind': 'opcode', 't': op.name.rstrip('_').upper(), 'code': str(op.value), 'src': {'k': 'opcodes'}})
        return out
    raise ValueError(src)


def nontrivial(case):
    if case['kind'] != 'eval':
        return True
    g = case['c']['g']
    return any(g[o]['t'] != 'INPUT' for o in case['c']['o'])


def features(case):
    if case['kind'] != 'eval':
        yield case['kind']
        return
    c = case['c']
    seen = set()
    for l, gt in c['g'].items():
        if len(gt['o']) > 2:
            seen.add('nary>2')
        if len(set(gt['o'])) < len(gt['o']):
            seen.add('repeated-operand')
        if gt['t'] in ('ALWAYS_TRUE', 'ALWAYS_FALSE'):
            seen.add('constant')
        if gt['t'] in ('LIFF', 'RIFF', 'LNOT', 'RNOT'):
            seen.add('L/R-gate')
    if len(set(c['o'])) < len(c['o']):
        seen.add('repeated-output')
    if any(c['g'][o]['t'] == 'INPUT' for o in c['o']):
        seen.add('output-is-input')
    pos = {l: n for n, l in enumerate(c['ord'])}
    if any(pos[o] > pos[l] for l, gt in c['g'].items() for o in gt['o']):
        seen.add('non-topological-storage')
    seen.add(f'variant-{case["src"]["variant"]}')
    yield from seen
