"""C11 - bench text round-trips and the parser is faithful."""
import os
import random
import tempfile

from .. import gen
from ..project import project

PROP = 'C11'
LEVEL = 'model_checking'
RULE = ('(a) round trip: TLC-enumerated universe circuits over all 18 types / arity<=3 and random circuits, labelled from an identifier '
        'alphabet that includes input1, OUTPUTx, Input_a, 9x, a@b, vdd1, AND, buff (relabelled, non-topological storage, repeated '
        'outputs) -> format_circuit -> from_bench_string, and save_to_file -> from_bench_file; (b) documents: the line records of such '
        'netlists in a seed-chosen permutation (use before definition) with comment/blank lines at random positions, BUFF/vdd aliases, '
        'random letter case of operator names and random spacing; TLC compares the parsed projection with the original / with '
        'Bench.Denote(doc); non-trivial = >= 1 non-input gate')
ASSUMPTIONS = ['rendering of a document (token sequence -> text) is done by the harness (about 20 lines, trusted)',
               'well-formed text: no tabs, no trailing comments, no space between a keyword and "(", declarations INPUT/OUTPUT in upper case']

IDENTS = ['input1', 'OUTPUTx', 'Input_a', '9x', 'a@b', 'vdd1', 'AND', 'buff', 'x.y', 'N_12', 'output', 'inputs', 'OUTPUT_2', 'vdd_x',
          'g[3]', 'nOt', 'INPUT0', 'o', 'Z', 'k9', 'in', 'out',
          # labels that ARE keywords / operator names (any letter case), not merely begin with them
          'input', 'INPUT', 'Output', 'OUTPUT', 'vdd', 'VDD', 'not', 'BUFF', 'Xor']


def design(tier, seed):
    from .. import tlc

    r = tlc.run_model('RoundTripLemmas', 'RoundTripLemmas.cfg', workers=8, tag='C11-lemma', xmx='4g')
    tlc.cleanup(r['workdir'])
    return {'states': r['distinct'], 'transitions': r['generated'],
            'runs': [f'RoundTripLemmas (Denote(FormatDoc(c)) = c and Decode(Encode(c)) ~ c over all netlists of U(2,2,15 types,2)): {r["distinct"]} states, {r["wall_s"]:.1f}s']}


def sources(tier, seed, ctx):
    rng = random.Random(seed + 11)
    nets, st = gen.universe(2, 2, gen.ALL18, 3, tag='C11-U')
    ctx['gen_states'] = st['distinct']
    ctx['gen_transitions'] = st['generated']
    rng.shuffle(nets)
    take = 6000 if tier == 'quick' else len(nets)
    srcs = []
    for n, net in enumerate(nets[:take]):
        ni, gs = net
        r = random.Random(seed * 61 + n)
        outs = gen.pick_outputs(r, ni, len(gs), kind=['last', 'some', 'dup', 'withinput', 'many', 'none'][n % 6])
        srcs.append({'k': 'rt' if n % 2 == 0 else 'doc', 'net': [ni, gs], 'outs': outs, 'ls': r.randrange(10**6)})
    # deep circuits: one path longer than the interpreter's recursion limit, printed, saved, parsed back
    # (5000 gates: a file of more than 64 KiB; 20000: more than 256 KiB)
    for depth in ([1500, 5000] if tier == 'quick' else [1500, 5000, 20000]):
        srcs.append({'k': 'rt', 'deep': depth, 'ls': 1 + depth})
        srcs.append({'k': 'rt', 'deep': depth, 'ls': 3 * depth, 'rev': True})
    # every line order (TLC-enumerated permutations, Perms.tla) of fixed small documents
    import json as _json
    import os as _os
    from .. import tlc as _tlc
    nperm = 0
    for K in ((3, 4, 5) if tier == 'quick' else (3, 4, 5, 6)):
        wd = _tlc.workdir(f'C11-perm{K}')
        cfg = _os.path.join(wd, 'p.cfg')
        with open(cfg, 'w') as f:
            f.write(f'SPECIFICATION Spec\nINVARIANT Emit\nCHECK_DEADLOCK FALSE\nCONSTANTS\n K = {K}\n')
        res = _tlc.run_model('Perms', cfg, workers=1, tag=f'C11-perm{K}-run', xmx='2g')
        perms = [_json.loads(_json.loads(ln)) for ln in res['stdout'].split('\n') if ln.startswith('"[')]
        _tlc.cleanup(wd)
        _tlc.cleanup(res['workdir'])
        ctx['gen_states'] += res['distinct']
        ctx['gen_transitions'] += res['generated']
        bases = [n for n in nets if 0 < n[0] + len(n[1]) + 1 == K][:12 if K < 6 else 4]
        for b, net in enumerate(bases):
            for perm in perms:
                srcs.append({'k': 'doc', 'net': [net[0], net[1]], 'outs': [net[0] + len(net[1])], 'ls': b * 131 + K, 'perm': perm})
                nperm += 1
    nrand = 500 if tier == 'quick' else 8000
    for j in range(nrand):
        net = gen.random_netlist(rng, ni=rng.randint(1, 5), ng=rng.randint(1, 15), amax=5)
        srcs.append({'k': rng.choice(['rt', 'doc']), 'net': [net[0], net[1]], 'outs': gen.pick_outputs(rng, net[0], len(net[1])), 'ls': rng.randrange(10**6)})
    ctx['gen_note'] = f'U(2,2,all18,3)={len(nets)}, {min(take, len(nets))} replayed + {nrand} random + {nperm} documents = every line order (TLC-enumerated permutations) of small fixed netlists'
    return srcs


def probes():
    return [{'k': 'rt', 'net': [2, [['AND', [1, 2]]]], 'outs': [3], 'ls': 0, 'labels': ['a', 'b', 'input1'], 'probe': 'bench-keyword-prefix-label'}]


def _labels(r, total):
    pool = IDENTS + [f'w{j}' for j in range(total)]
    r.shuffle(pool)
    return pool[:total]


def _case_variant(r, s):
    mode = r.choice(['upper', 'lower', 'mixed', 'upper'])
    if mode == 'upper':
        return s
    if mode == 'lower':
        return s.lower()
    return ''.join(ch.lower() if r.random() < 0.5 else ch for ch in s)


def render(doc, r):
    """token records -> bench text (trusted rendering)."""
    sp = lambda: ' ' * r.choice([0, 0, 1, 2])
    lines = []
    for ln in doc:
        if ln['k'] == 'in':
            lines.append(f'INPUT({sp()}{ln["l"]}{sp()})')
        elif ln['k'] == 'out':
            lines.append(f'OUTPUT({sp()}{ln["l"]}{sp()})')
        elif ln['k'] == 'comment':
            lines.append('#' + r.choice(['', ' INPUT(zz)', ' a = AND(b, c)', ' comment']))
        elif ln['k'] == 'blank':
            lines.append('')
        else:
            if ln['t'] == 'VDD':
                lines.append(f'{ln["l"]}{sp()}={sp()}{_case_variant(r, "vdd")}')
            else:
                ops = (sp() + ',' + sp()).join(ln['ops'])
                lines.append(f'{ln["l"]}{sp()}={sp()}{_case_variant(r, ln["t"])}({sp()}{ops}{sp()})')
    # blanks after the last token of a line are layout too (also after the operand-less `vdd`)
    lines = [ln_ + ' ' * r.choice([0, 0, 0, 1, 3]) if ln_ and not ln_.startswith('#') else ln_ for ln_ in lines]
    text = '\n'.join(lines)
    if r.random() < 0.7:
        text += '\n'
    return text


def record(src):
    from cirbo.core.circuit import Circuit

    if src.get('deep'):
        n = src['deep']
        src = dict(src, net=[2, [['XOR' if k % 2 else 'NOT', [2 + k, 2] if k % 2 else [max(1, 2 + k) if k else 1]] for k in range(n)]],
                   outs=[2 + n, 2 + n // 2], labels=['x', 'y'] + [f'g{k}' for k in range(n)])
    ni, gs = src['net']
    net = (ni, [(t, list(o)) for t, o in gs])
    r = random.Random(src['ls'])
    labels = src.get('labels') or _labels(r, ni + len(gs))
    if src['k'] == 'rt':
        storage = None
        c = gen.clone(gen.materialize(net, labels=labels, outputs=src['outs']), {1: 1, 3: 2}.get(src['ls'] % 5, 0))
        if src.get('rev'):
            # users before operands in storage order: renamed from the input side up, every gate moves to the end
            for l in labels[ni:][::-1]:
                c.rename_gate(l, l + '_')
        if r.random() < 0.4 and c.gates:
            # non-topological storage order through public renames (renamed gate moves to the end)
            victim = r.choice(list(c.gates))
            c.rename_gate(victim, 'tmp__')
            c.rename_gate('tmp__', victim)
        orig = project(c)
        case = {'kind': 'bench-rt', 'orig': orig, 'exc': '', 'fexc': '', 'src': src}
        try:
            text = c.format_circuit()
            case['parsed'] = project(Circuit.from_bench_string(text))
        except Exception as e:
            case['exc'] = type(e).__name__
            case['parsed'] = orig
        d = tempfile.mkdtemp(prefix='vfbench')
        try:
            path = os.path.join(d, 'sub', 'c.bench')
            if src.get('ls', 0) % 3 == 0:
                # the file held another circuit before (saved and loaded once); it is then overwritten through
                # another spelling of the same path and loaded again
                other = Circuit.bare_circuit(2, prefix='earlier_')
                other.set_outputs(list(other.inputs))
                other.save_to_file(path)
                Circuit.from_bench_file(path)
                c.save_to_file(os.path.join(d, 'sub', '..', 'sub', 'c.bench'))
            else:
                c.save_to_file(path)
            case['fparsed'] = project(Circuit.from_bench_file(path))
        except Exception as e:
            case['fexc'] = type(e).__name__
            case['fparsed'] = orig
        finally:
            import shutil

            shutil.rmtree(d, ignore_errors=True)
        return case
    gates, ins, outs = gen.netlist_data(net, labels, src['outs'])
    doc = []
    for l, t, ops in gates:
        if t == 'INPUT':
            doc.append({'k': 'in', 'l': l})
        else:
            tok = t
            if t == 'IFF' and r.random() < 0.6:
                tok = 'BUFF'
            if t == 'ALWAYS_TRUE' and r.random() < 0.5:
                tok = 'VDD'
            doc.append({'k': 'gate', 'l': l, 't': tok, 'ops': list(ops)})
    for o in outs:
        doc.append({'k': 'out', 'l': o})
    if src.get('perm'):
        doc = [doc[j - 1] for j in src['perm']]
    else:
        r.shuffle(doc)
    for _ in range(r.randint(0, 3)):
        doc.insert(r.randint(0, len(doc)), {'k': r.choice(['comment', 'blank'])})
    text = render(doc, r)
    case = {'kind': 'bench-doc', 'doc': doc, 'exc': '', 'text': text, 'src': src}
    try:
        case['parsed'] = project(Circuit.from_bench_string(text))
    except Exception as e:
        case['exc'] = type(e).__name__
        case['parsed'] = {'g': {}, 'ord': [], 'i': [], 'o': [], 'u': {}, 'b': {}}
    return case


def nontrivial(case):
    if case['kind'] == 'bench-rt':
        return any(g['t'] != 'INPUT' for g in case['orig']['g'].values())
    return any(ln['k'] == 'gate' for ln in case['doc'])


def features(case):
    yield case['kind']
    labs = list(case['orig']['g']) if case['kind'] == 'bench-rt' else [ln['l'] for ln in case['doc'] if 'l' in ln]
    if any(l.upper().startswith(('INPUT', 'OUTPUT')) for l in labs):
        yield 'keyword-prefixed-label'
    if case['kind'] == 'bench-doc':
        pos = {ln['l']: n for n, ln in enumerate(case['doc']) if ln['k'] in ('gate', 'in')}
        if any(pos.get(o, -1) > n for n, ln in enumerate(case['doc']) if ln['k'] == 'gate' for o in ln['ops']):
            yield 'use-before-definition'
        if any(ln.get('t') in ('BUFF', 'VDD') for ln in case['doc']):
            yield 'alias'
