"""C15 - evaluation under partial assignments is sound and monotone."""
import itertools
import random

from .. import gen
from ..project import project, state3
from .c01 import build

PROP = 'C15'
LEVEL = 'model_checking'
RULE = ('TLC-enumerated universe circuits (18 types) and seeded random circuits with <= 4 inputs; ALL 3^n partial '
        'assignments are pushed through evaluate_circuit, evaluate_full_circuit and evaluate_circuit_outputs; TLC judges '
        'soundness against every completion (row sets), one-step monotonicity and totality; GateLemmas proves the same three '
        'statements for the three-valued gate tables (all argument tuples, arity <= 4); non-trivial = some non-input gate is an output')
ASSUMPTIONS = ['TLC GateTT as reference for completions', 'exhaustive over assignments, bounded over circuits']


def design(tier, seed):
    from .. import tlc

    r = tlc.run_model('GateLemmas', 'GateLemmas.cfg', workers=4, tag='C15-lemmas', xmx='2g')
    tlc.cleanup(r['workdir'])
    cfg = 'StackEval_quick.cfg' if tier == 'quick' else 'StackEval.cfg'
    r2 = tlc.run_model('StackEval', cfg, workers=16, tag='C15-stackeval', xmx='10g', timeout=3000)
    tlc.cleanup(r2['workdir'])
    return {
        'states': r['distinct'] + r2['distinct'],
        'transitions': r['generated'] + r2['generated'],
        'runs': [f'GateLemmas (row-set, three-valued, rewrite and code renderings denote GateFn; Kleene soundness / monotonicity / totality; all argument tuples, arity <= 4): {r["distinct"]} states, {r["wall_s"]:.1f}s',
                 f'StackEval.tla/{cfg} (code-shaped stack evaluator and full pass refine the denotational three-valued semantics on every circuit of the universe x every partial assignment x output requests): {r2["distinct"]} states, {r2["wall_s"]:.1f}s'],
    }


def sources(tier, seed, ctx):
    rng = random.Random(seed + 15)
    nets, st = gen.universe(2, 2, gen.ALL18, 3, tag='C15-U')
    note = [f'U(2,2,all18,3)={len(nets)}']
    if tier != 'quick':
        n2, st2 = gen.universe(3, 2, gen.ALL18, 3, tag='C15-U2')
        note.append(f'U(3,2,all18,3)={len(n2)}')
        nets += n2
        st = {k: st[k] + st2[k] for k in st}
    ctx['gen_states'] = st['distinct']
    ctx['gen_transitions'] = st['generated']
    rng.shuffle(nets)
    take = 10000 if tier == 'quick' else 150000
    srcs = []
    for n, net in enumerate(nets[:take]):
        ni, gs = net
        r = random.Random(seed * 13 + n)
        outs = gen.pick_outputs(r, ni, len(gs), kind=['last', 'some', 'dup', 'withinput', 'many'][n % 5])
        srcs.append({'k': 'eval', 'net': [ni, gs], 'outs': outs, 'variant': ['plain', 'shuffle', 'relabel'][n % 3], 'vs': n + seed})
    note.append(f'{min(take, len(nets))} replayed')
    nrand = 400 if tier == 'quick' else 6000
    for j in range(nrand):
        net = gen.random_netlist(rng, ni=rng.randint(1, 4), ng=rng.randint(1, 20))
        srcs.append({'k': 'eval', 'net': [net[0], net[1]], 'outs': gen.pick_outputs(rng, net[0], len(net[1])), 'variant': rng.choice(['plain', 'shuffle']), 'vs': rng.randrange(10**6)})
    ctx['gen_note'] = '; '.join(note)
    # wide gates (arity 9 .. 12) over three inputs, every rotation of the operand list: whatever an n-ary operator does beyond
    # a handful of operands, with the undefined input first, second or later
    for t in ('XOR', 'NXOR', 'AND', 'OR', 'NAND', 'NOR'):
        for arity in (9, 10, 12):
            for rot in range(3):
                ops = [1 + (j + rot) % 3 for j in range(arity)]
                srcs.append({'k': 'eval', 'net': [3, [[t, ops], ['NOT', [4]]]], 'outs': [5, 4], 'variant': 'plain', 'vs': 2 * arity + rot})
                if rot == 0:
                    ops2 = [1, 2] + [3] * (arity - 2)        # the first two operands differ from all the others
                    srcs.append({'k': 'eval', 'net': [3, [[t, ops2]]], 'outs': [4], 'variant': 'plain', 'vs': 2 * arity + 1})
    # deep circuits: one path longer than the interpreter's recursion limit under all nine partial assignments
    for depth in ([1500] if tier == 'quick' else [1500, 4000]):
        srcs.append({'k': 'deep', 'depth': depth})
        srcs.append({'k': 'deep', 'depth': depth, 'rev': True, 'omit': True})
    # ladders: one internal gate shared by every stage of a long chain (the explicit-stack evaluator pushes it again
    # at every stage), operand order both ways
    for op in ('AND', 'OR', 'XOR', 'GT', 'NAND'):
        for stages in (5, 6, 9):
            for first in (True, False):
                gs = [['AND', [1, 2]], [op, [4, 3] if first else [3, 4]]]
                for k in range(2, stages + 1):
                    prev = 3 + k          # node number of the previous stage
                    gs.append([op, [4, prev] if first else [prev, 4]])
                srcs.append({'k': 'eval', 'net': [3, gs], 'outs': [3 + len(gs)], 'variant': 'plain', 'vs': 2 * stages + first})

    return srcs


def record(src):
    from cirbo.core.circuit.operators import Undefined

    if src.get('k') == 'deep':
        from .. import deep
        c, order = deep.chain(src['depth'], ('NOT', 'XOR', 'AND', 'NXOR', 'NAND', 'OR'), rev=src.get('rev', False))
        sample = list(dict.fromkeys(list(c.outputs) + order[2::131] + order[-3:]))
        vals = (False, True, Undefined)
        res = {'full': {l: [] for l in sample}, 'circ': {l: [] for l in sample}, 'outs': {l: [] for l in dict.fromkeys(c.outputs)}}

        def code(d, l):
            if d is None or l not in d:
                return 3
            v = d[l]
            return state3(v) if (v is True or v is False or v == Undefined) else 3

        for digits in itertools.product(range(3), repeat=c.input_size):
            asg = {c.inputs[j]: vals[digits[j]] for j in range(c.input_size) if not (src.get('omit') and digits[j] == 2)}
            for key, fn in (('full', c.evaluate_full_circuit), ('circ', c.evaluate_circuit), ('outs', c.evaluate_circuit_outputs)):
                try:
                    d = fn(dict(asg))
                except Exception:
                    d = None
                for l in res[key]:
                    res[key][l].append(code(d, l))
        return {'kind': 'partialdeep', 'c': project(c, users=False, blocks=False), 'order': order, 'sample': sample, 'res': res, 'src': src}
    c = build(src)
    if src.get('vs', 0) % 3 == 0 and len(c.gates) > 0:
        # a circuit with a past: a gate was added on top of an existing one and removed again (bookkeeping such
        # as an emptied users entry stays behind); the circuit itself is the same netlist as before
        from cirbo.core.circuit import gate as G

        base = list(c.gates)[(src.get('vs', 0) // 3) % len(c.gates)]
        try:
            c.emplace_gate('tmp_gate_of_the_past', G.NOT, (base,))
            c.remove_gate('tmp_gate_of_the_past')
        except Exception:
            pass
    if src.get('vs', 0) % 5 == 1 and c.input_size >= 3:
        # ... or two of its inputs were fixed, one to True and one to False, in ONE replace_inputs call: the circuit
        # evaluated below is the restricted one (constants where the inputs were, a shorter input list)
        try:
            c.replace_inputs([c.inputs[(src['vs'] // 5) % c.input_size]], [c.inputs[(src['vs'] // 5 + 1) % c.input_size]])
        except Exception:
            pass
    n = c.input_size
    labels = list(c.gates)
    res = {'full': {l: [] for l in labels}, 'circ': {l: [] for l in labels}, 'outs': {l: [] for l in dict.fromkeys(c.outputs)},
           # the same three entry points called with ONE assignment dict that the caller keeps and
           # updates in place between calls
           'full_r': {l: [] for l in labels}, 'circ_r': {l: [] for l in labels}, 'outs_r': {l: [] for l in dict.fromkeys(c.outputs)}}
    for k in ('full_x', 'circ_x', 'outs_x'):     # ONE dict shared by all three entry points, called in turn
        res[k] = {l: [] for l in res[k[:-2]]}
    shared = {'full_r': {}, 'circ_r': {}, 'outs_r': {}}
    shared_all = {}
    vals = (False, True, Undefined)

    def code(d, l):
        if d is None or l not in d:
            return 3
        v = d[l]
        if v is True or v is False or v == Undefined:
            return state3(v)
        return 3

    for digits in itertools.product(range(3), repeat=n):
        asg = {c.inputs[j]: vals[digits[j]] for j in range(n)}
        # "leaves the others undefined": on every other circuit an undefined input is simply not mentioned
        omit = src.get('vs', 0) % 2 == 1
        for key, fn in (('full', c.evaluate_full_circuit), ('circ', c.evaluate_circuit), ('outs', c.evaluate_circuit_outputs)):
            try:
                arg = {k_: v_ for k_, v_ in asg.items() if not (omit and digits[c.inputs.index(k_)] == 2)}
                # every third circuit: the assignment went through copy.deepcopy / pickle (its Undefined markers are then
                # equal to, not identical with, the library's)
                if src.get('vs', 0) % 3 == 1:
                    import copy as _copy
                    arg = _copy.deepcopy(arg)
                elif src.get('vs', 0) % 3 == 2 and src.get('vs', 0) % 2 == 0:
                    import pickle as _pickle
                    arg = _pickle.loads(_pickle.dumps(arg))
                d = fn(arg)
            except Exception:
                d = None
            for l in res[key]:
                res[key][l].append(code(d, l))
            kr = key + '_r'
            for j in range(n):
                shared[kr][c.inputs[j]] = vals[digits[j]]
            try:
                d = fn(shared[kr])
            except Exception:
                d = None
            for l in res[kr]:
                res[kr][l].append(code(d, l))
        for j in range(n):
            shared_all[c.inputs[j]] = vals[digits[j]]
        # the whole-circuit entry point last: what it may have left in the dict meets the NEXT assignment
        for key, fn in (('circ', c.evaluate_circuit), ('outs', c.evaluate_circuit_outputs), ('full', c.evaluate_full_circuit)):
            try:
                d = fn(shared_all)
            except Exception:
                d = None
            for l in res[key + '_x']:
                res[key + '_x'][l].append(code(d, l))
    return {'kind': 'partial', 'c': project(c), 'res': res, 'src': src}


def nontrivial(case):
    g = case['c']['g']
    return any(g[o]['t'] != 'INPUT' for o in case['c']['o'])


def features(case):
    n = len(case['c']['i'])
    yield f'inputs={n}'
    if any(2 in v for v in case['res']['full'].values()):
        yield 'undefined-results-present'
