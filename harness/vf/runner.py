"""Generic check runner: sources -> record (real cirbo calls) -> judge (TLC) -> attribute
-> VIOLATION / KNOWN-FINDING lines, replay files, evidence.

A driver module (harness/vf/drivers/cNN.py) provides:

  PROP, LEVEL, RULE, ASSUMPTIONS
  design(tier, seed)            -> dict(states=..., transitions=..., runs=[...])   role D
  sources(tier, seed, ctx)      -> list of picklable `src` dicts                    role G
  record(src)                   -> case dict (kind, payload, 'src': src)            real code
  nontrivial(case)              -> bool
  features(case)                -> iterable of feature names (reach counters)
  attribute(case, clauses, finding) -> bool     (call-site signature findings, optional)
  probes()                      -> list of src for the known-finding probes (src['probe']=key)
"""

import concurrent.futures
import hashlib
import importlib
import json
import multiprocessing
import os
import sys
import time
import traceback

from . import VERIF, tlc
from .tlc import MachineryError

FINDINGS_FILE = os.path.join(VERIF, 'known_findings.json')


def load_findings(prop):
    if not os.path.exists(FINDINGS_FILE):
        return []
    with open(FINDINGS_FILE) as f:
        allf = json.load(f)
    return [x for x in allf if x['property'] == prop]


class RecordTimeout(BaseException):
    """Raised by the alarm inside a recorder; a BaseException so that no `except Exception` of the library
    (or of a driver) swallows it."""


RECORD_TIMEOUT = int(os.environ.get('VERIF_RECORD_TIMEOUT', '600'))


def _record_one(args):
    """One source -> case(s).  A library call that does not return is an observation, not a hang of the check:
    after RECORD_TIMEOUT seconds the recorder is interrupted and a case that fails its verdict is produced."""
    import signal

    modname, src = args
    mod = importlib.import_module(modname)

    def on_alarm(signum, frame):
        raise RecordTimeout()

    use_alarm = hasattr(signal, 'SIGALRM')
    try:
        if use_alarm:
            old = signal.signal(signal.SIGALRM, on_alarm)
            signal.alarm(RECORD_TIMEOUT)
        try:
            case = mod.record(src)
        finally:
            if use_alarm:
                signal.alarm(0)
                signal.signal(signal.SIGALRM, old)
    except RecordTimeout:
        return {'kind': 'same', 'what': f'library-call-did-not-return-within-{RECORD_TIMEOUT}s', 'a': 0, 'b': 1, 'exc': 'DidNotReturn', 'src': src}
    except Exception:
        return {'__harness_error__': traceback.format_exc(), 'src': src}
    return case


def record_all(modname, srcs, jobs=16):
    if not srcs:
        return []
    if len(srcs) < 32 or jobs == 1:
        return [_record_one((modname, s)) for s in srcs]
    # ProcessPoolExecutor workers are not daemonic, so recorded calls may fork themselves
    # (find_circuit(time_limit=...) uses a process pool)
    ctx = multiprocessing.get_context('fork')
    args = [(modname, s) for s in srcs]
    with concurrent.futures.ProcessPoolExecutor(max_workers=jobs, mp_context=ctx) as ex:
        return list(ex.map(_record_one, args, chunksize=max(1, len(srcs) // (jobs * 8))))


def canonical(obj):
    return hashlib.sha1(json.dumps(obj, sort_keys=True, default=str).encode()).hexdigest()


def strip_src(case):
    return {k: v for k, v in case.items() if k != 'src'}


def run_check(modname, tier, seed, replay=None, jobs=16):
    t0 = time.time()
    mod = importlib.import_module(modname)
    prop = mod.PROP
    findings = load_findings(prop)
    known = [f for f in findings if f.get('status') == 'known']
    ctx = {}
    design = {'states': 0, 'transitions': 0, 'runs': []}
    srcs = []
    if replay:
        with open(replay) as f:
            rp = json.load(f)
        srcs = [rp['src']]
        print(f'replaying {replay}: {json.dumps(rp["src"])[:300]}')
    else:
        if hasattr(mod, 'design'):
            design = mod.design(tier, seed)
        srcs = list(mod.sources(tier, seed, ctx))
        if hasattr(mod, 'probes'):
            srcs += list(mod.probes())
    # ---- record + judge, in slices (bounded memory for the thorough tiers) -------------------
    SLICE = int(os.environ.get('VERIF_SLICE', '30000'))
    if hasattr(mod, 'post_judge') or len(srcs) <= SLICE:
        slices = [srcs]
    else:
        slices = [srcs[k:k + SLICE] for k in range(0, len(srcs), SLICE)]
    jenv = getattr(mod, 'JUDGE_ENV', None)
    verdicts = []
    jstats = {'generated': 0, 'distinct': 0, 'chunks': 0, 'tlc_wall_s': 0.0, 'drift': [], 'notes': []}
    byid = {}          # failing / probe cases (and everything when there is a single slice)
    distinct = set()
    feats = {}
    samples = []
    ncases = 0
    rec_s = 0.0
    all_cases = []
    for sl in slices:
        t_rec = time.time()
        recs = record_all(modname, sl, jobs)
        cases = []
        for c in recs:
            if isinstance(c, list):
                cases.extend(c)
            else:
                cases.append(c)
        for c in cases:
            if '__harness_error__' in c:
                raise MachineryError('recorder failed on %s:\n%s' % (json.dumps(c['src'])[:500], c['__harness_error__']))
            c['id'] = f'{prop}-{ncases}'
            ncases += 1
        rec_s += time.time() - t_rec
        v, js = tlc.run_judge([strip_src(c) for c in cases], tag=f'{prop}-judge', jobs=jobs, extra_env=jenv)
        verdicts += list(v)
        for k in ('generated', 'distinct', 'chunks', 'tlc_wall_s'):
            jstats[k] += js[k]
        jstats['drift'] += js.get('drift', [])
        failing = {cid for cid, _, _ in v}
        for c in cases:
            if not replay and not (c.get('kind') == 'same' and c.get('exc') == 'DidNotReturn'):
                if mod.nontrivial(c):
                    distinct.add(canonical(strip_src({k: v_ for k, v_ in c.items() if k != 'id'})))
                if hasattr(mod, 'features'):
                    for ft in mod.features(c):
                        feats[ft] = feats.get(ft, 0) + 1
            if c['id'] in failing or c.get('src', {}).get('probe') or len(slices) == 1:
                byid[c['id']] = c
        if len(samples) < 3 and cases:
            samples.append(strip_src(cases[len(cases) // 2]))
        if len(slices) == 1:
            all_cases = cases
    cases = all_cases if len(slices) == 1 else list(byid.values())
    if hasattr(mod, 'post_judge'):
        extra, pst = mod.post_judge(cases, tier, seed)
        verdicts = list(verdicts) + list(extra)
        if not replay:
            design['states'] += pst.get('states', 0)
            design['transitions'] += pst.get('transitions', 0)
            design['runs'].append(pst.get('note', ''))
    fails = {}
    for cid, step, clauses in verdicts:
        fails.setdefault(cid, []).append((step, clauses))

    # ---- attribution to known findings ------------------------------------------------
    attributed = {}  # cid -> key
    # (a) named deviations: re-judge failing cases with the deviation switched on
    for f in known:
        a = f.get('attribution', {})
        if a.get('type') != 'deviation':
            continue
        todo = [cid for cid in fails if cid not in attributed]
        if not todo:
            break
        env = dict(jenv or {})
        env['DEV'] = a['name']
        v2, _ = tlc.run_judge([strip_src(byid[cid]) for cid in todo], tag=f'{prop}-dev', jobs=jobs, extra_env=env)
        still = {cid for cid, _, _ in v2}
        for cid in todo:
            if cid not in still:
                attributed[cid] = f['key']
    # (b) call-site signatures
    for f in known:
        a = f.get('attribution', {})
        if a.get('type') != 'callsite' or not hasattr(mod, 'attribute'):
            continue
        for cid in fails:
            if cid in attributed:
                continue
            allcl = [cl for _, cls in fails[cid] for cl in cls]
            if mod.attribute(byid[cid], allcl, f):
                attributed[cid] = f['key']

    # (c) a call-site finding explains the calls its defect reaches, not every failure at that site: a finding may
    # state the largest number of attributed cases per 1000 explored calls ever seen on the unchanged tree times a
    # safety factor (`max_per_1000`); beyond it the site is being reached by something else and nothing is attributed
    voided = {}
    if replay:
        # a replayed case whose attribution was voided in the run that wrote it stays a violation
        for key in rp.get('voided_findings', []):
            for cid in [c_ for c_, k_ in attributed.items() if k_ == key]:
                del attributed[cid]
    if not replay and ncases >= 200:
        per = {}
        for cid, key in attributed.items():
            per.setdefault(key, []).append(cid)
        for f in known:
            cap = f.get('attribution', {}).get('max_per_1000')
            got = per.get(f['key'], [])
            if cap is not None and len(got) * 1000 > cap * ncases:
                voided[f['key']] = len(got)
                for cid in got:
                    del attributed[cid]
        for key, n_ in voided.items():
            print(f'NOTE finding {key} explains at most {[f for f in known if f["key"] == key][0]["attribution"]["max_per_1000"]} '
                  f'per 1000 explored calls; {n_} of {ncases} failed at its call site - not attributed')

    # ---- report --------------------------------------------------------------------------
    probe_state = {}
    for c in cases:
        key = c.get('src', {}).get('probe')
        if key:
            probe_state[key] = (c['id'] in fails, attributed.get(c['id']))
    counts = {}
    for cid, key in attributed.items():
        counts[key] = counts.get(key, 0) + 1
    for f in known:
        key = f['key']
        failing, akey = probe_state.get(key, (None, None))
        if failing and akey == key:
            print(f'KNOWN-FINDING: property={prop} {f["what"]} [key={key}; {counts.get(key, 0)} explored case(s) attributed]')
        elif failing is False:
            print(f'NOTE finding {key} no longer reproduces (probe passes)')
        elif failing is None and counts.get(key):
            print(f'KNOWN-FINDING: property={prop} {f["what"]} [key={key}; {counts[key]} explored case(s) attributed]')
    for cid, step, ds in jstats.get('drift', [])[:15]:
        print(f'DRIFT {cid} step {step}: {ds}  (model/implementation disagreement, not a property violation)')
    violations = [cid for cid in fails if cid not in attributed]
    rdir = os.path.join(os.environ.get('VERIF_REPLAY_DIR') or os.path.join(VERIF, 'replays'), prop)
    shown = 0
    for cid in violations[:60]:
        os.makedirs(rdir, exist_ok=True)
        c = byid[cid]
        path = os.path.join(rdir, f'{cid}-{canonical(c.get("src"))[:10]}.json')
        with open(path, 'w') as fh:
            json.dump({'property': prop, 'seed': seed, 'tier': tier, 'src': c.get('src'), 'fails': fails[cid], 'case': strip_src(c),
                       'voided_findings': sorted(voided)}, fh, indent=1, default=str)
        if shown < 25:
            print(f'VIOLATION property={prop} replay={path}')
            print(f'   failing clauses: {fails[cid]}  src={json.dumps(c.get("src"), default=str)[:240]}')
            shown += 1
    if len(violations) > shown:
        print(f'   ... and {len(violations) - shown} more violations (replay files written for the first 60)')

    # ---- evidence --------------------------------------------------------------------------
    if not replay:
        for s_ in samples:
            txt = json.dumps(s_)
            if len(txt) > 4000:
                s_.clear()
                s_['truncated_case_json'] = txt[:4000]
        ev = {
            'property_id': prop,
            'tier': tier,
            'seed': seed,
            'level': mod.LEVEL,
            'coverage': {
                'evaluations': ncases,
                'distinct_nontrivial': len(distinct),
                'rule': mod.RULE,
                'samples': samples,
                'states': design['states'] + jstats['distinct'] + ctx.get('gen_states', 0),
                'transitions': design['transitions'] + jstats['generated'] + ctx.get('gen_transitions', 0),
                'traces_validated_against_impl': ncases,
                'design_runs': design['runs'],
                'generation': ctx.get('gen_note', ''),
                'reach': feats,
                'judge_steps': jstats['distinct'],
                'attributed_to_known_findings': counts,
                'drift_steps': len(jstats.get('drift', [])),
                'drift_kinds': sorted({d for _, _, ds in jstats.get('drift', []) for d in ds})[:40],
                'exhaustive': bool(ctx.get('exhaustive', False)),
                'record_wall_s': round(rec_s, 2),
                'tlc_judge_wall_s': round(jstats['tlc_wall_s'], 2),
            },
            'assumptions': list(mod.ASSUMPTIONS),
            'wall_s': round(time.time() - t0, 2),
            'violations': len(violations),
        }
        evdir = os.environ.get('VERIF_EVIDENCE_DIR') or os.path.join(VERIF, 'evidence')
        os.makedirs(evdir, exist_ok=True)
        with open(os.path.join(evdir, f'{prop}.json'), 'w') as fh:
            json.dump(ev, fh, indent=1, default=str)
    print(
        f'{prop} tier={tier} seed={seed}: {ncases} cases judged by TLC '
        f'({jstats["distinct"]} judge states), {len(violations)} violation(s), '
        f'{len(attributed)} attributed to known findings, {time.time() - t0:.1f}s'
    )
    return 1 if violations else 0
