"""./check selftest - demonstrates that the specification is bound to the code and that the
verdicts are not vacuous (DESIGN section 8).  Developer tool, not a registered check.

 1. corrupt-a-field: recorded cases that pass are altered in one field (a users entry dropped,
    a truth-table row flipped, a CNF literal negated, an encoded byte changed, a traversal event
    removed) and must then be rejected by the trace judge with the expected clause;
 2. spec mutation: the CircuitAPI model with the historical right-connect deviation switched on
    must violate its users-index invariant (TLC finds the 2-call counterexample);
 3. action coverage: every action of CircuitAPI occurs in the transitions TLC emits.
"""
import copy
import json
import os

from . import apigen, hist, tlc
from .runner import strip_src


def _judge(cases):
    for n, c in enumerate(cases):
        c['id'] = f'st-{n}'
    v, st = tlc.run_judge([strip_src(c) for c in cases], tag='selftest', jobs=4)
    return {cid: cl for cid, _, cl in v}


def main():
    from .drivers import c01, c05, c16, c20

    ok = True
    base = []
    e = c01.record({'k': 'eval', 'net': [2, [['AND', [1, 2]], ['XOR', [3, 1]]]], 'outs': [4, 3], 'variant': 'plain', 'vs': 1})
    base.append(('C01 truth-table row flipped', e, lambda c: c['obs']['tt'][0].append(0) if 0 not in c['obs']['tt'][0] else c['obs']['tt'][0].remove(0), 'get_truth_table'))
    h = hist.run_history([{'a': 'add_gate', 'l': 'a', 't': 'INPUT', 'ops': []}, {'a': 'add_gate', 'l': 'b', 't': 'NOT', 'ops': ['a']}], 'C02')
    base.append(('C02 users entry dropped', h, lambda c: c['steps'][1]['post']['u'].pop('a'), 'WF3-users-index'))
    k = c05.record({'k': 'cnf', 'net': [2, [['AND', [1, 2]]]], 'outs': [3], 'sel': None, 'variant': 'plain', 'vs': 0})
    base.append(('C05 CNF literal negated', k, lambda c: c['cnf'][0].__setitem__(0, -c['cnf'][0][0]), 'cnf-not-exact'))
    d = c16.record({'k': 'codec', 'net': [2, [['AND', [1, 2]], ['XOR', [3, 1]]]], 'outs': [4], 'variant': 'plain', 'vs': 0, 'db': False})
    base.append(('C16 encoded byte changed', d, lambda c: c['bytes'].__setitem__(2, c['bytes'][2] ^ 0x10), 'bytes-do-not-follow-the-documented-format'))
    t = [x for x in c20.record({'k': 'trav', 'net': [2, [['AND', [1, 2]], ['NOT', [3]]]], 'outs': [4], 'variant': 'plain', 'vs': 0, 'ts': 5}) if x['kind'] == 'trav' and x['mode'] == 'DFS' and 'exit' in x['hooks']][0]

    def drop_exit(c):
        j = [n for n, ev in enumerate(c['ev']) if ev['e'] == 'exit'][0]
        c['ev'].pop(j)
    base.append(('C20 exit event removed', t, drop_exit, 'exit-hooks-exactly-the-reached-gates'))
    clean = [copy.deepcopy(c) for _, c, _, _ in base]
    res = _judge(clean)
    if res:
        print('SELFTEST FAIL: uncorrupted cases were rejected:', res)
        ok = False
    bad = []
    for name, c, mut, clause in base:
        cc = copy.deepcopy(c)
        mut(cc)
        bad.append(cc)
    res = _judge(bad)
    for (name, _, _, clause), cc in zip(base, bad):
        got = res.get(cc['id'], [])
        good = clause in got
        print(f'  corrupt-a-field: {name}: rejected with {got} -> {"ok" if good else "MISSING " + clause}')
        ok &= good
    # 1b. trace specifications bound to call traces: a multiplier's own call trace with one step removed, and an
    # arithmetic netlist with one operand order swapped, must be reported as drift
    from .drivers import c08, c09
    mc = c08.record({'fn': 'mul', 'n': 3, 'm': 4, 'mode': 'DADDA', 'big': False, 'gen': True, 'host': None})
    dc = c09.record({'fn': 'divmod', 'n': 3, 'big': False, 'gen': True, 'host': None})
    mc2, dc2 = copy.deepcopy(mc), copy.deepcopy(dc)
    pops = [j for j, ev in enumerate(mc2['ledger']['ev']) if ev['e'] == 'pop']
    mc2['ledger']['ev'].pop(pops[len(pops) // 2])
    new = [l for l in dc2['post']['ord'] if l not in dc2['pre']['g']]
    gsw = next(dc2['post']['g'][l] for l in new if len(set(dc2['post']['g'][l]['o'])) == 2 and dc2['post']['g'][l]['t'] in ('GT', 'LT'))
    gsw['o'] = list(reversed(gsw['o']))
    allc = [mc, dc, mc2, dc2]
    for n, c in enumerate(allc):
        c['id'] = f'tr-{n}'
    v, st = tlc.run_judge([strip_src(c) for c in allc], tag='selftest-tr', jobs=2)
    drift = {cid: ds for cid, _, ds in st.get('drift', [])}
    good = 'tr-0' not in drift and 'tr-1' not in drift and 'tr-2' in drift and 'tr-3' in drift
    print(f'  call-trace binding: intact traces accepted, corrupted ones drift {sorted(drift.items())} -> {"ok" if good else "FAILED"}')
    ok &= good
    # 2. spec mutation
    wd = tlc.workdir('selftest-api')
    cfg = os.path.join(wd, 'dev.cfg')
    apigen.write_cfg(cfg, {'Depth': 3, 'DevNoUsers': 'TRUE', 'EmitAll': 'FALSE'})
    r = tlc.run_model('MC_API', cfg, workers=8, tag='selftest-run', allow_violation=True, xmx='4g')
    viol = 'Invariant InvWF3 is violated' in r['stdout']
    print(f'  spec mutation: CircuitAPI with DevNoUsers violates InvWF3 -> {"ok" if viol else "NOT DETECTED"}')
    ok &= viol
    tlc.cleanup(wd)
    tlc.cleanup(r['workdir'])
    # 3. action coverage
    hs, st = apigen.bfs_transitions({'Depth': 3}, tag='selftest-bfs')
    seen = {a['a'] for hh in hs for a in hh}
    need = {'add_gate', 'remove_gate', 'rename_gate', 'mark_as_output', 'set_outputs', 'set_inputs', 'order_inputs', 'order_outputs',
            'replace_inputs', 'make_block', 'delete_block', 'remove_block', 'connect', 'into_bench', 'replace_subcircuit'}
    print(f'  action coverage: {len(seen & need)}/{len(need)} actions occur in {len(hs)} emitted transitions; missing {sorted(need - seen)}')
    ok &= need <= seen
    print('SELFTEST', 'PASSED' if ok else 'FAILED')
    return 0 if ok else 1
