"""Runs ONE minimize_subcircuits call in a fresh interpreter (own PYTHONHASHSEED / VF_CUT_SEED)
and prints the recorded observation as JSON on stdout."""
import copy
import json
import sys
import traceback


def main():
    src = json.loads(sys.stdin.read())
    import vf  # noqa: F401  (path setup, shims)
    from vf import gen
    from vf.project import project
    from cirbo.minimization.subcircuit import minimize_subcircuits
    from cirbo.synthesis.circuit_search import Basis

    import mockturtle_wrapper as mw
    import cirbo.minimization.subcircuit as sub

    captured = {}
    real = mw.enumerate_cuts

    def capture(*a, **k):
        res = real(*a, **k)
        if 'cuts' not in captured:
            captured['cuts'] = {n: [list(c) for c in cs] for n, cs in res.items()}
        return res

    class _MW:
        enumerate_cuts = staticmethod(capture)

    sub.mw = _MW  # observe the cut family the enumerator supplied (first call only)
    # observe (from outside) the truth tables with don't-cares the function derives for the cones it hands to
    # the synthesiser, together with the circuit they were derived from (the working copy at that moment)
    cones = []
    cur = {}
    real_dc = sub._eval_dont_cares

    def dc_wrapper(circuit, subcircuits, *a, **k):
        cur['c'] = circuit
        return real_dc(circuit, subcircuits, *a, **k)

    sub._eval_dont_cares = dc_wrapper
    real_tt = sub._Subcircuit.evaluate_truth_table_with_dont_cares

    def tt_wrapper(self_):
        table = real_tt(self_)
        try:
            if len(cones) < 6 and 'c' in cur and len(cur['c'].gates) <= 24 and not out.get('first'):
                code = lambda v: 1 if v is True else 0 if v is False else 2
                cones.append({'cur': project(cur['c'], users=False, blocks=False), 'ins': list(self_.inputs), 'outs': list(self_.outputs),
                              'table': [[code(v) for v in row] for row in table]})
        except Exception:
            pass
        return table

    sub._Subcircuit.evaluate_truth_table_with_dont_cares = tt_wrapper
    ni, gs = src['net']
    import random as _random

    def twin_labels():
        # labels that differ from one another only in letter case or in zero padding (a / A, x1 / x01, n3 / N3)
        ins = ['a', 'A', 'b', 'B', 'x1', 'x01', 'c', 'C'][:ni]
        gl = [(f'n{k // 2}' if k % 2 == 0 else f'N{k // 2}') if k % 4 < 2 else (f'w{k // 2}' if k % 2 == 0 else f'w0{k // 2}') for k in range(len(gs))]
        return ins + gl

    def build():
        net = (ni, [(t, list(o)) for t, o in gs])
        if src.get('twins') and ni <= 8:
            return gen.materialize(net, labels=twin_labels(), outputs=src['outs'])
        if src.get('storage') == 'shuffled':
            order = list(range(ni + len(gs)))
            _random.Random(src.get('ss', 0)).shuffle(order)
            return gen.materialize(net, outputs=src['outs'], storage=order)
        return gen.materialize(net, outputs=src['outs'])

    c = gen.clone(build(), {1: 1, 2: 2}.get(src.get('ss', 0) % 4, 0))     # a quarter deep-copied, a quarter pickled
    orig = project(copy.deepcopy(c))
    out = {'orig': orig, 'exc': '', 'where': '', 'stmt': ''}
    basis = src['basis']
    if src.get('basis_enum'):
        basis = Basis[basis.upper()]
    try:
        res = minimize_subcircuits(
            c, basis, enable_validation=src['validation'], max_subcircuit_size=src['max_size'],
            solver_time_limit_sec=src['time_limit'], cut_size=src['cut_size'], cut_limit=src['cut_limit'])
        supported = {'INPUT', 'NOT', 'AND', 'NAND', 'OR', 'NOR', 'XOR', 'NXOR', 'GEQ', 'GT', 'LEQ', 'LT'}
        # a second pass only if the first result is still a circuit over the supported gate set
        if src.get('twice') and all(g.gate_type.name in supported for g in res.gates.values()):
            out['first'] = project(res)
            res = minimize_subcircuits(
                res, basis, enable_validation=src['validation'], max_subcircuit_size=src['max_size'],
                solver_time_limit_sec=src['time_limit'], cut_size=src['cut_size'], cut_limit=src['cut_limit'])
        out['res'] = project(res)
    except Exception as e:
        out['exc'] = type(e).__name__
        if out['exc'] == 'FailedValidationError':
            # validation only REPORTS the wrong result: fetch that result for the judge
            try:
                c2 = build()
                res2 = minimize_subcircuits(
                    c2, basis, enable_validation=False, max_subcircuit_size=src['max_size'],
                    solver_time_limit_sec=src['time_limit'], cut_size=src['cut_size'], cut_limit=src['cut_limit'])
                out['res'] = project(res2)
                out['has_res'] = True
            except Exception:
                pass
        tb = traceback.extract_tb(e.__traceback__)
        frames = [f for f in tb if '/cirbo/' in f.filename]
        if frames:
            out['where'] = frames[-1].name
            out['stmt'] = ' '.join((frames[-1].line or '').split())
            out['chain'] = [f.name for f in frames][-4:]
    out['cuts'] = captured.get('cuts', {})
    out['cones'] = cones
    print(json.dumps(out))


if __name__ == '__main__':
    main()
