"""Seeded random histories of public mutator calls, generated adaptively against the live
circuit (so that most calls are valid) with a share of deliberately invalid arguments."""

import random

from . import gen, hist
from .project import project

TYPES = gen.ALL18


def random_small_circuit(rng, prefix='s', ni=None, ng=None, types=TYPES):
    ni = rng.randint(1, 3) if ni is None else ni
    ng = rng.randint(1, 4) if ng is None else ng
    net = gen.random_netlist(rng, ni, ng, types, amax=3)
    labels = [f'{prefix}i{j}' for j in range(ni)] + [f'{prefix}g{k}' for k in range(ng)]
    outs = gen.pick_outputs(rng, ni, ng, kind=rng.choice(['last', 'some', 'withinput', 'dup']))
    gates, ins, outl = gen.netlist_data(net, labels, outs)
    rec = {'g': {l: {'t': t, 'o': o} for l, t, o in gates}, 'ord': [g[0] for g in gates], 'i': ins, 'o': outl, 'b': {}}
    if rng.random() < 0.3 and ng:
        rec['b'] = {prefix + 'blk': {'i': [], 'g': [labels[ni]], 'o': [labels[ni]]}}
    return rec


class Chooser:
    def __init__(self, seed, weights=None):
        self.rng = random.Random(seed)
        self.fresh = 0
        self.weights = weights or {}

    @staticmethod
    def _bad_order(q, pool, bad, rng):
        """Arguments of order_inputs / order_outputs that must be refused: an unknown label, or - at exactly the full
        length, where an implementation may take a permutation shortcut - a label repeated in place of another."""
        if not bad:
            return q
        how = rng.randrange(3)
        if how == 0 or len(pool) < 2:
            return q + ['missing']
        full = rng.sample(pool, len(pool))
        if how == 1:
            full[rng.randrange(1, len(full))] = full[0]
            return full
        return full[:-1] + ['missing']

    def new_label(self):
        self.fresh += 1
        return f'n{self.fresh}'

    def __call__(self, c):
        rng = self.rng
        labels = list(c.gates)
        ins = list(c.inputs)
        outs = list(c.outputs)
        blocks = list(c.blocks)
        bad = rng.random() < 0.06  # deliberately invalid argument somewhere
        kinds = [
            ('add_input', 3), ('add_gate', 10), ('remove_gate', 3), ('rename_gate', 3), ('mark_as_output', 2),
            ('set_outputs', 2), ('set_inputs', 1), ('order_inputs', 1), ('order_outputs', 1),
            ('replace_inputs', 1.5), ('make_block', 1.5), ('make_block_from_slice', 1), ('delete_block', 0.7),
            ('remove_block', 0.7), ('connect', 4), ('into_bench', 0.7), ('replace_subcircuit', 1.5), ('copy', 0.7),
            ('add_inputs', 0.5),
        ]
        kinds = [(k, self.weights.get(k, w)) for k, w in kinds]
        if not labels:
            kinds = [('add_input', 1), ('add_inputs', 1), ('connect', 0.5)]
        k = rng.choices([x[0] for x in kinds], [x[1] for x in kinds])[0]
        # keep truth tables small for the judge: at most 6 inputs, 16 gates
        if len(ins) >= 5 and k in ('add_input', 'add_inputs', 'connect') and labels:
            k = 'add_gate'
        if len(labels) >= 16 and k in ('add_gate', 'connect', 'add_input', 'add_inputs'):
            k = rng.choice(['remove_gate', 'rename_gate', 'set_outputs', 'replace_subcircuit', 'replace_inputs'])
        pick = lambda seq: rng.choice(seq) if seq else 'nope'
        if k == 'add_input':
            return {'a': 'add_gate', 'l': pick(labels) if bad and labels else self.new_label(), 't': 'INPUT', 'ops': []}
        if k == 'add_inputs':
            q = [self.new_label() for _ in range(rng.randint(1, 3))]
            if bad:     # a label that exists already, or one label twice within the call
                q = q + ([pick(labels)] if labels and rng.random() < 0.5 else [q[0]])
            return {'a': 'add_inputs', 'q': q}
        if k == 'add_gate':
            t = rng.choice(TYPES)
            n = 0 if t in gen.NULLARY else 1 if t in gen.UNARY else 2 if t in gen.BINARY else rng.choice([2, 2, 3, 4])
            ops = [pick(labels) for _ in range(n)]
            if bad and ops:
                ops[0] = 'missing'
            return {'a': 'add_gate', 'l': self.new_label(), 't': t, 'ops': ops, 'via': rng.choice(['add_gate', 'emplace_gate'])}
        if k == 'remove_gate':
            free = [l for l in labels if not c.get_gate_users(l)]
            return {'a': 'remove_gate', 'l': pick(labels) if bad or not free else rng.choice(free)}
        if k == 'rename_gate':
            return {'a': 'rename_gate', 'old': pick(labels), 'new': pick(labels) if bad else self.new_label()}
        if k == 'mark_as_output':
            return {'a': 'mark_as_output', 'l': 'missing' if bad else pick(labels)}
        if k == 'set_outputs':
            return {'a': 'set_outputs', 'q': [pick(labels) for _ in range(rng.randint(0, 3))] + (['missing'] if bad else [])}
        if k == 'set_inputs':
            q = list(ins)
            rng.shuffle(q)
            if bad and q:
                how = rng.randrange(3)      # an input dropped / repeated / a label that is no gate
                q = q[:-1] if how == 0 else (q[:-1] + [q[0]] if how == 1 else q[:-1] + ['missing'])
            return {'a': 'set_inputs', 'q': q}
        if k == 'order_inputs':
            q = rng.sample(ins, rng.randint(0, len(ins))) if ins else []
            return {'a': 'order_inputs', 'q': self._bad_order(q, ins, bad, rng)}
        if k == 'order_outputs':
            q = rng.sample(outs, rng.randint(0, len(outs))) if outs else []
            return {'a': 'order_outputs', 'q': self._bad_order(q, outs, bad, rng)}
        if k == 'replace_inputs':
            sel = rng.sample(ins, min(len(ins), rng.randint(0, 2)))
            cut = rng.randint(0, len(sel))
            T, F = sel[:cut], sel[cut:]
            if bad and labels:
                T = T + [pick(labels)]
            return {'a': 'replace_inputs', 'T': T, 'F': F}
        if k == 'make_block':
            gs = rng.sample(labels, min(len(labels), rng.randint(1, 3)))
            act = {'a': 'make_block', 'n': pick(blocks) if bad and blocks else f'blk{self.new_label()}', 'gs': gs,
                   'outs': [x for x in gs if rng.random() < 0.7]}
            if rng.random() < 0.3:
                act['ins'] = [pick(labels) for _ in range(rng.randint(0, 2))]
            if bad and rng.random() < 0.6:      # a label that names no gate among the members / outputs / inputs
                which = rng.choice(['gs', 'outs', 'ins'])
                act[which] = list(act.get(which, [])) + ['missing']
            return act
        if k == 'make_block_from_slice':
            outs_ = [pick(labels) for _ in range(rng.randint(1, 2))]
            insl = [l for l in labels if rng.random() < 0.5]
            if bad:
                (insl if rng.random() < 0.5 else outs_).append('missing')
            return {'a': 'make_block_from_slice', 'n': f'blk{self.new_label()}', 'ins': insl, 'outs': outs_}
        if k == 'delete_block':
            return {'a': 'delete_block', 'n': pick(blocks)} if blocks else {'a': 'mark_as_output', 'l': pick(labels)}
        if k == 'remove_block':
            return {'a': 'remove_block', 'n': pick(blocks)} if blocks else {'a': 'mark_as_output', 'l': pick(labels)}
        if k == 'connect':
            pfx = self.new_label()
            other = random_small_circuit(rng, prefix=pfx, ni=rng.randint(1, max(1, min(3, 6 - len(ins)))))
            right = rng.random() < 0.5
            name = rng.choice(['', 'B' + pfx])
            addp = rng.random() < 0.7
            via = rng.choice(['connect_circuit'] * 4 + ['connect_left', 'connect_right', 'connect_inputs', 'extend_circuit', 'add_circuit'])
            og = list(other['g'])
            if via == 'connect_circuit':
                if right:
                    m = rng.randint(0, min(len(ins), 3))
                    tc = rng.sample(ins, m)
                    oc = [rng.choice(og) for _ in range(m)]
                else:
                    m = rng.randint(0, len(other['i']))
                    oc = rng.sample(other['i'], m)
                    tc = [pick(labels) for _ in range(m)] if labels else []
                    if not labels:
                        oc = []
                if bad and tc:
                    tc[0] = 'missing'
            elif via == 'connect_left':
                right = False
                oc = list(other['i'])
                tc = [pick(labels) for _ in oc] if labels else []
                if not labels:
                    via, tc, oc = 'add_circuit', [], []
            elif via == 'connect_right':
                right = True
                tc = list(ins)
                oc = [rng.choice(og) for _ in tc]
            elif via == 'connect_inputs':
                right = True
                tc = list(ins)
                oc = list(other['i'])
            elif via == 'extend_circuit':
                tc = list(ins) if right else list(outs)
                oc = list(other['o']) if right else list(other['i'])
            else:
                right = False
                tc, oc = [], []
            act = {'a': 'connect', 'other': other, 'tc': tc, 'oc': oc, 'right': right, 'name': name, 'pfx': addp, 'via': via}
            oc_how = rng.choice([0, 0, 0, 1, 2])
            if oc_how:
                act['oclone'] = oc_how
            return act
        if k == 'into_bench':
            return {'a': 'into_bench'}
        if k == 'copy':
            how = rng.choice(['', '', 'deep', 'pickle'])
            return {'a': 'copy', 'how': how} if how else {'a': 'copy'}
        if k == 'replace_subcircuit':
            return self.replace_subcircuit(c, bad)
        raise AssertionError(k)

    def replace_subcircuit(self, c, bad):
        """Pick a cone bounded by a random cut and replace it by a relabelled copy of itself
        (sometimes through its bench conversion); occasionally a wrong mapping."""
        rng = self.rng
        from cirbo.core.circuit import gate as G

        gates = c.gates
        non_inputs = [l for l, g in gates.items() if g.gate_type != G.INPUT]
        if not non_inputs:
            return {'a': 'mark_as_output', 'l': rng.choice(list(gates))}
        roots = rng.sample(non_inputs, min(len(non_inputs), rng.randint(1, 2)))
        cone, leaves, stack = set(), [], list(roots)
        depth_budget = rng.randint(1, 5)
        while stack:
            l = stack.pop()
            if l in cone or l in leaves:
                continue
            g = gates[l]
            if g.gate_type == G.INPUT or (len(cone) >= depth_budget and l not in roots) or (l not in roots and rng.random() < 0.25):
                leaves.append(l)
                continue
            cone.add(l)
            stack.extend(g.operands)
        leaves = [l for l in dict.fromkeys(leaves) if l not in cone]
        tag = self.new_label()
        im = {l: f'{tag}_in{j}' for j, l in enumerate(leaves)}
        # outputs of the cone: roots + cone gates used outside or being circuit outputs
        outs = []
        for l in cone:
            if l in roots or l in c.outputs or any(u not in cone for u in c.get_gate_users(l)):
                outs.append(l)
        om = {l: f'{tag}_out{j}' for j, l in enumerate(outs)}
        ren = dict(im)
        ren.update(om)
        for l in cone:
            ren.setdefault(l, f'{tag}_g_{l}')
        # now and then an internal gate of the replacement carries the label of a host gate that stays
        # outside the replaced cone (a label collision: the call must refuse it or still be correct)
        inner = [l for l in cone if l not in outs]
        outside = [l for l in gates if l not in cone and l not in leaves]
        if inner and outside and rng.random() < 0.15:
            ren[rng.choice(inner)] = rng.choice(outside)
        sub = {'g': {}, 'ord': [], 'i': [im[l] for l in leaves], 'o': [om[l] for l in outs], 'b': {}}
        for l in leaves:
            sub['g'][im[l]] = {'t': 'INPUT', 'o': []}
        order = [g.label for g in c.top_sort(inverse=True) if g.label in cone]
        for l in order:
            g = gates[l]
            sub['g'][ren[l]] = {'t': g.gate_type.name, 'o': [ren[o] for o in g.operands]}
        if bad and outs:
            om.pop(outs[0])
        return {'a': 'replace_subcircuit', 'equiv': not (bad and outs), 'sub': sub, 'im': [[k, v] for k, v in im.items()], 'om': [[k, v] for k, v in om.items()]}


def random_history(seed, n, prop='C02', weights=None, init=None):
    ch = Chooser(seed, weights)
    return hist.run_history(None, prop, init=init, chooser=ch, n=n)
