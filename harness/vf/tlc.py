"""Launching TLC and reading what it prints.

Two uses:
  * run_model  - design-level model checking / generation runs of a spec with a cfg;
  * run_judge  - batch trace validation: recorded cases are written as JSON chunks, one
                 JVM (-workers 1, deterministic) per chunk, up to `jobs` in parallel; the
                 trace specification prints one  <<"VERDICT", case-id, step, clauses>>
                 tuple for every step that fails a property clause and must consume every
                 step of every case (POSTCONDITION), otherwise the run is a machinery error.
"""

import concurrent.futures
import json
import os
import re
import shutil
import subprocess
import time

from . import SPECS, VERIF

JAR = '/opt/veriftools/tla/tla2tools.jar'
CM = '/opt/veriftools/tla/CommunityModules-deps.jar'


class MachineryError(Exception):
    """TLC crashed, did not finish, or did not consume the whole trace."""


def workdir(tag: str) -> str:
    d = os.path.join(VERIF, '.work', f'{tag}-{os.getpid()}')
    os.makedirs(d, exist_ok=True)
    return d


def cleanup(d: str):
    shutil.rmtree(d, ignore_errors=True)


def java_cmd(xmx='3g', props=()):
    return [
        'java',
        '-XX:+UseParallelGC',
        f'-Xmx{xmx}',
        '-Xss64m',
        *props,
        '-cp',
        f'{JAR}:{CM}',
        'tlc2.TLC',
    ]


# ----------------------------------------------------------------------------------
# A small reader for the TLA+ values TLC prints (tuples, sets, records, strings, ints).
# ----------------------------------------------------------------------------------
class _P:
    def __init__(self, s):
        self.s = s
        self.i = 0

    def ws(self):
        while self.i < len(self.s) and self.s[self.i] in ' \t\r\n':
            self.i += 1

    def val(self):
        self.ws()
        s = self.s
        if s.startswith('<<', self.i):
            self.i += 2
            out = []
            self.ws()
            if s.startswith('>>', self.i):
                self.i += 2
                return out
            while True:
                out.append(self.val())
                self.ws()
                if s.startswith('>>', self.i):
                    self.i += 2
                    return out
                assert s[self.i] == ',', (s[self.i - 20 : self.i + 20])
                self.i += 1
        if s[self.i] == '{':
            self.i += 1
            out = []
            self.ws()
            if s[self.i] == '}':
                self.i += 1
                return out
            while True:
                out.append(self.val())
                self.ws()
                if s[self.i] == '}':
                    self.i += 1
                    return out
                assert s[self.i] == ','
                self.i += 1
        if s[self.i] == '[':
            self.i += 1
            out = {}
            self.ws()
            if s[self.i] == ']':
                self.i += 1
                return out
            while True:
                self.ws()
                m = re.compile(r'[A-Za-z0-9_]+').match(s, self.i)
                key = m.group(0)
                self.i = m.end()
                self.ws()
                assert s.startswith('|->', self.i)
                self.i += 3
                out[key] = self.val()
                self.ws()
                if s[self.i] == ']':
                    self.i += 1
                    return out
                assert s[self.i] == ','
                self.i += 1
        if s[self.i] == '(':  # function printed as (a :> 1 @@ b :> 2)
            self.i += 1
            out = {}
            while True:
                k = self.val()
                self.ws()
                assert s.startswith(':>', self.i)
                self.i += 2
                v = self.val()
                out[k if isinstance(k, (str, int)) else json.dumps(k)] = v
                self.ws()
                if s[self.i] == ')':
                    self.i += 1
                    return out
                assert s.startswith('@@', self.i)
                self.i += 2
        if s[self.i] == '"':
            j = self.i + 1
            buf = []
            while s[j] != '"':
                if s[j] == '\\':
                    j += 1
                    buf.append({'n': '\n', 't': '\t'}.get(s[j], s[j]))
                else:
                    buf.append(s[j])
                j += 1
            self.i = j + 1
            return ''.join(buf)
        m = re.compile(r'-?\d+').match(s, self.i)
        if m:
            self.i = m.end()
            return int(m.group(0))
        for lit, v in (('TRUE', True), ('FALSE', False)):
            if s.startswith(lit, self.i):
                self.i += len(lit)
                return v
        raise ValueError(f'cannot parse TLA+ value at {s[self.i:self.i+40]!r}')


def parse_value(text: str):
    return _P(text).val()


def printed_values(stdout: str):
    """Yield every top-level value TLC printed with PrintT (tuples and strings only)."""
    lines = stdout.split('\n')
    i = 0
    while i < len(lines):
        ln = lines[i]
        if ln.startswith('<<') or (ln.startswith('"') and ln.rstrip().endswith('"')):
            buf = ln
            # tuples may be wrapped over several lines: extend until brackets balance
            while buf.count('<<') > buf.count('>>') and i + 1 < len(lines):
                i += 1
                buf += '\n' + lines[i]
            try:
                yield parse_value(buf)
            except Exception as e:  # pragma: no cover
                raise MachineryError(f'unparsable TLC output: {buf[:200]!r}: {e}')
        i += 1


_STATS = re.compile(r'(\d+) states generated, (\d+) distinct states found')


def run_model(
    module: str,
    cfg: str,
    *,
    env=None,
    workers=16,
    timeout=3600,
    extra=(),
    tag='model',
    xmx='8g',
    props=(),
    allow_violation=False,
):
    """Run TLC on specs/<module>.tla with specs/<cfg>. Returns a dict with stdout, stats."""
    wd = workdir(tag)
    meta = os.path.join(wd, 'meta')
    cmd = java_cmd(xmx, tuple(props) + (f'-Djava.io.tmpdir={wd}',)) + [
        '-config',
        cfg,
        '-workers',
        str(workers),
        '-metadir',
        meta,
        '-noGenerateSpecTE',
        *extra,
        module,
    ]
    e = dict(os.environ)
    if env:
        e.update({k: str(v) for k, v in env.items()})
    t0 = time.time()
    try:
        p = subprocess.run(
            cmd, cwd=SPECS, env=e, capture_output=True, text=True, timeout=timeout
        )
    except subprocess.TimeoutExpired:
        raise MachineryError(f'TLC timed out after {timeout}s on {module}/{cfg}')
    finally:
        shutil.rmtree(meta, ignore_errors=True)
    out = p.stdout
    m = None
    for m in _STATS.finditer(out):
        pass
    res = {
        'stdout': out,
        'stderr': p.stderr,
        'rc': p.returncode,
        'generated': int(m.group(1)) if m else 0,
        'distinct': int(m.group(2)) if m else 0,
        'wall_s': time.time() - t0,
        'ok': 'Model checking completed. No error has been found.' in out
        or 'Finished in' in out
        and 'Error:' not in out,
        'workdir': wd,
    }
    if not res['ok'] and not allow_violation:
        tail = '\n'.join(out.strip().split('\n')[-40:])
        raise MachineryError(f'TLC failed on {module}/{cfg} (rc={p.returncode}):\n{tail}\n{p.stderr[-2000:]}')
    return res


def _judge_batch(args):
    module, cfg, path, wd, xmx, extra_env, workers, nchains = args
    meta = os.path.join(wd, 'meta' + os.path.basename(path))
    cmd = java_cmd(xmx, (f'-Djava.io.tmpdir={wd}',)) + [
        '-config',
        cfg,
        '-workers',
        str(workers),
        '-metadir',
        meta,
        '-noGenerateSpecTE',
        module,
    ]
    e = dict(os.environ)
    e['CASES'] = path
    e['NCHAINS'] = str(nchains)
    e.update(extra_env)
    t0 = time.time()
    p = subprocess.run(cmd, cwd=SPECS, env=e, capture_output=True, text=True)
    shutil.rmtree(meta, ignore_errors=True)
    return path, p.returncode, p.stdout, p.stderr, time.time() - t0


def run_judge(
    cases,
    *,
    module='Judge',
    cfg='Judge.cfg',
    jobs=16,
    batch_bytes=60_000_000,
    tag='judge',
    xmx='20g',
    keep=False,
    extra_env=None,
):
    """Validate recorded cases with the trace specification.

    One JVM per batch of <= batch_bytes of JSON (JVM start-up is expensive here); inside a
    batch the cases are cut into `jobs` chains judged in parallel by TLC's workers.
    Returns (verdicts, stats): verdicts is a list of (case_id, step, [clause,...]) for
    failing steps. Raises MachineryError if any batch was not fully consumed.
    """
    wd = workdir(tag)
    batches = []
    cur, size = [], 0
    for c in cases:
        s = json.dumps(c, separators=(',', ':'))
        if cur and size + len(s) > batch_bytes:
            batches.append(cur)
            cur, size = [], 0
        cur.append(s)
        size += len(s)
    if cur:
        batches.append(cur)
    jobs_args = []
    for n, ch in enumerate(batches):
        path = os.path.join(wd, f'batch{n}.json')
        with open(path, 'w') as f:
            f.write('[' + ',\n'.join(ch) + ']')
        jobs_args.append(
            (module, cfg, path, wd, xmx, extra_env or {}, jobs, max(1, min(jobs * 4, len(ch))))
        )
    verdicts = []
    stats = {'generated': 0, 'distinct': 0, 'chunks': len(batches), 'tlc_wall_s': 0.0}
    notes = []
    drift = []
    t0 = time.time()
    for ja in jobs_args:
        path, rc, out, err, dt = _judge_batch(ja)
        if rc in (-9, 137):
            # the JVM was killed from outside (memory pressure when several checks share the machine): once more, a little later
            time.sleep(30)
            path, rc, out, err, dt = _judge_batch(ja)
        if 'Model checking completed. No error has been found.' not in out:
            lines = out.strip().split('\n')
            key = [l for l in lines if l.startswith(('Error:', 'Reason', 'Attempted', 'The exception', 'Failed'))][:8]
            tail = '\n'.join(key + ['...'] + lines[-12:])
            raise MachineryError(
                f'trace validation did not complete for {path} (rc={rc}):\n{tail}\n{err[-1500:]}'
            )
        m = None
        for m in _STATS.finditer(out):
            pass
        if m:
            stats['generated'] += int(m.group(1))
            stats['distinct'] += int(m.group(2))
        for v in printed_values(out):
            if isinstance(v, list) and v and v[0] == 'VERDICT':
                verdicts.append((v[1], v[2], sorted(v[3])))
            elif isinstance(v, list) and v and v[0] == 'DRIFT':
                drift.append((v[1], v[2], sorted(v[3])))
            elif isinstance(v, list) and v and v[0] == 'NOTE':
                notes.append(v[1:])
    stats['tlc_wall_s'] = time.time() - t0
    stats['notes'] = notes
    stats['drift'] = drift
    if not keep:
        cleanup(wd)
    return verdicts, stats
