"""Role G for the Circuit state machine: behaviours of specs/CircuitAPI.tla as histories."""
import json
import os

from . import tlc

BASE = dict(Pool='Pool5', Types='T6', AMAX=2, MaxGates=3, MaxOuts=2, Depth=3, BlockNames='Blocks2',
            UseLib='TRUE', DevNoUsers='FALSE', DevNoBlockMember='FALSE', EmitAll='TRUE')
INVS = ['InvWF1', 'InvWF2', 'InvWF3', 'InvWF4', 'InvWF5', 'InvWF6', 'InvUsersTotal']


def write_cfg(path, params, view=True, invariants=INVS, extra='', props=()):
    p = dict(BASE)
    p.update(params)
    with open(path, 'w') as f:
        f.write('SPECIFICATION Spec\nCHECK_DEADLOCK FALSE\n')
        if view:
            f.write('VIEW View\n')
        f.write('CONSTANTS\n')
        for k, v in p.items():
            f.write(f' {k} {"<-" if k in ("Pool", "Types", "BlockNames") else "="} {v}\n')
        for i in invariants:
            f.write(f'INVARIANT {i}\n')
        for pr in props:
            f.write(f'PROPERTY {pr}\n')
        f.write(extra)


def _histories(stdout):
    out = []
    for ln in stdout.split('\n'):
        if ln.startswith('"['):
            out.append(json.loads(json.loads(ln)))
    return out


def bfs_transitions(params, tag='api-bfs', workers=16):
    """Exhaustive BFS; every generated transition is returned as the history reaching it."""
    wd = tlc.workdir(tag)
    cfg = os.path.join(wd, 'api.cfg')
    write_cfg(cfg, dict(params, EmitAll='TRUE'), props=('ModelObeysProperties',))
    res = tlc.run_model('MC_API', cfg, workers=workers, tag=tag + '-run', xmx='12g')
    hs = _histories(res['stdout'])
    tlc.cleanup(wd)
    tlc.cleanup(res['workdir'])
    return hs, {'generated': res['generated'], 'distinct': res['distinct'], 'wall_s': res['wall_s']}


def simulate(params, num, depth, seed, tag='api-sim'):
    """Random behaviours of length `depth` (tlc -simulate), printed at the depth bound."""
    wd = tlc.workdir(tag)
    cfg = os.path.join(wd, 'api.cfg')
    write_cfg(cfg, dict(params, EmitAll='FALSE', Depth=depth), view=False, invariants=INVS + ['EmitAtDepth'])
    res = tlc.run_model(
        'MC_API', cfg, workers=1, tag=tag + '-run', xmx='4g',
        extra=['-simulate', f'num={num}', '-depth', str(depth + 1), '-seed', str(seed)],
    )
    hs = _histories(res['stdout'])
    tlc.cleanup(wd)
    tlc.cleanup(res['workdir'])
    return hs, {'generated': res['generated'], 'distinct': res['distinct'], 'wall_s': res['wall_s']}
