"""Verification harness for SPbSAT/cirbo: binds the TLA+ specification in /verif/specs
to the implementation in /repo.

Importing this package makes `cirbo` importable from /repo's *current working tree*
(cirbo is not installed in /venv) and, if the real `pysat` / `mockturtle_wrapper`
packages are absent, puts the shims in harness/shims on sys.path.
"""

import importlib.util
import os
import sys

VERIF = os.path.dirname(os.path.dirname(os.path.dirname(os.path.abspath(__file__))))
REPO = os.environ.get('VERIF_REPO', '/repo')
SPECS = os.path.join(VERIF, 'specs')
SHIMS = os.path.join(VERIF, 'harness', 'shims')

if REPO not in sys.path:
    sys.path.insert(0, REPO)


def _ensure_shims():
    need = False
    for mod in ('pysat', 'mockturtle_wrapper'):
        try:
            found = importlib.util.find_spec(mod) is not None
        except (ImportError, ValueError):
            found = False
        if not found:
            need = True
    if need and SHIMS not in sys.path:
        sys.path.append(SHIMS)


_ensure_shims()
