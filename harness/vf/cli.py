import argparse
import os
import sys
import traceback


def main():
    ap = argparse.ArgumentParser()
    ap.add_argument('prop')
    ap.add_argument('--tier', default=os.environ.get('VERIF_TIER', 'quick'), choices=['quick', 'thorough'])
    ap.add_argument('--replay', default=None)
    ap.add_argument('--jobs', type=int, default=int(os.environ.get('VERIF_JOBS', '16')))
    a = ap.parse_args()
    seed = int(os.environ.get('VERIF_SEED', '0') or 0)
    from . import runner
    from .tlc import MachineryError

    if a.prop == 'selftest':
        from . import selftest

        sys.exit(selftest.main())
    try:
        rc = runner.run_check(f'vf.drivers.{a.prop.lower()}', a.tier, seed, replay=a.replay, jobs=a.jobs)
    except MachineryError as e:
        print(f'MACHINERY-ERROR {a.prop}: {e}', file=sys.stderr)
        sys.exit(2)
    except Exception:
        traceback.print_exc()
        print(f'MACHINERY-ERROR {a.prop}: unexpected harness exception', file=sys.stderr)
        sys.exit(2)
    sys.exit(rc)


if __name__ == '__main__':
    main()
