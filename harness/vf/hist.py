"""Replaying histories of public mutator calls into the real Circuit and recording, after
every call, the projected abstract state plus the observations the C02 / C10 / C14 / C19
predicates need.  The action vocabulary is the one of specs/CircuitAPI.tla (`hist`)."""

import copy as _copy

from .project import project

LIB = [
    {'g': {'p': {'t': 'INPUT', 'o': []}, 'q': {'t': 'NOT', 'o': ['p']}}, 'ord': ['p', 'q'], 'i': ['p'], 'o': ['q'], 'b': {}},
    {
        'g': {'p': {'t': 'INPUT', 'o': []}, 'r': {'t': 'INPUT', 'o': []}, 'q': {'t': 'AND', 'o': ['p', 'r']}, 'w': {'t': 'XOR', 'o': ['q', 'p']}},
        'ord': ['p', 'r', 'q', 'w'], 'i': ['p', 'r'], 'o': ['w', 'q'],
        'b': {'in': {'i': ['p', 'r'], 'g': ['q'], 'o': ['q']}},
    },
    {'g': {'p': {'t': 'INPUT', 'o': []}, 'q': {'t': 'GT', 'o': ['p', 'p']}}, 'ord': ['p', 'q'], 'i': ['p'], 'o': ['q', 'p'], 'b': {}},
]


def topo(rec):
    done, order = set(), []
    pending = list(rec.get('ord') or rec['g'].keys())
    while pending:
        progressed = False
        rest = []
        for l in pending:
            if all(o in done for o in rec['g'][l]['o']):
                order.append(l)
                done.add(l)
                progressed = True
            else:
                rest.append(l)
        pending = rest
        if not progressed:
            raise ValueError('cyclic abstract circuit')
    return order


def build(rec):
    """abstract record -> cirbo Circuit through the public API."""
    from cirbo.core.circuit import Circuit, gate as G

    c = Circuit()
    for l in topo(rec):
        c.emplace_gate(l, getattr(G, rec['g'][l]['t']), tuple(rec['g'][l]['o']))
    if list(c.inputs) != list(rec['i']):
        c.set_inputs(list(rec['i']))
    c.set_outputs(list(rec['o']))
    for n, b in (rec.get('b') or {}).items():
        c.make_block(n, list(b['g']), list(b['o']), list(b['i']))
    return c


def apply(c, act):
    """Perform one public call. Returns the (possibly new) circuit object."""
    from cirbo.core.circuit import gate as G

    a = act['a']
    if a == 'add_gate':
        if act.get('via') == 'add_gate':
            c.add_gate(G.Gate(act['l'], getattr(G, act['t']), tuple(act['ops'])))
        else:
            c.emplace_gate(act['l'], getattr(G, act['t']), tuple(act['ops']))
    elif a == 'add_inputs':
        c.add_inputs(list(act['q']))
    elif a == 'remove_gate':
        c.remove_gate(act['l'])
    elif a == 'rename_gate':
        c.rename_gate(act['old'], act['new'])
    elif a == 'mark_as_output':
        c.mark_as_output(act['l'])
    elif a == 'set_outputs':
        c.set_outputs(list(act['q']))
    elif a == 'set_inputs':
        c.set_inputs(list(act['q']))
    elif a == 'order_inputs':
        c.order_inputs(list(act['q']))
    elif a == 'order_outputs':
        c.order_outputs(list(act['q']))
    elif a == 'replace_inputs':
        c.replace_inputs(list(act['T']), list(act['F']))
    elif a == 'make_block':
        if 'ins' in act:
            c.make_block(act['n'], list(act['gs']), list(act['outs']), list(act['ins']))
        else:
            c.make_block(act['n'], list(act['gs']), list(act['outs']))
    elif a == 'make_block_from_slice':
        c.make_block_from_slice(act['n'], list(act['ins']), list(act['outs']))
    elif a == 'delete_block':
        c.delete_block(act['n'])
    elif a == 'remove_block':
        c.remove_block(act['n'])
    elif a == 'connect':
        other = build(act['other'] if 'other' in act else LIB[act['lib'] - 1])
        if act.get('oclone'):
            from . import gen as _gen
            other = _gen.clone(other, act['oclone'])      # the attached circuit was deep-copied / pickled before
        before = project(other)
        via = act.get('via', 'connect_circuit')
        kw = {'name': act['name'], 'add_prefix': act['pfx']}
        if via == 'connect_circuit':
            c.connect_circuit(other, list(act['tc']), list(act['oc']), right_connect=act['right'], **kw)
        elif via == 'connect_left':
            c.connect_left(other, list(act['tc']), **kw)
        elif via == 'connect_right':
            c.connect_right(other, list(act['oc']), **kw)
        elif via == 'connect_inputs':
            c.connect_inputs(other, **kw)
        elif via == 'extend_circuit':
            c.extend_circuit(other, this_connectors=(list(act['tc_arg']) if 'tc_arg' in act else None),
                             other_connectors=(list(act['oc_arg']) if 'oc_arg' in act else None), right_connect=act['right'], **kw)
        elif via == 'add_circuit':
            c.add_circuit(other, **kw)
        else:
            raise ValueError(via)
        act['_other_after'] = project(other)
        act['_other_before'] = before
    elif a == 'into_bench':
        c.into_bench()
    elif a == 'replace_subcircuit':
        sub = build(act['sub'])
        c.replace_subcircuit(sub, dict(act['im']), dict(act['om']))
    elif a == 'copy':
        # how: 'deep' / 'pickle' - a copy is a copy whatever made it
        if act.get('how') == 'deep':
            c = _copy.deepcopy(c)
        elif act.get('how') == 'pickle':
            import pickle as _pickle
            c = _pickle.loads(_pickle.dumps(c))
        else:
            c = _copy.copy(c)
    else:
        raise ValueError(a)
    return c


def mutate_copy(cc):
    """A battery of mutations applied to a copy (those that raise are skipped)."""
    from cirbo.core.circuit import gate as G

    labels = list(cc.gates)
    n = 0
    for f in (
        lambda: cc.emplace_gate('zz#in', G.INPUT),
        lambda: cc.emplace_gate('zz#g', G.NOT, (labels[0],)) if labels else None,
        lambda: cc.mark_as_output('zz#g') if labels else None,
        lambda: cc.rename_gate(labels[-1], 'zz#r') if labels else None,
        lambda: [cc.delete_block(b) for b in list(cc.blocks)],
        lambda: cc.set_outputs([]),
        lambda: cc.make_block('zz#b', [l for l in cc.gates][:1], []),
    ):
        try:
            f()
            n += 1
        except Exception:
            pass
    return n


def observe(c, prev_copy, copies=True):
    """Observations after a successful call."""
    post = project(c)
    o = {'post': post}
    for key, inv in (('tsi', True), ('ts', False)):
        try:
            o[key] = [g.label for g in c.top_sort(inverse=inv)]
        except Exception as e:
            o[key] = []
            o[key + 'x'] = type(e).__name__
    # copy: equality, then independence
    if not copies:
        return o, None
    blocks_ok = all(x in post['g'] for b in post['b'].values() for x in b['o'])
    o['copy_judged'] = bool(blocks_ok)
    new_copy = None
    if blocks_ok:
        try:
            cc = _copy.copy(c)
            o['copy'] = project(cc)
            o['copy_eq'] = bool(cc == c and c == cc)
            new_copy = _copy.copy(c)
            mutate_copy(cc)
            o['orig_after'] = project(c)
        except Exception as e:
            o['copy_exc'] = type(e).__name__
            o['copy'] = post
            o['copy_eq'] = False
            o['orig_after'] = post
    if prev_copy is not None:
        o['pc'] = project(prev_copy[0])
        o['pc_expected'] = prev_copy[1]
    return o, new_copy


def run_history(actions, prop='C02', init=None, chooser=None, n=0):
    """Replay `actions` from the empty circuit (or from `init`, an abstract record); or,
    with `chooser`, ask chooser(circuit) for each of n next actions (adaptive random driver).
    The history ends at the first call that raises."""
    from cirbo.core.circuit import Circuit

    c = Circuit() if init is None else build(init)
    steps = []
    prev_copy = None
    init_proj = project(c)

    def stream():
        if chooser is None:
            yield from actions
        else:
            for _ in range(n):
                try:
                    nxt = chooser(c)
                except Exception:
                    # the live circuit is so broken that no further call can be chosen;
                    # the judge sees the recorded (ill-formed) state of the last step
                    return
                yield nxt

    for act in stream():
        act = dict(act)
        if act['a'] == 'connect' and 'other' not in act:
            act['other'] = LIB[act['lib'] - 1]
        step = {'act': act}
        try:
            c = apply(c, act)
            step['ret'] = 'ok'
        except Exception as e:
            step['ret'] = 'raise'
            step['exc'] = type(e).__name__
            step['post'] = init_proj if not steps else steps[-1]['post']
            for k in list(act):
                if k.startswith('_'):
                    del act[k]
            steps.append(step)
            break
        for k in list(act):
            if k.startswith('_'):
                step[k[1:]] = act.pop(k)
        if act['a'] == 'connect' and 'other' not in act:
            act['other'] = LIB[act['lib'] - 1]
        if act['a'] == 'connect' and act.get('name'):
            # block re-extraction is judged only for repeat-free connector lists (DESIGN 5/C10)
            if len(set(act['tc'])) == len(act['tc']) and len(set(act['oc'])) == len(act['oc']):
                try:
                    step['blk'] = project(c.get_block(act['name']).into_circuit(), users=True)
                except Exception as e:
                    step['blkx'] = type(e).__name__
        obs, new_copy = observe(c, prev_copy, copies=(prop == 'C02'))
        step.update(obs)
        prev_copy = (new_copy, obs['post']) if new_copy is not None else None
        steps.append(step)
    return {'kind': 'hist', 'prop': prop, 'init': init_proj, 'steps': steps}


def evolve(chooser, n, init=None):
    """The circuit object reached by n chooser-picked public calls: a circuit with a past, for drivers that observe
    something else than the mutators themselves.  Only calls that return normally count (a refused call may leave the
    object half-modified, which no property speaks about): the history stops at the first call that raises and the
    circuit as it was BEFORE that call is returned."""
    from cirbo.core.circuit import Circuit

    c = Circuit() if init is None else build(init)
    for _ in range(n):
        before = _copy.deepcopy(c)
        try:
            act = dict(chooser(c))
            if act['a'] == 'connect' and 'other' not in act:
                act['other'] = LIB[act['lib'] - 1]
            c = apply(c, act)
        except Exception:
            return before
    return c
