"""Input generation.

  * universe(ni, ng, types, amax) - role G: TLC enumerates specs/Universe.tla and every
    reachable state (a netlist) is returned;
  * random_netlist(rng, ...)      - seeded random circuits beyond the enumerated scope;
  * materialize(...)              - netlist -> cirbo Circuit, with chosen labels, storage
    order (possibly non-topological, via direct bench text) and outputs.

A *netlist* is (ni, [(type, [node index,...]), ...]): node indices 1..ni are inputs and
ni+k is gate number k (1-based); gate k reads only earlier nodes.
"""

import json
import os
import random

from . import tlc

ALL18 = [
    'ALWAYS_TRUE', 'ALWAYS_FALSE', 'NOT', 'IFF', 'GT', 'LT', 'GEQ', 'LEQ', 'LIFF', 'RIFF',
    'LNOT', 'RNOT', 'AND', 'OR', 'XOR', 'NAND', 'NOR', 'NXOR',
]
NULLARY = {'ALWAYS_TRUE', 'ALWAYS_FALSE'}
UNARY = {'NOT', 'IFF'}
BINARY = {'GT', 'LT', 'GEQ', 'LEQ', 'LIFF', 'RIFF', 'LNOT', 'RNOT'}
NARY = {'AND', 'OR', 'XOR', 'NAND', 'NOR', 'NXOR'}
T6 = ['NOT', 'IFF', 'AND', 'XOR', 'GT', 'ALWAYS_TRUE']
BENCH_TYPES = ['NOT', 'IFF', 'AND', 'OR', 'XOR', 'NAND', 'NOR', 'NXOR']


def universe(ni, ng, types=ALL18, amax=3, tag='universe'):
    """All netlists with ni inputs, <= ng gates, enumerated by TLC. Returns (list, stats)."""
    wd = tlc.workdir(tag)
    cfg = os.path.join(wd, 'U.cfg')
    with open(cfg, 'w') as f:
        f.write(
            'SPECIFICATION Spec\nINVARIANT Emit\nCHECK_DEADLOCK FALSE\nCONSTANTS\n'
            f' NI = {ni}\n NG = {ng}\n AMAX = {amax}\n'
            ' Types = {' + ','.join(f'"{t}"' for t in types) + '}\n'
        )
    res = tlc.run_model('Universe', cfg, workers=1, tag=tag + '-run', xmx='4g')
    out = []
    for ln in res['stdout'].split('\n'):
        if ln.startswith('"['):
            gs = json.loads(json.loads(ln))
            out.append(
                (ni, [(g['t'], list(g['o']) if isinstance(g['o'], list) else []) for g in gs])
            )
    tlc.cleanup(wd)
    tlc.cleanup(res['workdir'])
    if len(out) != res['distinct']:
        raise tlc.MachineryError(
            f'universe: {len(out)} netlists read, TLC found {res["distinct"]} states'
        )
    return out, {'generated': res['generated'], 'distinct': res['distinct']}


def random_netlist(rng: random.Random, ni=None, ng=None, types=ALL18, amax=5, locality=0.6):
    ni = rng.randint(1, 6) if ni is None else ni
    ng = rng.randint(1, 30) if ng is None else ng
    gates = []
    for k in range(ng):
        avail = ni + k
        t = rng.choice(types)
        if avail == 0:
            t = rng.choice([x for x in types if x in NULLARY] or ['ALWAYS_TRUE'])
        if t in NULLARY:
            n = 0
        elif t in UNARY:
            n = 1
        elif t in BINARY:
            n = 2
        else:
            n = 2 if rng.random() < 0.6 else rng.randint(2, amax)
        ops = []
        for _ in range(n):
            if rng.random() < locality and avail > 3:
                ops.append(rng.randint(max(1, avail - 4), avail))
            else:
                ops.append(rng.randint(1, avail))
        gates.append((t, ops))
    return (ni, gates)


def default_labels(ni, ng):
    return [f'x{j}' for j in range(ni)] + [f'g{k}' for k in range(ng)]


def pick_outputs(rng, ni, ng, kind=None):
    """Output index lists (node indices): variety of shapes."""
    total = ni + ng
    kind = kind or rng.choice(['last', 'some', 'dup', 'withinput', 'none', 'many'])
    if total == 0:
        return []
    if kind == 'last':
        return [total]
    if kind == 'some':
        return [rng.randint(1, total) for _ in range(rng.randint(1, 3))]
    if kind == 'dup':
        x = rng.randint(1, total)
        return [x, rng.randint(1, total), x]
    if kind == 'withinput':
        return [rng.randint(1, max(1, ni)), total] if ni else [total]
    if kind == 'none':
        return []
    return [rng.randint(1, total) for _ in range(rng.randint(2, 5))]


def netlist_data(net, labels=None, outputs=None):
    """-> (gates=[(label,type,[oplabels])] in definition order, inputs, outputs) as labels."""
    ni, gs = net
    labels = labels or default_labels(ni, len(gs))
    gates = [(labels[j], 'INPUT', []) for j in range(ni)]
    for k, (t, ops) in enumerate(gs):
        gates.append((labels[ni + k], t, [labels[o - 1] for o in ops]))
    outs = [labels[o - 1] for o in (outputs if outputs is not None else [ni + len(gs)] if ni + len(gs) else [])]
    return gates, labels[:ni], outs


def materialize(net, labels=None, outputs=None, storage=None):
    """Build a cirbo Circuit through the public API (definition order = topological).

    storage: optional permutation (list of positions into the definition-order gate list)
    giving the *storage* order; a non-topological storage order is obtained by building the
    circuit from bench text whose lines are in that order (the parser accepts use before
    definition) -- only used with bench-expressible labels and any gate types the parser knows.
    """
    from cirbo.core.circuit import Circuit, gate as G

    gates, ins, outs = netlist_data(net, labels, outputs)
    if storage is None:
        c = Circuit()
        for label, t, ops in gates:
            c.emplace_gate(label, getattr(G, t), tuple(ops))
        c.set_outputs(outs)
        return c
    lines = []
    for pos in storage:
        label, t, ops = gates[pos]
        if t == 'INPUT':
            lines.append(f'INPUT({label})')
        else:
            name = 'BUFF' if t == 'IFF' else t
            lines.append(f'{label} = {name}({", ".join(ops)})')
    for o in outs:
        lines.append(f'OUTPUT({o})')
    c = Circuit.from_bench_string('\n'.join(lines) + '\n')
    c.set_inputs(ins) if set(ins) == set(c.inputs) else None
    return c


def reachable_nontrivial(net, outputs):
    """True iff some non-input gate is reachable from an output (non-triviality rule)."""
    ni, gs = net
    return any(o > ni for o in outputs)


def clone(c, how):
    """A circuit that went through copy.deepcopy (how % 3 == 1) or a pickle round trip (how % 3 == 2) is a circuit like any
    other: its gate types, states and markers are EQUAL to the library's module-level objects without being the same
    objects.  how % 3 == 0: the object as built."""
    import copy
    import pickle

    if how % 3 == 1:
        return copy.deepcopy(c)
    if how % 3 == 2:
        return pickle.loads(pickle.dumps(c))
    return c

