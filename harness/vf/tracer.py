"""Tracer for the repository's own tests (source 3 of DESIGN 3.4): a pytest plugin
(`-p vf.tracer`) that, when CIRBO_VERIF_TRACE=1, wraps the public mutators of
cirbo.core.circuit.Circuit FROM OUTSIDE (no source change), and logs for every OUTERMOST call
   {pre: projected state before, act: the call in the vocabulary of CircuitAPI.tla, ret/exc,
    post: projected state after}
as one JSON line to $CIRBO_VERIF_TRACE_OUT.  Nested calls (a mutator calling another) are not
logged separately: the linearisation point of this sequential library is the return of the
public call.  Logging happens in `finally`, i.e. on the error path too.
"""
import functools
import json
import os
import threading

_state = threading.local()
_out = None
MAX_GATES = 40
_count = 0
MAX_STEPS = int(os.environ.get('CIRBO_VERIF_TRACE_MAX', '60000'))


def _proj(c):
    from .project import project

    return project(c)


def _emit(rec):
    global _out, _count
    if _out is None:
        _out = open(os.environ.get('CIRBO_VERIF_TRACE_OUT', '/tmp/cirbo_trace.jsonl'), 'a')
    _out.write(json.dumps(rec, default=str) + '\n')
    _out.flush()
    _count += 1


def _act_of(name, c, args, kwargs):
    """Translate a call into the action vocabulary; None = not expressible (still WF-judged)."""
    try:
        if name == 'add_gate':
            g = args[0]
            return {'a': 'add_gate', 'l': g.label, 't': g.gate_type.name, 'ops': list(g.operands), 'via': 'add_gate'}
        if name == 'emplace_gate':
            label = kwargs.get('label', args[0] if args else None)
            gt = kwargs.get('gate_type', args[1] if len(args) > 1 else None)
            ops = kwargs.get('operands', args[2] if len(args) > 2 else ())
            return {'a': 'add_gate', 'l': label, 't': gt.name, 'ops': list(ops), 'via': 'emplace_gate'}
        if name == 'add_inputs':
            return {'a': 'add_inputs', 'q': list(args[0] if args else kwargs['inputs'])}
        if name == 'remove_gate':
            return {'a': 'remove_gate', 'l': args[0] if args else kwargs['gate_label']}
        if name == 'rename_gate':
            old = kwargs.get('old_label', args[0] if args else None)
            new = kwargs.get('new_label', args[1] if len(args) > 1 else None)
            return {'a': 'rename_gate', 'old': old, 'new': new}
        if name == 'mark_as_output':
            return {'a': 'mark_as_output', 'l': args[0] if args else kwargs['label']}
        if name in ('set_outputs', 'set_inputs', 'order_inputs', 'order_outputs'):
            q = args[0] if args else list(kwargs.values())[0]
            return {'a': name, 'q': list(q)}
        if name == 'replace_inputs':
            t = kwargs.get('inputs_to_true', args[0] if args else [])
            f = kwargs.get('inputs_to_false', args[1] if len(args) > 1 else [])
            return {'a': 'replace_inputs', 'T': list(t), 'F': list(f)}
        if name == 'make_block':
            nm = kwargs.get('name', args[0] if args else None)
            gs = kwargs.get('gates', args[1] if len(args) > 1 else None)
            outs = kwargs.get('outputs', args[2] if len(args) > 2 else None)
            ins = kwargs.get('inputs', args[3] if len(args) > 3 else None)
            act = {'a': 'make_block', 'n': nm, 'gs': list(gs), 'outs': list(outs)}
            if ins is not None:
                act['ins'] = list(ins)
            return act
        if name == 'make_block_from_slice':
            nm = kwargs.get('name', args[0] if args else None)
            ins = kwargs.get('inputs', args[1] if len(args) > 1 else None)
            outs = kwargs.get('outputs', args[2] if len(args) > 2 else None)
            return {'a': 'make_block_from_slice', 'n': nm, 'ins': list(ins), 'outs': list(outs)}
        if name in ('delete_block', 'remove_block'):
            return {'a': name, 'n': args[0] if args else kwargs['block_label']}
        if name == 'connect_circuit':
            other = kwargs.get('other', args[0] if args else None)
            tc = kwargs.get('this_connectors', args[1] if len(args) > 1 else None)
            oc = kwargs.get('other_connectors', args[2] if len(args) > 2 else None)
            if len(other.gates) > MAX_GATES:
                return None
            po = _proj(other)
            return {'a': 'connect', 'other': {k: po[k] for k in ('g', 'ord', 'i', 'o', 'b')}, 'tc': list(tc), 'oc': list(oc),
                    'right': bool(kwargs.get('right_connect', False)), 'name': kwargs.get('name', ''), 'pfx': bool(kwargs.get('add_prefix', True)),
                    'via': 'connect_circuit'}
        if name == 'into_bench':
            return {'a': 'into_bench'}
        if name == 'replace_subcircuit':
            sub = kwargs.get('subcircuit', args[0] if args else None)
            im = kwargs.get('inputs_mapping', args[1] if len(args) > 1 else None)
            om = kwargs.get('outputs_mapping', args[2] if len(args) > 2 else None)
            if len(sub.gates) > MAX_GATES:
                return None
            ps = _proj(sub)
            return {'a': 'replace_subcircuit', 'sub': {k: ps[k] for k in ('g', 'ord', 'i', 'o', 'b')},
                    'im': [[k, v] for k, v in im.items()], 'om': [[k, v] for k, v in om.items()], 'equiv': False}
    except Exception:
        return None
    return {'a': 'other:' + name}


WRAPPED = ['add_gate', 'emplace_gate', 'add_inputs', 'remove_gate', 'rename_gate', 'mark_as_output', 'set_outputs', 'set_inputs',
           'order_inputs', 'order_outputs', 'replace_inputs', 'make_block', 'make_block_from_slice', 'delete_block', 'remove_block',
           'connect_circuit', 'into_bench', 'replace_subcircuit']


def _wrap(name, fn):
    @functools.wraps(fn)
    def wrapper(self, *args, **kwargs):
        depth = getattr(_state, 'depth', 0)
        if depth > 0 or _count >= MAX_STEPS or len(self.gates) > MAX_GATES:
            _state.depth = depth + 1
            try:
                return fn(self, *args, **kwargs)
            finally:
                _state.depth = depth
        _state.depth = 1
        rec = None
        try:
            act = _act_of(name, self, args, kwargs)
            pre = _proj(self)
            rec = {'pre': pre, 'act': act if act is not None else {'a': 'other:' + name}, 'ret': 'ok'}
        except Exception:
            rec = None
        try:
            return fn(self, *args, **kwargs)
        except BaseException as e:
            if rec is not None:
                rec['ret'] = 'raise'
                rec['exc'] = type(e).__name__
            raise
        finally:
            _state.depth = 0
            if rec is not None:
                try:
                    if len(self.gates) <= MAX_GATES + 20:
                        rec['post'] = _proj(self)
                        _emit(rec)
                except Exception:
                    pass

    return wrapper


def install():
    from cirbo.core.circuit.circuit import Circuit

    if getattr(Circuit, '_vf_traced', False):
        return
    for name in WRAPPED:
        setattr(Circuit, name, _wrap(name, getattr(Circuit, name)))
    Circuit._vf_traced = True


def pytest_configure(config):
    if os.environ.get('CIRBO_VERIF_TRACE') == '1':
        import vf  # noqa: F401  (puts /repo and shims on sys.path)

        install()
