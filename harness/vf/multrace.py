"""Call-trace recorder for the multipliers: wraps, FROM OUTSIDE and only for the duration of one call, the
names the module cirbo.synthesis.generation.arithmetics.multiplication uses to place partial products and to
compress / add them (its own references to add_gate_from_tt, add_sum_n_bits, add_sum2, add_sum3,
add_sum_two_numbers(_with_shift), add_sum_n_weighted_bits, add_sum_pow2_m1).  Calls made by the summation
module itself are not logged (other namespace), so every event is one step of the multiplier's own algorithm."""
import contextlib


@contextlib.contextmanager
def traced(events):
    import cirbo.synthesis.generation.arithmetics.multiplication as M1
    import cirbo.synthesis.generation.arithmetics.square as M2

    saved = {}

    def wrap(name, mk):
        for M in (M1, M2):          # the multipliers and the squarers place and compress their own bits
            if hasattr(M, name):
                saved[(M, name)] = getattr(M, name)
                setattr(M, name, mk(saved[(M, name)]))

    def gate(orig):
        def f(circuit, left, right, operation):
            g = orig(circuit, left, right, operation)
            if operation == '0001':
                events.append({'e': 'pp', 'g': g, 'x': left, 'y': right})
            elif operation == '0000':
                events.append({'e': 'zero', 'g': g})
            else:
                events.append({'e': 'other', 'g': g})
            return g
        return f

    def pop(orig):
        def f(circuit, input_labels, **kw):
            ins = list(input_labels)
            out = orig(circuit, ins, **kw)
            events.append({'e': 'pop', 'ins': list(reversed(ins)) if kw.get('big_endian') else ins,
                           'outs': list(reversed(out)) if kw.get('big_endian') else list(out)})
            return out
        return f

    def add(orig):
        def f(circuit, a, b, **kw):
            a, b = list(a), list(b)
            out = orig(circuit, a, b, **kw)
            big = kw.get('big_endian')
            le = (lambda s: list(reversed(s))) if big else list
            events.append({'e': 'add', 'shift': 0, 'a': le(a), 'b': le(b), 'out': le(out)})
            return out
        return f

    def addshift(orig):
        def f(circuit, shift, a, b, **kw):
            a, b = list(a), list(b)
            out = orig(circuit, shift, a, b, **kw)
            big = kw.get('big_endian')
            le = (lambda s: list(reversed(s))) if big else list
            events.append({'e': 'add', 'shift': shift, 'a': le(a), 'b': le(b), 'out': le(out)})
            return out
        return f

    def wsum(orig):
        def f(circuit, pairs, **kw):
            pairs = list(pairs)
            out = orig(circuit, pairs, **kw)
            events.append({'e': 'wsum', 'ins': [[int(w), l] for w, l in pairs], 'outs': [[int(w), l] for w, l in out]})
            return out
        return f

    def sump(orig):
        def f(circuit, input_labels, **kw):
            ins = list(input_labels)
            out = orig(circuit, ins, **kw)
            big = kw.get('big_endian')
            lv = list(reversed(out)) if big else list(out)
            events.append({'e': 'sump', 'ins': ins, 'outs': [list(x) for x in lv]})
            return out
        return f

    try:
        wrap('add_gate_from_tt', gate)
        for n in ('add_sum_n_bits', 'add_sum2', 'add_sum3'):
            wrap(n, pop)
        wrap('add_sum_two_numbers', add)
        wrap('add_sum_two_numbers_with_shift', addshift)
        for n in ('add_sum_n_weighted_bits', 'add_sum_n_weighted_bits_naive'):
            wrap(n, wsum)
        wrap('add_sum_pow2_m1', sump)
        yield
    finally:
        for (M, n), o in saved.items():
            setattr(M, n, o)
