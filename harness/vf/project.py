"""The projection  cirbo Circuit  ->  abstract circuit record of specs/CircuitSem.tla.

This is the ONLY bridge from Python objects to the specification's state. It reads public
accessors only (gates, inputs, outputs, get_gate_users, blocks, Block.inputs/gates/outputs).
"""


def project(c, users=True, blocks=True):
    g = {}
    order = []
    for label, gt in c.gates.items():
        g[label] = {'t': gt.gate_type.name, 'o': list(gt.operands)}
        order.append(label)
    rec = {
        'g': g,
        'ord': order,
        'i': list(c.inputs),
        'o': list(c.outputs),
        'u': {},
        'b': {},
    }
    if users:
        for label in order:
            try:
                us = list(c.get_gate_users(label))
            except Exception as e:
                # an accessor that raises on a gate of the circuit is an observation (the users clause fails), not a harness failure
                us = ['<get_gate_users raised ' + type(e).__name__ + '>']
            if us:
                rec['u'][label] = us
    if blocks:
        for name, b in c.blocks.items():
            rec['b'][name] = {'i': list(b.inputs), 'g': list(b.gates), 'o': list(b.outputs)}
    return rec


def abstract(gates, inputs, outputs):
    """Abstract record from plain data: gates = [(label, type, [operands])] in storage order."""
    g = {}
    users = {}
    for label, t, ops in gates:
        g[label] = {'t': t, 'o': list(ops)}
    for label, t, ops in gates:
        for o in ops:
            users.setdefault(o, []).append(label)
    return {
        'g': g,
        'ord': [x[0] for x in gates],
        'i': list(inputs),
        'o': list(outputs),
        'u': users,
        'b': {},
    }


def rows_true(values):
    """Sequence of booleans -> sorted list of row numbers that are True."""
    return [r for r, v in enumerate(values) if v is True]


def state3(v):
    """cirbo GateState -> 0 (False) / 1 (True) / 2 (Undefined)."""
    if v is True:
        return 1
    if v is False:
        return 0
    return 2
