"""Developer tool (not a registered check): confirm a seeded change produced by a sub-agent and
run the registered quick check against it.

  seedtool.py confirm <PROP> <N> [--wt /tmp/wt_<PROP>]   verify tests pass / demo fails with the change, passes without
  seedtool.py detect  <PROP> <N> [--checks C01,C02]      apply to /repo, run checks, undo; record in seeded/<PROP>-<N>/meta.json
"""
import json
import os
import shutil
import subprocess
import sys
import time

V = os.path.dirname(os.path.dirname(os.path.abspath(__file__)))
PY = '/venv/bin/python'


def sh(cmd, cwd=None, env=None, timeout=3600):
    e = dict(os.environ)
    if env:
        e.update(env)
    p = subprocess.run(cmd, shell=True, cwd=cwd, env=e, capture_output=True, text=True, timeout=timeout)
    return p.returncode, p.stdout + p.stderr


def seeded_dir(prop, n):
    return os.path.join(V, 'seeded', f'{prop}-{n}')


def confirm(prop, n, wt):
    out = os.path.join(wt, '_out')
    patch, demo, notes = (os.path.join(out, f'{x}{n}.{e}') for x, e in (('patch', 'diff'), ('demo', 'py'), ('notes', 'md')))
    res = {'property': prop, 'n': n}
    sh('git checkout -- .', cwd=wt)
    rc, o = sh(f'{PY} {demo} {wt}', env={'PYTHONPATH': '/tmp/shims'})
    res['demo_clean_rc'] = rc
    rc, o = sh(f'git apply {patch}', cwd=wt)
    res['apply_rc'] = rc
    rc, o = sh(f'{PY} -m pytest -q -p no:cacheprovider --timeout=900 --continue-on-collection-errors 2>&1 | tail -3', cwd=wt)
    res['suite_tail'] = o.strip().split('\n')[-1]
    rc, o = sh(f'{PY} {demo} {wt}', env={'PYTHONPATH': '/tmp/shims'})
    res['demo_changed_rc'] = rc
    res['demo_changed_out'] = o.strip()[-400:]
    sh('git checkout -- .', cwd=wt)
    res['confirmed'] = (res['demo_clean_rc'] == 0 and res['apply_rc'] == 0 and res['demo_changed_rc'] != 0
                        and res['suite_tail'].startswith('2129 passed') and '8 errors' in res['suite_tail'])
    d = seeded_dir(prop, n)
    os.makedirs(d, exist_ok=True)
    shutil.copy(patch, os.path.join(d, 'patch.diff'))
    shutil.copy(demo, os.path.join(d, 'demo.py'))
    if os.path.exists(notes):
        shutil.copy(notes, os.path.join(d, 'notes.md'))
    meta = {'breaks_property': prop, 'confirmation': res, 'what_it_needs': open(notes).read()[:1500] if os.path.exists(notes) else ''}
    json.dump(meta, open(os.path.join(d, 'meta.json'), 'w'), indent=1)
    print(json.dumps(res, indent=1))
    return res['confirmed']


def detect(prop, n, checks, wt=None):
    """Apply the change in the scratch worktree and run the registered quick checks against
    that tree (VERIF_REPO), so /repo itself is never touched by the developer tool."""
    d = seeded_dir(prop, n)
    wt = wt or f'/tmp/wt_{prop}'
    meta = json.load(open(os.path.join(d, 'meta.json')))
    sh('git checkout -- .', cwd=wt)
    rc, o = sh(f'git apply {os.path.join(d, "patch.diff")}', cwd=wt)
    if rc != 0:
        print('patch does not apply:', o)
        return False
    results = {}
    try:
        for c in checks:
            t0 = time.time()
            rc, o = sh(f'./check {c} --tier quick', cwd=V, env={
                'VERIF_SEED': os.environ.get('VERIF_SEED', '0'), 'VERIF_REPO': wt,
                'VERIF_EVIDENCE_DIR': '/tmp/seed_evidence', 'VERIF_REPLAY_DIR': '/tmp/seed_replays'})
            lines = [l for l in o.split('\n') if l.startswith('VIOLATION') or 'failing clauses' in l][:4]
            results[c] = {'rc': rc, 'wall_s': round(time.time() - t0, 1), 'first_lines': [x[:400] for x in lines], 'summary': o.strip().split('\n')[-1][:300]}
    finally:
        sh('git checkout -- .', cwd=wt)
    meta.setdefault('detection', {}).update(results)
    meta['detected_by'] = sorted(c for c, r in meta['detection'].items() if r['rc'] == 1)
    meta['what_i_ran'] = 'harness/seedtool.py confirm/detect: suite + demo on scratch worktree with and without the patch; then VERIF_REPO=<worktree with patch> ./check <id> --tier quick'
    json.dump(meta, open(os.path.join(d, 'meta.json'), 'w'), indent=1)
    for c, r in results.items():
        print(prop, n, c, 'rc=', r['rc'], r['wall_s'], 's', r['summary'])
        for l in r['first_lines'][:2]:
            print('   ', l[:300])
    return any(r['rc'] == 1 for r in results.values())


def summary():
    import glob

    rows = []
    for d in sorted(glob.glob(os.path.join(V, 'seeded', '*-*'))):
        mp = os.path.join(d, 'meta.json')
        if not os.path.exists(mp):
            continue
        m = json.load(open(mp))
        det = m.get('detection', {})
        notes = (m.get('what_it_needs') or '').strip().split('\n')
        first = next((l.strip('# ').strip() for l in notes if l.strip()), '')
        # first detection (the check as it stood when the seed arrived) and the latest regression run over all seeds
        ret = m.get('retest', {})
        now = ', '.join(f"{c}:{'caught' if r['rc'] == 1 else ('exit ' + str(r['rc']))}" for c, r in sorted(ret.items())) or '-'
        rows.append((os.path.basename(d), m.get('breaks_property'), m['confirmation'].get('confirmed'),
                     ', '.join(f"{c}:{'caught' if r['rc'] == 1 else ('exit ' + str(r['rc']))}" for c, r in sorted(det.items())), now, first[:110]))
    with open(os.path.join(V, 'seeded', 'SUMMARY.md'), 'w') as f:
        f.write('# Seeded changes and the quick checks that catch them\n\n| id | breaks | confirmed | at first detection | latest retest of all seeds | what |\n|---|---|---|---|---|---|\n')
        for r in rows:
            f.write('| ' + ' | '.join(str(x) for x in r) + ' |\n')
    print(open(os.path.join(V, 'seeded', 'SUMMARY.md')).read())


def retest(only=None):
    """Regression of the checks: every kept seeded change is applied, one at a time, to ONE scratch
    worktree of /repo's HEAD and the quick check of the property it breaks must report it."""
    import glob

    wt = os.environ.get('SEEDTOOL_WT', '/tmp/wt_retest')      # several retests may run side by side, each in its own worktree
    sh(f'git -C /repo worktree remove --force {wt}')
    rc, o = sh(f'git -C /repo worktree add -q --detach {wt} HEAD')
    if rc != 0:
        print('cannot create worktree', o)
        return 2
    missed = []
    try:
        for d in sorted(glob.glob(os.path.join(V, 'seeded', '*-*'))):
            sid = os.path.basename(d)
            if only and sid not in only and sid.split('-')[0] not in only:      # seed ids or whole properties
                continue
            meta = json.load(open(os.path.join(d, 'meta.json')))
            prop = meta['breaks_property']
            sh('git checkout -- .', cwd=wt)
            rc, o = sh(f'git apply {os.path.join(d, "patch.diff")}', cwd=wt)
            if rc != 0:
                print(f'{sid}: patch no longer applies to HEAD (skipped)')
                continue
            t0 = time.time()
            rc, o = sh(f'./check {prop} --tier quick', cwd=V, env={'VERIF_SEED': os.environ.get('VERIF_SEED', '0'), 'VERIF_REPO': wt,
                       'VERIF_EVIDENCE_DIR': '/tmp/seed_evidence', 'VERIF_REPLAY_DIR': '/tmp/seed_replays'})
            print(f'{sid}: {prop} rc={rc} {time.time() - t0:.0f}s {o.strip().splitlines()[-1][:140] if o.strip() else ""}', flush=True)
            meta.setdefault('retest', {})[prop] = {'rc': rc}
            json.dump(meta, open(os.path.join(d, 'meta.json'), 'w'), indent=1)
            if rc != 1:
                missed.append(sid)
    finally:
        sh('git checkout -- .', cwd=wt)
        sh(f'git -C /repo worktree remove --force {wt}')
    print('RETEST missed:', missed)
    return 0 if not missed else 1


def benign(prop, n, wt, checks=None):
    """A property-PRESERVING change produced by a sub-agent (behaviour the statement leaves open is
    changed): suite + demo must pass with and without it, and the registered quick check of the
    property must stay silent (exit 0, no VIOLATION line) on the changed tree."""
    out = os.path.join(wt, '_out')
    patch, demo, notes = (os.path.join(out, f'{x}{n}.{e}') for x, e in (('patch', 'diff'), ('demo', 'py'), ('notes', 'md')))
    res = {'property': prop, 'n': n}
    sh('git checkout -- .', cwd=wt)
    rc, o = sh(f'{PY} {demo} {wt}', env={'PYTHONPATH': '/tmp/shims'})
    res['demo_clean_rc'] = rc
    rc, o = sh(f'git apply {patch}', cwd=wt)
    res['apply_rc'] = rc
    results = {}
    try:
        rc, o = sh(f'{PY} -m pytest -q -p no:cacheprovider --timeout=900 --continue-on-collection-errors 2>&1 | tail -3', cwd=wt)
        res['suite_tail'] = o.strip().split('\n')[-1]
        rc, o = sh(f'{PY} {demo} {wt}', env={'PYTHONPATH': '/tmp/shims'})
        res['demo_changed_rc'] = rc
        res['difference'] = next((l for l in o.split('\n') if l.startswith('DIFFERENCE')), '')[:400]
        for c in (checks or [prop]):
            t0 = time.time()
            rc, o = sh(f'./check {c} --tier quick', cwd=V, env={
                'VERIF_SEED': os.environ.get('VERIF_SEED', '0'), 'VERIF_REPO': wt,
                'VERIF_EVIDENCE_DIR': '/tmp/seed_evidence', 'VERIF_REPLAY_DIR': '/tmp/seed_replays'})
            lines = [l for l in o.split('\n') if l.startswith('VIOLATION') or 'failing clauses' in l or l.startswith('DRIFT')][:6]
            results[c] = {'rc': rc, 'wall_s': round(time.time() - t0, 1), 'first_lines': [x[:500] for x in lines], 'summary': o.strip().split('\n')[-1][:300]}
    finally:
        sh('git checkout -- .', cwd=wt)
    res['accepted'] = (res['demo_clean_rc'] == 0 and res['apply_rc'] == 0 and res.get('demo_changed_rc') == 0
                       and res.get('suite_tail', '').startswith('2129 passed') and '8 errors' in res.get('suite_tail', ''))
    d = os.path.join(V, 'benign', f'{prop}-{n}')
    os.makedirs(d, exist_ok=True)
    shutil.copy(patch, os.path.join(d, 'patch.diff'))
    shutil.copy(demo, os.path.join(d, 'demo.py'))
    if os.path.exists(notes):
        shutil.copy(notes, os.path.join(d, 'notes.md'))
    meta = {'preserves_property': prop, 'confirmation': res, 'checks': results,
            'silent': all(r['rc'] == 0 for r in results.values()),
            'what_it_changes': open(notes).read()[:1500] if os.path.exists(notes) else ''}
    json.dump(meta, open(os.path.join(d, 'meta.json'), 'w'), indent=1)
    print(prop, n, 'accepted=', res['accepted'], 'suite:', res.get('suite_tail'), 'demo:', res.get('demo_clean_rc'), res.get('demo_changed_rc'))
    for c, r in results.items():
        print('   ', c, 'rc=', r['rc'], r['wall_s'], 's', r['summary'][:200])
        for l in r['first_lines'][:3]:
            print('      ', l[:300])
    return meta['silent']



def benign_retest(only=None):
    """Regression of the no-false-alarm side: every kept property-preserving change is applied, one at a
    time, to ONE scratch worktree of /repo's HEAD and the quick check of its property must stay silent."""
    import glob

    wt = os.environ.get('SEEDTOOL_WT', '/tmp/wt_benign_retest')
    sh(f'git -C /repo worktree remove --force {wt}')
    rc, o = sh(f'git -C /repo worktree add -q --detach {wt} HEAD')
    if rc != 0:
        print('cannot create worktree', o)
        return 2
    loud = []
    try:
        for d in sorted(glob.glob(os.path.join(V, 'benign', '*-*'))):
            sid = os.path.basename(d)
            if only and sid not in only and sid.split('-')[0] not in only:      # seed ids or whole properties
                continue
            meta = json.load(open(os.path.join(d, 'meta.json')))
            prop = meta['preserves_property']
            sh('git checkout -- .', cwd=wt)
            rc, o = sh(f'git apply {os.path.join(d, "patch.diff")}', cwd=wt)
            if rc != 0:
                print(f'{sid}: patch no longer applies to HEAD (skipped)', flush=True)
                continue
            t0 = time.time()
            rc, o = sh(f'./check {prop} --tier quick', cwd=V, env={'VERIF_SEED': os.environ.get('VERIF_SEED', '0'), 'VERIF_REPO': wt,
                       'VERIF_EVIDENCE_DIR': '/tmp/seed_evidence', 'VERIF_REPLAY_DIR': '/tmp/seed_replays'})
            print(f'benign {sid}: {prop} rc={rc} {time.time() - t0:.0f}s {o.strip().splitlines()[-1][:140] if o.strip() else ""}', flush=True)
            if rc != 0:
                loud.append(sid)
                for l in [x for x in o.split('\n') if 'failing clauses' in x][:3]:
                    print('     ', l[:300], flush=True)
    finally:
        sh('git checkout -- .', cwd=wt)
        sh(f'git -C /repo worktree remove --force {wt}')
    print('BENIGN-RETEST alarms:', loud, flush=True)
    return 0 if not loud else 1


if __name__ == '__main__':
    if sys.argv[1] == 'retest':
        sys.exit(retest(set(sys.argv[2:]) or None))
    if sys.argv[1] == 'benign-retest':
        sys.exit(benign_retest(set(sys.argv[2:]) or None))
    if sys.argv[1] == 'summary':
        summary()
        sys.exit(0)
    cmd, prop, n = sys.argv[1], sys.argv[2], int(sys.argv[3])
    if cmd == 'benign':
        wt = sys.argv[5] if len(sys.argv) > 5 and sys.argv[4] == '--wt' else f'/tmp/wtd_{prop}'
        sys.exit(0 if benign(prop, n, wt) else 1)
    if cmd == 'confirm':
        wt = sys.argv[5] if len(sys.argv) > 5 and sys.argv[4] == '--wt' else f'/tmp/wt_{prop}'
        sys.exit(0 if confirm(prop, n, wt) else 1)
    checks = sys.argv[5].split(',') if len(sys.argv) > 5 and sys.argv[4] == '--checks' else [prop]
    wt = sys.argv[7] if len(sys.argv) > 7 and sys.argv[6] == '--wt' else None
    sys.exit(0 if detect(prop, n, checks, wt) else 1)
