"""Developer tool (not a registered check): syntactic mutation campaign.

For a property, small syntactic mutants of its anchored source files are generated (comparison and
boolean operators, integer constants +-1, True/False, negated conditions, dropped call statements),
each is applied in a scratch worktree of /repo (never /repo itself), the repository's test suite is run
(mutants it kills are of no interest: the properties are about what the tests cannot settle) and for the
survivors the registered quick check of the property runs against the worktree (VERIF_REPO).

  mutool.py run <PROP> <N> [--seed S] [--slot K]     results appended to /tmp/mut/<PROP>.jsonl
  mutool.py report                                    table of results

Outcomes: killed-by-tests / caught (check exit 1) / missed (exit 0: equivalent mutant or blind spot) /
machinery (exit 2: a crash of the harness that should have been a verdict - to be repaired)."""
import ast
import json
import os
import random
import re
import subprocess
import sys
import time

V = os.path.dirname(os.path.dirname(os.path.abspath(__file__)))
PY = '/venv/bin/python'
OUT = '/tmp/mut'

CMP = {ast.Lt: ('<', '<='), ast.LtE: ('<=', '<'), ast.Gt: ('>', '>='), ast.GtE: ('>=', '>'), ast.Eq: ('==', '!='), ast.NotEq: ('!=', '==')}


def sh(cmd, cwd=None, env=None, timeout=3600):
    e = dict(os.environ)
    if env:
        e.update(env)
    try:
        p = subprocess.run(cmd, shell=True, cwd=cwd, env=e, capture_output=True, text=True, timeout=timeout)
        return p.returncode, p.stdout + p.stderr
    except subprocess.TimeoutExpired:
        return 124, 'timeout'


def sites(path, only_funcs=None):
    """Yield (lineno, col, end_col, replacement_text, description) single-line textual mutations."""
    src = open(path).read()
    lines = src.split('\n')
    tree = ast.parse(src)
    out = []
    doc_lines = set()
    for node in ast.walk(tree):
        if isinstance(node, (ast.FunctionDef, ast.ClassDef, ast.Module)) and node.body and isinstance(node.body[0], ast.Expr) \
                and isinstance(getattr(node.body[0], 'value', None), ast.Constant) and isinstance(node.body[0].value.value, str):
            d = node.body[0]
            doc_lines.update(range(d.lineno, d.end_lineno + 1))

    def in_func(node):
        return True

    for fn in [n for n in ast.walk(tree) if isinstance(n, (ast.FunctionDef,))]:
        if only_funcs and fn.name not in only_funcs:
            continue
        for node in ast.walk(fn):
            ln = getattr(node, 'lineno', None)
            if ln is None or ln in doc_lines or getattr(node, 'end_lineno', ln) != ln:
                continue
            line = lines[ln - 1]
            if 'raise ' in line or 'logger.' in line or line.strip().startswith(('assert', '@')):
                continue
            if isinstance(node, ast.Compare) and len(node.ops) == 1 and type(node.ops[0]) in CMP:
                a, b = CMP[type(node.ops[0])]
                seg_start, seg_end = node.left.end_col_offset, node.comparators[0].col_offset
                seg = line[seg_start:seg_end]
                m = re.search(re.escape(a), seg)
                if m and seg.strip() == a:
                    out.append((ln, seg_start + m.start(), seg_start + m.end(), b, f'{a} -> {b}'))
            elif isinstance(node, ast.BoolOp) and len(node.values) == 2:
                a, b = ('and', 'or') if isinstance(node.op, ast.And) else ('or', 'and')
                seg_start, seg_end = node.values[0].end_col_offset, node.values[1].col_offset
                seg = line[seg_start:seg_end]
                if seg.strip() == a:
                    m = re.search(a, seg)
                    out.append((ln, seg_start + m.start(), seg_start + m.end(), b, f'{a} -> {b}'))
            elif isinstance(node, ast.Constant) and type(node.value) is int and 0 <= node.value <= 64:
                for d in (1, -1):
                    if node.value + d >= 0:
                        out.append((ln, node.col_offset, node.end_col_offset, str(node.value + d), f'{node.value} -> {node.value + d}'))
            elif isinstance(node, ast.Constant) and type(node.value) is bool:
                out.append((ln, node.col_offset, node.end_col_offset, str(not node.value), f'{node.value} -> {not node.value}'))
            elif isinstance(node, (ast.If, ast.While)) and getattr(node.test, 'end_lineno', ln) == ln and node.test.lineno == ln:
                t = node.test
                out.append((ln, t.col_offset, t.end_col_offset, f'not ({line[t.col_offset:t.end_col_offset]})', 'condition negated'))
            elif isinstance(node, ast.Expr) and isinstance(node.value, ast.Call) and node.end_lineno == ln:
                out.append((ln, node.col_offset, node.end_col_offset, 'pass', 'call statement dropped: ' + line.strip()[:50]))
            elif isinstance(node, ast.BinOp) and isinstance(node.op, (ast.Add, ast.Sub)) and node.left.end_lineno == ln and node.right.lineno == ln:
                a, b = ('+', '-') if isinstance(node.op, ast.Add) else ('-', '+')
                seg_start, seg_end = node.left.end_col_offset, node.right.col_offset
                seg = line[seg_start:seg_end]
                if seg.strip() == a:
                    m = re.search(re.escape(a), seg)
                    out.append((ln, seg_start + m.start(), seg_start + m.end(), b, f'{a} -> {b}'))
    return out


def apply(path, site):
    ln, c0, c1, rep, _ = site
    lines = open(path).read().split('\n')
    lines[ln - 1] = lines[ln - 1][:c0] + rep + lines[ln - 1][c1:]
    open(path, 'w').write('\n'.join(lines))


# functions of the big shared files that belong to a property (others are mutated for the property that owns them)
FOCUS = {
    'C01': {'cirbo/core/circuit/circuit.py': {'evaluate', 'evaluate_at', 'evaluate_circuit', 'evaluate_circuit_outputs', 'evaluate_full_circuit', 'get_truth_table', 'get_gates_truth_table'},
            'cirbo/synthesis/circuit_search.py': {'_tt_to_gate_type'}, 'cirbo/minimization/subcircuit.py': {'eval_pattern'}, 'cirbo/sat/cnf/tseytin.py': None,
            'cirbo/core/circuit/operators.py': None, 'cirbo/core/circuit/gate.py': None, 'cirbo/core/circuit/converters.py': None},
    'C02': {'cirbo/core/circuit/circuit.py': {'_add_user', '_remove_user', '_add_gate', '_emplace_gate', '_remove_gate', 'rename_gate', 'replace_inputs', 'connect_circuit', 'set_inputs', 'set_outputs',
                                              'make_block', 'make_block_from_slice', '_remove_block', 'delete_block', 'remove_block', '__copy__', 'top_sort', 'add_inputs', 'order_inputs', 'order_outputs',
                                              '_rename_gate', 'mark_as_output', 'remove_gate'}},
    'C10': {'cirbo/core/circuit/circuit.py': {'connect_circuit', 'connect_left', 'connect_right', 'connect_inputs', 'extend_circuit', 'add_circuit', 'into_circuit', 'make_block_from_slice'}},
    'C19': {'cirbo/core/circuit/circuit.py': {'rename_gate', 'replace_inputs', 'replace_subcircuit', 'remove_gate', '_rename_gate', 'make_block_from_slice', '_remove_block'}},
    'C20': {'cirbo/core/circuit/circuit.py': {'top_sort', 'dfs', 'bfs', '_traverse_circuit'}, 'cirbo/core/circuit/validation.py': {'check_circuit_has_no_cycles'}},
    'C14': {'cirbo/core/circuit/circuit.py': {'into_bench'}, 'cirbo/core/circuit/converters.py': None},
    'C15': {'cirbo/core/circuit/circuit.py': {'evaluate_circuit', 'evaluate_full_circuit', 'evaluate_circuit_outputs'}, 'cirbo/core/circuit/operators.py': None},
    'C11': {'cirbo/core/circuit/circuit.py': {'format_circuit', 'save_to_file', 'from_bench_string', 'from_bench_file'}, 'cirbo/core/circuit/gate.py': {'format_gate'},
            'cirbo/core/parser/bench.py': None, 'cirbo/core/parser/abstract.py': None},
    'C12': {'cirbo/core/circuit/circuit.py': {'is_constant', 'is_constant_at', 'is_monotone', 'is_monotone_at', 'is_symmetric', 'is_symmetric_at', 'is_dependent_on_input_at',
                                              'is_output_equal_to_input', 'is_output_equal_to_input_negation', 'get_significant_inputs_of', 'find_negations_to_make_symmetric'},
            'cirbo/core/truth_table.py': None, 'cirbo/core/python_function.py': None, 'cirbo/core/utils.py': None, 'cirbo/core/circuit/utils.py': None},
    'C13': {'cirbo/sat/miter.py': None, 'cirbo/synthesis/generation/generation.py': {'generate_pairwise_xor', 'add_pairwise_xor'}},
    'C04': {'cirbo/minimization/subcircuit.py': None},
    'C06': {'cirbo/synthesis/circuit_search.py': None},
    'C09': {'cirbo/synthesis/generation/arithmetics/subtraction.py': None, 'cirbo/synthesis/generation/arithmetics/div_mod.py': None, 'cirbo/synthesis/generation/arithmetics/sqrt.py': None,
            'cirbo/synthesis/generation/arithmetics/equality.py': None, 'cirbo/synthesis/generation/generation.py': None},
    'C08': {'cirbo/synthesis/generation/arithmetics/multiplication.py': None, 'cirbo/synthesis/generation/arithmetics/square.py': None},
    'C07': {'cirbo/synthesis/generation/arithmetics/summation.py': None},
    'C17': {'cirbo/circuits_db/db.py': None, 'cirbo/circuits_db/normalization.py': None},
}


def targets(prop):
    if prop in FOCUS:
        return FOCUS[prop]
    for ln in open(os.path.join(V, 'properties.jsonl')):
        p = json.loads(ln)
        if p['id'] == prop:
            return {f: None for f in p['anchors']['files'] if f.endswith('.py')}
    return {}


def run(prop, n, seed, slot):
    os.makedirs(OUT, exist_ok=True)
    wt = f'/tmp/mut_wt_{slot}'
    sh(f'git -C /repo worktree remove --force {wt}')
    rc, o = sh(f'git -C /repo worktree add -q --detach {wt} HEAD')
    if rc != 0:
        print('cannot create worktree', o)
        return 2
    allsites = []
    for f, funcs in targets(prop).items():
        for s in sites(os.path.join(wt, f), funcs):
            allsites.append((f, s))
    rng = random.Random(seed)
    rng.shuffle(allsites)
    done = set()
    res_path = os.path.join(OUT, f'{prop}.jsonl')
    if os.path.exists(res_path):
        for ln in open(res_path):
            r = json.loads(ln)
            done.add((r['file'], r['line'], r['what']))
    count = 0
    try:
        for f, s in allsites:
            if count >= n:
                break
            key = (f, s[0], s[4])
            if key in done:
                continue
            sh('git checkout -- .', cwd=wt)
            apply(os.path.join(wt, f), s)
            rec = {'prop': prop, 'file': f, 'line': s[0], 'what': s[4], 'text': open(os.path.join(wt, f)).read().split('\n')[s[0] - 1].strip()[:160]}
            rc, o = sh(f'{PY} -c "import ast,sys; ast.parse(open(sys.argv[1]).read())" {os.path.join(wt, f)}')
            if rc != 0:
                continue
            t0 = time.time()
            rc, o = sh(f'{PY} -m pytest -q -p no:cacheprovider --timeout=300 --continue-on-collection-errors 2>&1 | tail -3', cwd=wt, timeout=1500)
            tail = o.strip().split('\n')[-1] if o.strip() else ''
            rec['suite'] = tail[:120]
            if not (tail.startswith('2129 passed') and '8 errors' in tail):
                rec['outcome'] = 'killed-by-tests'
            else:
                rc, o = sh(f'./check {prop} --tier quick', cwd=V, env={'VERIF_SEED': '0', 'VERIF_REPO': wt, 'VERIF_EVIDENCE_DIR': f'/tmp/mut/ev{slot}',
                                                                          'VERIF_REPLAY_DIR': f'/tmp/mut/rep{slot}'}, timeout=3000)
                rec['check_rc'] = rc
                rec['check_tail'] = o.strip().split('\n')[-1][:200] if o.strip() else ''
                rec['clauses'] = sorted({c for l in o.split('\n') if 'failing clauses' in l for c in re.findall(r"'([^']+)'", l.split('src=')[0])})[:8]
                rec['outcome'] = {0: 'missed', 1: 'caught'}.get(rc, 'machinery')
                count += 1
            rec['wall_s'] = round(time.time() - t0, 1)
            with open(res_path, 'a') as fh:
                fh.write(json.dumps(rec) + '\n')
            print(prop, rec['outcome'], f, s[0], s[4], '|', rec['text'][:80], flush=True)
    finally:
        sh('git checkout -- .', cwd=wt)
        sh(f'git -C /repo worktree remove --force {wt}')
    return 0


def report():
    import glob

    tot = {}
    for p in sorted(glob.glob(os.path.join(OUT, 'C*.jsonl'))):
        prop = os.path.basename(p)[:-6]
        c = {}
        for ln in open(p):
            r = json.loads(ln)
            c[r['outcome']] = c.get(r['outcome'], 0) + 1
        tot[prop] = c
        print(prop, c)
    return tot


if __name__ == '__main__':
    if sys.argv[1] == 'report':
        report()
        sys.exit(0)
    prop, n = sys.argv[2], int(sys.argv[3])
    seed = int(sys.argv[sys.argv.index('--seed') + 1]) if '--seed' in sys.argv else 0
    slot = sys.argv[sys.argv.index('--slot') + 1] if '--slot' in sys.argv else prop
    sys.exit(run(prop, n, seed, slot))
